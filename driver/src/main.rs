//! E1 — fact extractor for the fastcgi-server static checks.
//!
//! A `rustc_private` driver used as `RUSTC_WORKSPACE_WRAPPER`. For the crate named by
//! `FCGI_FACTS_CRATE` (default `fastcgi_server`) it clones every MIR body at `mir_promoted` time
//! (pre-borrowck, pre-coroutine-lowering; async bodies still contain `Yield`) and, after analysis,
//! serialises them together with callee resolution, constants, ADT tables and impl tables as one
//! JSON document written to `FCGI_FACTS_OUT`. Nothing is executed or interpreted.
#![feature(rustc_private)]
#![allow(clippy::all)]

extern crate rustc_abi;
extern crate rustc_data_structures;
extern crate rustc_driver;
extern crate rustc_hir;
extern crate rustc_index;
extern crate rustc_interface;
extern crate rustc_middle;
extern crate rustc_session;
extern crate rustc_span;

use std::cell::RefCell;
use std::fmt::Write as _;
use std::sync::OnceLock;

use rustc_driver::{Callbacks, Compilation};
use rustc_hir::def::DefKind;
use rustc_hir::def_id::{DefId, LocalDefId};
use rustc_index::IndexVec;
use rustc_interface::interface;
use rustc_middle::mir::{self, *};
use rustc_middle::ty::print::with_no_trimmed_paths;
use rustc_middle::ty::{self, GenericArgKind, Instance, Ty, TyCtxt, TypingEnv};
use rustc_session::Session;
use rustc_span::{ExpnKind, Span};

type MirPromotedFn = for<'tcx> fn(
    TyCtxt<'tcx>,
    LocalDefId,
) -> (
    &'tcx rustc_data_structures::steal::Steal<Body<'tcx>>,
    &'tcx rustc_data_structures::steal::Steal<IndexVec<Promoted, Body<'tcx>>>,
);

static ORIG_MIR_PROMOTED: OnceLock<usize> = OnceLock::new();

thread_local! {
    static BODIES: RefCell<Vec<(LocalDefId, Body<'static>, Vec<Body<'static>>)>> = RefCell::new(Vec::new());
}

fn my_mir_promoted<'tcx>(
    tcx: TyCtxt<'tcx>,
    def: LocalDefId,
) -> (
    &'tcx rustc_data_structures::steal::Steal<Body<'tcx>>,
    &'tcx rustc_data_structures::steal::Steal<IndexVec<Promoted, Body<'tcx>>>,
) {
    let orig: MirPromotedFn = unsafe { std::mem::transmute(*ORIG_MIR_PROMOTED.get().unwrap()) };
    let r = orig(tcx, def);
    let body: Body<'tcx> = r.0.borrow().clone();
    let proms: Vec<Body<'tcx>> = r.1.borrow().iter().cloned().collect();
    let body: Body<'static> = unsafe { std::mem::transmute(body) };
    let proms: Vec<Body<'static>> = unsafe { std::mem::transmute(proms) };
    BODIES.with(|b| b.borrow_mut().push((def, body, proms)));
    r
}

struct Cb {
    active: bool,
}

impl Callbacks for Cb {
    fn config(&mut self, config: &mut interface::Config) {
        if !self.active {
            return;
        }
        // results replayed from the incremental cache would bypass the provider override
        config.opts.incremental = None;
        config.override_queries = Some(|_sess: &Session, providers| {
            let orig = providers.queries.mir_promoted;
            let _ = ORIG_MIR_PROMOTED.set(orig as usize);
            providers.queries.mir_promoted = my_mir_promoted;
        });
    }

    fn after_analysis<'tcx>(&mut self, _c: &interface::Compiler, tcx: TyCtxt<'tcx>) -> Compilation {
        if !self.active {
            return Compilation::Continue;
        }
        let want = std::env::var("FCGI_FACTS_CRATE").unwrap_or_else(|_| "fastcgi_server".into());
        let name = tcx.crate_name(rustc_hir::def_id::LOCAL_CRATE).to_string();
        if name != want {
            return Compilation::Continue;
        }
        let out = match std::env::var("FCGI_FACTS_OUT") {
            Ok(o) => o,
            Err(_) => return Compilation::Continue,
        };
        // make sure every body owner went through mir_promoted
        for def in tcx.hir_body_owners() {
            if !tcx.is_typeck_child(def.to_def_id()) {
                let _ = tcx.ensure_ok().mir_borrowck(def);
            }
        }
        let bodies: Vec<(LocalDefId, Body<'tcx>, Vec<Body<'tcx>>)> =
            BODIES.with(|b| unsafe { std::mem::transmute(std::mem::take(&mut *b.borrow_mut())) });
        let mut em = Emitter { tcx, s: String::with_capacity(32 << 20) };
        with_no_trimmed_paths!(em.emit_all(&name, &bodies));
        std::fs::write(&out, em.s).expect("write facts");
        Compilation::Continue
    }
}

struct Emitter<'tcx> {
    tcx: TyCtxt<'tcx>,
    s: String,
}

fn esc(out: &mut String, v: &str) {
    out.push('"');
    for c in v.chars() {
        match c {
            '"' => out.push_str("\\\""),
            '\\' => out.push_str("\\\\"),
            '\n' => out.push_str("\\n"),
            '\r' => out.push_str("\\r"),
            '\t' => out.push_str("\\t"),
            c if (c as u32) < 0x20 => {
                let _ = write!(out, "\\u{:04x}", c as u32);
            }
            c => out.push(c),
        }
    }
    out.push('"');
}

impl<'tcx> Emitter<'tcx> {
    fn str(&mut self, v: &str) {
        esc(&mut self.s, v);
    }
    fn key(&mut self, k: &str) {
        self.str(k);
        self.s.push(':');
    }
    fn kv_str(&mut self, k: &str, v: &str) {
        self.key(k);
        self.str(v);
    }
    fn kv_num(&mut self, k: &str, v: impl std::fmt::Display) {
        self.key(k);
        let _ = write!(self.s, "{}", v);
    }
    fn comma(&mut self) {
        self.s.push(',');
    }

    fn path(&self, d: DefId) -> String {
        self.tcx.def_path_str(d)
    }

    fn emit_all(&mut self, name: &str, bodies: &[(LocalDefId, Body<'tcx>, Vec<Body<'tcx>>)]) {
        self.s.push('{');
        self.kv_str("crate", name);
        self.comma();
        self.kv_str("nonce", &std::env::var("FCGI_FACTS_NONCE").unwrap_or_default());
        self.comma();
        self.key("cfg");
        self.s.push('[');
        let mut first = true;
        let mut cfgs: Vec<String> = self
            .tcx
            .sess
            .config
            .iter()
            .map(|(k, v)| match v {
                Some(v) => format!("{}={}", k, v),
                None => k.to_string(),
            })
            .filter(|c| c.starts_with("feature") || c == "debug_assertions" || c == "test")
            .collect();
        cfgs.sort();
        for c in cfgs.iter() {
            if !first {
                self.comma();
            }
            first = false;
            self.str(c.as_str());
        }
        self.s.push(']');
        self.comma();

        self.key("bodies");
        self.s.push('[');
        let mut first = true;
        for (def, body, proms) in bodies {
            if !first {
                self.comma();
            }
            first = false;
            self.emit_body(def.to_def_id(), body, None);
            for (i, p) in proms.iter().enumerate() {
                self.comma();
                self.emit_body(def.to_def_id(), p, Some(i));
            }
        }
        self.s.push(']');
        self.comma();

        self.key("adts");
        self.emit_adts();
        self.comma();
        self.key("consts");
        self.emit_consts();
        self.comma();
        self.key("impls");
        self.emit_impls();
        self.comma();
        self.key("fns");
        self.emit_fns();
        self.s.push('}');
    }

    // ---------------------------------------------------------------- spans
    fn emit_span(&mut self, sp: Span) {
        let sm = self.tcx.sess.source_map();
        let root = sp.source_callsite();
        let lo = sm.lookup_char_pos(root.lo());
        let hi = sm.lookup_char_pos(root.hi());
        let file = match &lo.file.name {
            rustc_span::FileName::Real(r) => match r.local_path() {
                Some(p) => p.display().to_string(),
                None => format!("{:?}", r),
            },
            o => format!("{:?}", o),
        };
        self.s.push('{');
        self.kv_str("f", &file);
        self.comma();
        self.kv_num("l", lo.line);
        self.comma();
        self.kv_num("c", lo.col.0 + 1);
        self.comma();
        self.kv_num("l2", hi.line);
        self.comma();
        self.kv_num("c2", hi.col.0 + 1);
        let mut noise = false;
        let mut macros: Vec<String> = Vec::new();
        for ex in sp.macro_backtrace() {
            match ex.kind {
                ExpnKind::Macro(_, name) => {
                    let krate = match ex.macro_def_id {
                        Some(d) => self.tcx.crate_name(d.krate).to_string(),
                        None => "?".to_string(),
                    };
                    if krate == "tracing" || krate == "tracing_core" || krate == "log" {
                        noise = true;
                    }
                    macros.push(format!("{}::{}", krate, name));
                }
                ExpnKind::Desugaring(k) => macros.push(format!("desugar:{:?}", k)),
                ExpnKind::AstPass(k) => macros.push(format!("astpass:{:?}", k)),
                ExpnKind::Root => {}
            }
        }
        if !macros.is_empty() {
            self.comma();
            self.key("m");
            self.s.push('[');
            for (i, m) in macros.iter().enumerate() {
                if i > 0 {
                    self.comma();
                }
                self.str(m);
            }
            self.s.push(']');
        }
        if noise {
            self.comma();
            self.kv_num("n", 1);
        }
        self.s.push('}');
    }

    // ---------------------------------------------------------------- types
    fn ty_str(&self, t: Ty<'tcx>) -> String {
        format!("{}", t)
    }

    /// Structured summary of a type: printable string plus the interesting things inside it.
    fn emit_ty(&mut self, t: Ty<'tcx>) {
        let mut cos: Vec<String> = Vec::new();
        let mut adts: Vec<String> = Vec::new();
        let mut params: Vec<String> = Vec::new();
        let mut dynf = false;
        let mut seen: Vec<DefId> = Vec::new();
        let mut stack: Vec<Ty<'tcx>> = vec![t];
        let mut budget = 400;
        while let Some(t) = stack.pop() {
            for arg in t.walk() {
                budget -= 1;
                if budget <= 0 {
                    break;
                }
                if let GenericArgKind::Type(t) = arg.kind() {
                    match *t.kind() {
                        ty::Adt(d, _) => {
                            let p = self.path(d.did());
                            if !adts.contains(&p) {
                                adts.push(p);
                            }
                        }
                        ty::Param(p) => {
                            let n = p.name.to_string();
                            if !params.contains(&n) {
                                params.push(n);
                            }
                        }
                        ty::Dynamic(..) => dynf = true,
                        ty::Coroutine(d, _) | ty::Closure(d, _) | ty::CoroutineClosure(d, _) => {
                            let p = self.path(d);
                            if !cos.contains(&p) {
                                cos.push(p);
                            }
                        }
                        ty::Alias(ty::AliasTy { kind: ty::Opaque { def_id }, .. }) => {
                            if !seen.contains(&def_id) {
                                seen.push(def_id);
                                if def_id.is_local() {
                                    let hidden =
                                        self.tcx.type_of(def_id).instantiate_identity().skip_norm_wip();
                                    stack.push(hidden);
                                }
                            }
                        }
                        _ => {}
                    }
                }
            }
        }
        self.s.push('{');
        self.kv_str("s", &self.ty_str(t));
        let k = match *t.kind() {
            ty::Adt(d, _) => Some(("adt", self.path(d.did()))),
            ty::Ref(_, inner, _) => match *inner.kind() {
                ty::Adt(d, _) => Some(("refadt", self.path(d.did()))),
                _ => None,
            },
            ty::Param(p) => Some(("param", p.name.to_string())),
            ty::Coroutine(d, _) => Some(("coroutine", self.path(d))),
            ty::Closure(d, _) => Some(("closure", self.path(d))),
            ty::FnDef(d, _) => Some(("fndef", self.path(d))),
            _ => None,
        };
        if let Some((k, v)) = k {
            self.comma();
            self.kv_str(k, &v);
        }
        if !cos.is_empty() {
            self.comma();
            self.key("co");
            self.str_list(&cos);
        }
        if !adts.is_empty() {
            self.comma();
            self.key("adts");
            self.str_list(&adts);
        }
        if !params.is_empty() {
            self.comma();
            self.key("params");
            self.str_list(&params);
        }
        if dynf {
            self.comma();
            self.kv_num("dyn", 1);
        }
        self.s.push('}');
    }

    fn str_list(&mut self, v: &[String]) {
        self.s.push('[');
        for (i, x) in v.iter().enumerate() {
            if i > 0 {
                self.comma();
            }
            self.str(x);
        }
        self.s.push(']');
    }

    // ---------------------------------------------------------------- bodies
    fn emit_body(&mut self, def: DefId, body: &Body<'tcx>, promoted: Option<usize>) {
        let tcx = self.tcx;
        let kind = tcx.def_kind(def);
        self.s.push('{');
        let mut p = self.path(def);
        if let Some(i) = promoted {
            p = format!("{}::{{promoted#{}}}", p, i);
        }
        self.kv_str("path", &p);
        self.comma();
        self.kv_str("key", &tcx.def_path(def).to_string_no_crate_verbose());
        self.comma();
        self.kv_str("kind", &format!("{:?}", kind));
        self.comma();
        if let Some(ck) = body.coroutine_kind() {
            self.kv_str("coroutine", &format!("{:?}", ck));
            self.comma();
        }
        if promoted.is_some() {
            self.kv_num("promoted", 1);
            self.comma();
        }
        // parent item (for closures/coroutines: the enclosing fn)
        let parent = tcx.typeck_root_def_id(def);
        if parent != def {
            self.kv_str("root", &self.path(parent));
            self.comma();
        }
        if matches!(kind, DefKind::Fn | DefKind::AssocFn) {
            let vis = tcx.visibility(def);
            self.kv_str("vis", if vis.is_public() { "pub" } else { "restricted" });
            self.comma();
            // containing impl / trait
            if let Some(imp) = tcx.impl_of_assoc(def) {
                if let Some(tr) = tcx.impl_opt_trait_ref(imp) {
                    let tr = tr.instantiate_identity().skip_norm_wip();
                    self.kv_str("impl_trait", &self.path(tr.def_id));
                    self.comma();
                }
                let st = tcx.type_of(imp).instantiate_identity().skip_norm_wip();
                self.key("impl_self");
                self.emit_ty(st);
                self.comma();
            }
        }
        self.key("span");
        self.emit_span(body.span);
        self.comma();
        self.kv_num("argc", body.arg_count);
        self.comma();

        self.key("locals");
        self.s.push('[');
        for (i, (_, d)) in body.local_decls.iter_enumerated().enumerate() {
            if i > 0 {
                self.comma();
            }
            self.s.push('{');
            self.key("ty");
            self.emit_ty(d.ty);
            if d.is_user_variable() {
                self.comma();
                self.kv_num("user", 1);
            }
            if d.mutability.is_mut() {
                self.comma();
                self.kv_num("mut", 1);
            }
            self.s.push('}');
        }
        self.s.push(']');
        self.comma();

        self.key("vars");
        self.s.push('[');
        let mut first = true;
        for v in &body.var_debug_info {
            if let VarDebugInfoContents::Place(pl) = &v.value {
                if !first {
                    self.comma();
                }
                first = false;
                self.s.push('{');
                self.kv_str("name", &v.name.to_string());
                self.comma();
                self.key("place");
                self.emit_place(body, *pl);
                self.s.push('}');
            }
        }
        self.s.push(']');
        self.comma();

        let typing_env = TypingEnv::post_analysis(tcx, def);
        self.key("blocks");
        self.s.push('[');
        for (i, (_, bb)) in body.basic_blocks.iter_enumerated().enumerate() {
            if i > 0 {
                self.comma();
            }
            self.s.push('{');
            if bb.is_cleanup {
                self.kv_num("cleanup", 1);
                self.comma();
            }
            self.key("st");
            self.s.push('[');
            let mut first = true;
            for st in &bb.statements {
                if self.emit_stmt(body, st, typing_env, first) {
                    first = false;
                }
            }
            self.s.push(']');
            self.comma();
            self.key("t");
            self.emit_term(body, bb.terminator(), typing_env);
            self.s.push('}');
        }
        self.s.push(']');
        self.s.push('}');
    }

    fn emit_place(&mut self, body: &Body<'tcx>, pl: Place<'tcx>) {
        self.s.push('{');
        self.kv_num("l", pl.local.as_usize());
        if !pl.projection.is_empty() {
            self.comma();
            self.key("p");
            self.s.push('[');
            let mut cur = PlaceTy::from_ty(body.local_decls[pl.local].ty);
            for (i, el) in pl.projection.iter().enumerate() {
                if i > 0 {
                    self.comma();
                }
                self.s.push('{');
                match el {
                    ProjectionElem::Deref => self.kv_num("deref", 1),
                    ProjectionElem::Field(f, fty) => {
                        self.kv_num("f", f.as_usize());
                        // field name, if the base is an ADT
                        let nm: Option<String> = match *cur.ty.kind() {
                            ty::Adt(adt, _) => {
                                let v = match cur.variant_index {
                                    Some(v) => Some(adt.variant(v)),
                                    None if adt.is_struct() || adt.is_union() => {
                                        Some(adt.non_enum_variant())
                                    }
                                    None => None,
                                };
                                v.and_then(|v| v.fields.get(f).map(|fd| fd.name.to_string()))
                            }
                            _ => None,
                        };
                        if let Some(nm) = nm {
                            self.comma();
                            self.kv_str("n", &nm);
                        }
                        if let ty::Adt(adt, _) = *cur.ty.kind() {
                            self.comma();
                            self.kv_str("of", &self.path(adt.did()));
                        }
                        self.comma();
                        self.kv_str("ty", &self.ty_str(fty));
                    }
                    ProjectionElem::Index(l) => self.kv_num("idx", l.as_usize()),
                    ProjectionElem::ConstantIndex { offset, min_length, from_end } => {
                        self.kv_num("cidx", offset);
                        self.comma();
                        self.kv_num("min", min_length);
                        self.comma();
                        self.kv_num("from_end", from_end as u8);
                    }
                    ProjectionElem::Subslice { from, to, from_end } => {
                        self.kv_num("sub_from", from);
                        self.comma();
                        self.kv_num("sub_to", to);
                        self.comma();
                        self.kv_num("from_end", from_end as u8);
                    }
                    ProjectionElem::Downcast(name, v) => {
                        self.kv_num("variant", v.as_usize());
                        let nm = name.map(|n| n.to_string()).or_else(|| match *cur.ty.kind() {
                            ty::Adt(adt, _) if adt.is_enum() => Some(adt.variant(v).name.to_string()),
                            _ => None,
                        });
                        if let Some(nm) = nm {
                            self.comma();
                            self.kv_str("vn", &nm);
                        }
                    }
                    ProjectionElem::OpaqueCast(_) => self.kv_num("opaque_cast", 1),
                    ProjectionElem::UnwrapUnsafeBinder(_) => self.kv_num("unwrap_binder", 1),
                }
                self.s.push('}');
                cur = cur.projection_ty(self.tcx, el);
            }
            self.s.push(']');
        }
        self.s.push('}');
    }

    fn emit_operand(&mut self, body: &Body<'tcx>, op: &Operand<'tcx>, te: TypingEnv<'tcx>) {
        match op {
            Operand::Copy(p) => {
                self.s.push('{');
                self.key("copy");
                self.emit_place(body, *p);
                self.s.push('}');
            }
            Operand::Move(p) => {
                self.s.push('{');
                self.key("move");
                self.emit_place(body, *p);
                self.s.push('}');
            }
            Operand::Constant(c) => {
                self.s.push('{');
                self.key("const");
                self.emit_const(&c.const_, te, c.span);
                self.s.push('}');
            }
            Operand::RuntimeChecks(rc) => {
                self.s.push('{');
                self.kv_str("rtcheck", &format!("{:?}", rc));
                self.s.push('}');
            }
        }
    }

    fn emit_bytes(&mut self, b: &[u8]) {
        self.s.push('[');
        for (i, x) in b.iter().enumerate() {
            if i > 0 {
                self.comma();
            }
            let _ = write!(self.s, "{}", x);
        }
        self.s.push(']');
    }

    fn emit_constval(&mut self, v: ConstValue, ty: Ty<'tcx>) {
        let tcx = self.tcx;
        match v {
            ConstValue::Scalar(sc) => match sc {
                mir::interpret::Scalar::Int(i) => {
                    self.comma();
                    self.kv_str("k", "int");
                    self.comma();
                    let bits = i.to_bits(i.size());
                    self.kv_str("v", &bits.to_string());
                    self.comma();
                    self.kv_num("size", i.size().bytes());
                }
                mir::interpret::Scalar::Ptr(ptr, _) => {
                    // pointer to an allocation: try to dump pointee bytes (e.g. &'static [T; N])
                    let (prov, off) = ptr.into_raw_parts();
                    let aid = prov.alloc_id();
                    self.comma();
                    self.kv_str("k", "ptr");
                    match tcx.try_get_global_alloc(aid) {
                        Some(mir::interpret::GlobalAlloc::Memory(a)) => {
                            let a = a.inner();
                            let n = a.len();
                            let o = off.bytes_usize();
                            if n <= 4096 && o <= n && a.provenance().ptrs().is_empty() {
                                self.comma();
                                self.key("bytes");
                                let b = a.inspect_with_uninit_and_ptr_outside_interpreter(o..n);
                                self.emit_bytes(b);
                            }
                        }
                        Some(mir::interpret::GlobalAlloc::Static(d)) => {
                            self.comma();
                            self.kv_str("static", &self.path(d));
                        }
                        Some(mir::interpret::GlobalAlloc::Function { instance }) => {
                            self.comma();
                            self.kv_str("fnptr", &self.path(instance.def_id()));
                        }
                        _ => {}
                    }
                }
            },
            ConstValue::ZeroSized => {
                self.comma();
                self.kv_str("k", "zst");
            }
            ConstValue::Slice { .. } => {
                self.comma();
                self.kv_str("k", "slice");
                if let Some(b) = v.try_get_slice_bytes_for_diagnostics(tcx) {
                    if b.len() <= 8192 {
                        self.comma();
                        self.key("bytes");
                        self.emit_bytes(b);
                    }
                }
            }
            ConstValue::Indirect { alloc_id, offset } => {
                self.comma();
                self.kv_str("k", "mem");
                if let Some(mir::interpret::GlobalAlloc::Memory(a)) = tcx.try_get_global_alloc(alloc_id) {
                    let a = a.inner();
                    let o = offset.bytes_usize();
                    // size of the value
                    let sz = tcx
                        .layout_of(TypingEnv::fully_monomorphized().as_query_input(ty))
                        .ok()
                        .map(|l| l.size.bytes_usize());
                    if let Some(sz) = sz {
                        if sz <= 8192 && o + sz <= a.len() {
                            self.comma();
                            self.key("bytes");
                            let b = a.inspect_with_uninit_and_ptr_outside_interpreter(o..o + sz);
                            self.emit_bytes(b);
                            if !a.provenance().ptrs().is_empty() {
                                self.comma();
                                self.key("ptrs");
                                self.s.push('[');
                                let mut firstp = true;
                                for (poff, prov) in a.provenance().ptrs().iter() {
                                    let po = poff.bytes_usize();
                                    if po < o || po >= o + sz {
                                        continue;
                                    }
                                    if !firstp {
                                        self.comma();
                                    }
                                    firstp = false;
                                    self.s.push('[');
                                    let _ = write!(self.s, "{}", po - o);
                                    self.comma();
                                    match tcx.try_get_global_alloc(prov.alloc_id()) {
                                        Some(mir::interpret::GlobalAlloc::Memory(t)) => {
                                            let t = t.inner();
                                            let n = t.len().min(4096);
                                            let b = t.inspect_with_uninit_and_ptr_outside_interpreter(0..n);
                                            self.emit_bytes(b);
                                        }
                                        _ => self.s.push_str("null"),
                                    }
                                    self.s.push(']');
                                }
                                self.s.push(']');
                            }
                        }
                    }
                }
            }
        }
    }

    fn emit_const(&mut self, c: &Const<'tcx>, te: TypingEnv<'tcx>, span: Span) {
        let tcx = self.tcx;
        let ty = c.ty();
        self.s.push('{');
        self.kv_str("ty", &self.ty_str(ty));
        if let ty::FnDef(d, args) = *ty.kind() {
            self.comma();
            self.kv_str("fn", &self.path(d));
            self.comma();
            self.key("args");
            self.emit_generic_args(args);
            self.s.push('}');
            return;
        }
        match c {
            Const::Unevaluated(u, _) => {
                self.comma();
                self.kv_str("def", &self.path(u.def));
                if let Some(p) = u.promoted {
                    self.comma();
                    self.kv_num("promoted", p.as_usize());
                    self.s.push('}');
                    return;
                }
            }
            _ => {}
        }
        // types that mention generic parameters cannot be evaluated
        let generic = match c {
            Const::Unevaluated(u, t) => {
                u.args.iter().any(|a| rustc_middle::ty::TypeVisitableExt::has_non_region_param(&a))
                    || rustc_middle::ty::TypeVisitableExt::has_non_region_param(t)
            }
            Const::Ty(t, k) => {
                rustc_middle::ty::TypeVisitableExt::has_non_region_param(t)
                    || rustc_middle::ty::TypeVisitableExt::has_non_region_param(k)
            }
            Const::Val(_, t) => rustc_middle::ty::TypeVisitableExt::has_non_region_param(t),
        };
        if generic {
            self.comma();
            self.kv_str("k", "generic");
        } else {
            match c.eval(tcx, te, span) {
                Ok(v) => self.emit_constval(v, ty),
                Err(_) => {
                    self.comma();
                    self.kv_str("k", "uneval");
                }
            }
        }
        self.s.push('}');
    }

    fn emit_generic_args(&mut self, args: ty::GenericArgsRef<'tcx>) {
        self.s.push('[');
        let mut first = true;
        for a in args.iter() {
            match a.kind() {
                GenericArgKind::Type(t) => {
                    if !first {
                        self.comma();
                    }
                    first = false;
                    self.emit_ty(t);
                }
                GenericArgKind::Const(c) => {
                    if !first {
                        self.comma();
                    }
                    first = false;
                    self.s.push('{');
                    self.kv_str("s", &format!("{}", c));
                    self.comma();
                    self.kv_num("constarg", 1);
                    self.s.push('}');
                }
                GenericArgKind::Lifetime(_) => {}
            }
        }
        self.s.push(']');
    }

    fn emit_rvalue(&mut self, body: &Body<'tcx>, rv: &Rvalue<'tcx>, te: TypingEnv<'tcx>) {
        self.s.push('{');
        match rv {
            Rvalue::Use(op, _) => {
                self.kv_str("k", "use");
                self.comma();
                self.key("op");
                self.emit_operand(body, op, te);
            }
            Rvalue::Repeat(op, n) => {
                self.kv_str("k", "repeat");
                self.comma();
                self.key("op");
                self.emit_operand(body, op, te);
                self.comma();
                self.kv_str("n", &format!("{}", n));
            }
            Rvalue::Ref(_, bk, p) => {
                self.kv_str("k", "ref");
                self.comma();
                let m = match bk {
                    BorrowKind::Shared => "shared",
                    BorrowKind::Fake(_) => "fake",
                    BorrowKind::Mut { .. } => "mut",
                };
                self.kv_str("bk", m);
                self.comma();
                self.key("place");
                self.emit_place(body, *p);
            }
            Rvalue::ThreadLocalRef(d) => {
                self.kv_str("k", "tlref");
                self.comma();
                self.kv_str("def", &self.path(*d));
            }
            Rvalue::RawPtr(k, p) => {
                self.kv_str("k", "rawptr");
                self.comma();
                self.kv_str("pk", &format!("{:?}", k));
                self.comma();
                self.key("place");
                self.emit_place(body, *p);
            }
            Rvalue::Cast(k, op, t) => {
                self.kv_str("k", "cast");
                self.comma();
                self.kv_str("ck", &format!("{:?}", k));
                self.comma();
                self.key("op");
                self.emit_operand(body, op, te);
                self.comma();
                self.kv_str("ty", &self.ty_str(*t));
            }
            Rvalue::BinaryOp(op, ab) => {
                self.kv_str("k", "bin");
                self.comma();
                self.kv_str("op", &format!("{:?}", op));
                self.comma();
                self.key("a");
                self.emit_operand(body, &ab.0, te);
                self.comma();
                self.key("b");
                self.emit_operand(body, &ab.1, te);
            }
            Rvalue::UnaryOp(op, a) => {
                self.kv_str("k", "un");
                self.comma();
                self.kv_str("op", &format!("{:?}", op));
                self.comma();
                self.key("a");
                self.emit_operand(body, a, te);
            }
            Rvalue::Discriminant(p) => {
                self.kv_str("k", "discr");
                self.comma();
                self.key("place");
                self.emit_place(body, *p);
                let pt = p.ty(&body.local_decls, self.tcx).ty;
                if let ty::Adt(adt, _) = *pt.kind() {
                    self.comma();
                    self.kv_str("of", &self.path(adt.did()));
                }
            }
            Rvalue::Aggregate(kind, ops) => {
                self.kv_str("k", "agg");
                self.comma();
                match &**kind {
                    AggregateKind::Array(t) => {
                        self.kv_str("ak", "array");
                        self.comma();
                        self.kv_str("ety", &self.ty_str(*t));
                    }
                    AggregateKind::Tuple => self.kv_str("ak", "tuple"),
                    AggregateKind::Adt(d, v, _, _, active) => {
                        let adt = self.tcx.adt_def(*d);
                        self.kv_str("ak", "adt");
                        self.comma();
                        self.kv_str("adt", &self.path(*d));
                        self.comma();
                        self.kv_num("vi", v.as_usize());
                        self.comma();
                        self.kv_str("vn", &adt.variant(*v).name.to_string());
                        self.comma();
                        self.key("fields");
                        let names: Vec<String> = match active {
                            Some(f) => vec![adt.variant(*v).fields[*f].name.to_string()],
                            None => adt.variant(*v).fields.iter().map(|f| f.name.to_string()).collect(),
                        };
                        self.str_list(&names);
                    }
                    AggregateKind::Closure(d, _) => {
                        self.kv_str("ak", "closure");
                        self.comma();
                        self.kv_str("def", &self.path(*d));
                    }
                    AggregateKind::Coroutine(d, _) => {
                        self.kv_str("ak", "coroutine");
                        self.comma();
                        self.kv_str("def", &self.path(*d));
                    }
                    AggregateKind::CoroutineClosure(d, _) => {
                        self.kv_str("ak", "coroutine_closure");
                        self.comma();
                        self.kv_str("def", &self.path(*d));
                    }
                    AggregateKind::RawPtr(..) => self.kv_str("ak", "rawptr"),
                }
                self.comma();
                self.key("ops");
                self.s.push('[');
                for (i, o) in ops.iter().enumerate() {
                    if i > 0 {
                        self.comma();
                    }
                    self.emit_operand(body, o, te);
                }
                self.s.push(']');
            }
            Rvalue::CopyForDeref(p) => {
                self.kv_str("k", "use");
                self.comma();
                self.key("op");
                self.s.push('{');
                self.key("copy");
                self.emit_place(body, *p);
                self.s.push('}');
            }
            Rvalue::WrapUnsafeBinder(op, _) => {
                self.kv_str("k", "use");
                self.comma();
                self.key("op");
                self.emit_operand(body, op, te);
            }
        }
        self.s.push('}');
    }

    /// returns true if something was emitted
    fn emit_stmt(&mut self, body: &Body<'tcx>, st: &Statement<'tcx>, te: TypingEnv<'tcx>, first: bool) -> bool {
        match &st.kind {
            StatementKind::Assign(b) => {
                if !first {
                    self.comma();
                }
                let (p, rv) = &**b;
                self.s.push('{');
                self.kv_str("k", "assign");
                self.comma();
                self.key("place");
                self.emit_place(body, *p);
                self.comma();
                self.key("rv");
                self.emit_rvalue(body, rv, te);
                self.comma();
                self.key("sp");
                self.emit_span(st.source_info.span);
                self.s.push('}');
                true
            }
            StatementKind::SetDiscriminant { place, variant_index } => {
                if !first {
                    self.comma();
                }
                self.s.push('{');
                self.kv_str("k", "setdiscr");
                self.comma();
                self.key("place");
                self.emit_place(body, **place);
                self.comma();
                self.kv_num("vi", variant_index.as_usize());
                self.comma();
                self.key("sp");
                self.emit_span(st.source_info.span);
                self.s.push('}');
                true
            }
            StatementKind::StorageDead(l) => {
                if !first {
                    self.comma();
                }
                self.s.push('{');
                self.kv_str("k", "dead");
                self.comma();
                self.kv_num("l", l.as_usize());
                self.s.push('}');
                true
            }
            StatementKind::Intrinsic(i) => {
                if !first {
                    self.comma();
                }
                self.s.push('{');
                self.kv_str("k", "intrinsic");
                self.comma();
                self.kv_str("s", &format!("{:?}", i));
                self.s.push('}');
                true
            }
            _ => false,
        }
    }

    fn unwind_target(u: &UnwindAction) -> Option<usize> {
        match u {
            UnwindAction::Cleanup(b) => Some(b.as_usize()),
            _ => None,
        }
    }

    fn emit_term(&mut self, body: &Body<'tcx>, t: &Terminator<'tcx>, te: TypingEnv<'tcx>) {
        let tcx = self.tcx;
        self.s.push('{');
        match &t.kind {
            TerminatorKind::Goto { target } => {
                self.kv_str("k", "goto");
                self.comma();
                self.kv_num("target", target.as_usize());
            }
            TerminatorKind::SwitchInt { discr, targets } => {
                self.kv_str("k", "switch");
                self.comma();
                self.key("discr");
                self.emit_operand(body, discr, te);
                self.comma();
                self.kv_str("dty", &self.ty_str(discr.ty(&body.local_decls, tcx)));
                self.comma();
                self.key("targets");
                self.s.push('[');
                for (i, (v, b)) in targets.iter().enumerate() {
                    if i > 0 {
                        self.comma();
                    }
                    let _ = write!(self.s, "[\"{}\",{}]", v, b.as_usize());
                }
                self.s.push(']');
                self.comma();
                self.kv_num("otherwise", targets.otherwise().as_usize());
            }
            TerminatorKind::UnwindResume => self.kv_str("k", "resume"),
            TerminatorKind::UnwindTerminate(_) => self.kv_str("k", "terminate"),
            TerminatorKind::Return => self.kv_str("k", "return"),
            TerminatorKind::Unreachable => self.kv_str("k", "unreachable"),
            TerminatorKind::Drop { place, target, unwind, .. } => {
                self.kv_str("k", "drop");
                self.comma();
                self.key("place");
                self.emit_place(body, *place);
                self.comma();
                self.key("ty");
                self.emit_ty(place.ty(&body.local_decls, tcx).ty);
                self.comma();
                self.kv_num("target", target.as_usize());
                if let Some(u) = Self::unwind_target(unwind) {
                    self.comma();
                    self.kv_num("unwind", u);
                }
            }
            TerminatorKind::Call { func, args, destination, target, unwind, call_source, fn_span } => {
                self.kv_str("k", "call");
                self.comma();
                self.key("func");
                self.emit_callee(body, func, te);
                self.comma();
                self.key("args");
                self.s.push('[');
                for (i, a) in args.iter().enumerate() {
                    if i > 0 {
                        self.comma();
                    }
                    self.emit_operand(body, &a.node, te);
                }
                self.s.push(']');
                self.comma();
                self.key("dest");
                self.emit_place(body, *destination);
                if let Some(tg) = target {
                    self.comma();
                    self.kv_num("target", tg.as_usize());
                }
                if let Some(u) = Self::unwind_target(unwind) {
                    self.comma();
                    self.kv_num("unwind", u);
                }
                self.comma();
                self.kv_str("src", &format!("{:?}", call_source));
                self.comma();
                self.key("fsp");
                self.emit_span(*fn_span);
            }
            TerminatorKind::TailCall { func, args, .. } => {
                self.kv_str("k", "tailcall");
                self.comma();
                self.key("func");
                self.emit_callee(body, func, te);
                self.comma();
                self.key("args");
                self.s.push('[');
                for (i, a) in args.iter().enumerate() {
                    if i > 0 {
                        self.comma();
                    }
                    self.emit_operand(body, &a.node, te);
                }
                self.s.push(']');
            }
            TerminatorKind::Assert { cond, expected, msg, target, unwind } => {
                self.kv_str("k", "assert");
                self.comma();
                self.key("cond");
                self.emit_operand(body, cond, te);
                self.comma();
                self.kv_num("expected", *expected as u8);
                self.comma();
                let mk = match &**msg {
                    AssertKind::BoundsCheck { .. } => "bounds".to_string(),
                    AssertKind::Overflow(op, ..) => format!("overflow:{:?}", op),
                    AssertKind::OverflowNeg(_) => "overflow_neg".into(),
                    AssertKind::DivisionByZero(_) => "div0".into(),
                    AssertKind::RemainderByZero(_) => "rem0".into(),
                    AssertKind::ResumedAfterReturn(_) => "resumed_after_return".into(),
                    AssertKind::ResumedAfterPanic(_) => "resumed_after_panic".into(),
                    AssertKind::ResumedAfterDrop(_) => "resumed_after_drop".into(),
                    _ => "other".into(),
                };
                self.kv_str("msg", &mk);
                self.comma();
                self.kv_num("target", target.as_usize());
                if let Some(u) = Self::unwind_target(unwind) {
                    self.comma();
                    self.kv_num("unwind", u);
                }
            }
            TerminatorKind::Yield { value, resume, resume_arg, drop } => {
                self.kv_str("k", "yield");
                self.comma();
                self.key("value");
                self.emit_operand(body, value, te);
                self.comma();
                self.kv_num("target", resume.as_usize());
                self.comma();
                self.key("resume_arg");
                self.emit_place(body, *resume_arg);
                if let Some(d) = drop {
                    self.comma();
                    self.kv_num("drop", d.as_usize());
                }
            }
            TerminatorKind::CoroutineDrop => self.kv_str("k", "coroutine_drop"),
            TerminatorKind::FalseEdge { real_target, imaginary_target } => {
                self.kv_str("k", "goto");
                self.comma();
                self.kv_num("target", real_target.as_usize());
                self.comma();
                self.kv_num("imaginary", imaginary_target.as_usize());
            }
            TerminatorKind::FalseUnwind { real_target, .. } => {
                self.kv_str("k", "goto");
                self.comma();
                self.kv_num("target", real_target.as_usize());
                self.comma();
                self.kv_num("loophead", 1);
            }
            TerminatorKind::InlineAsm { .. } => self.kv_str("k", "asm"),
        }
        self.comma();
        self.key("sp");
        self.emit_span(t.source_info.span);
        self.s.push('}');
    }

    fn emit_callee(&mut self, body: &Body<'tcx>, func: &Operand<'tcx>, te: TypingEnv<'tcx>) {
        let tcx = self.tcx;
        let fty = func.ty(&body.local_decls, tcx);
        self.s.push('{');
        match *fty.kind() {
            ty::FnDef(d, args) => {
                self.kv_str("path", &self.path(d));
                self.comma();
                self.kv_str("krate", &tcx.crate_name(d.krate).to_string());
                self.comma();
                if d.is_local() {
                    self.kv_num("local", 1);
                    self.comma();
                }
                // trait the method belongs to (if a trait item or an impl of one)
                if let Some(tr) = tcx.trait_of_assoc(d) {
                    self.kv_str("trait", &self.path(tr));
                    self.comma();
                    self.kv_str("name", &tcx.item_name(d).to_string());
                    self.comma();
                }
                self.key("args");
                self.emit_generic_args(args);
                // resolved instance
                let kind_ok = matches!(tcx.def_kind(d), DefKind::Fn | DefKind::AssocFn);
                if kind_ok {
                    if let Ok(Some(inst)) = Instance::try_resolve(tcx, te, d, args) {
                        let rd = inst.def_id();
                        self.comma();
                        self.key("res");
                        self.s.push('{');
                        self.kv_str("path", &self.path(rd));
                        self.comma();
                        self.kv_str("krate", &tcx.crate_name(rd.krate).to_string());
                        if rd.is_local() {
                            self.comma();
                            self.kv_num("local", 1);
                        }
                        self.comma();
                        let ik = format!("{:?}", inst.def);
                        let ik = ik.split('(').next().unwrap_or("").to_string();
                        self.kv_str("ik", &ik);
                        self.s.push('}');
                    }
                }
            }
            _ => {
                self.kv_str("indirect", &self.ty_str(fty));
                self.comma();
                self.key("op");
                self.emit_operand(body, func, te);
            }
        }
        self.s.push('}');
    }

    // ---------------------------------------------------------------- tables
    fn emit_adts(&mut self) {
        let tcx = self.tcx;
        self.s.push('[');
        let mut first = true;
        for id in tcx.hir_crate_items(()).definitions() {
            let d = id.to_def_id();
            let k = tcx.def_kind(d);
            if !matches!(k, DefKind::Struct | DefKind::Enum | DefKind::Union) {
                continue;
            }
            let adt = tcx.adt_def(d);
            if !first {
                self.comma();
            }
            first = false;
            self.s.push('{');
            self.kv_str("path", &self.path(d));
            self.comma();
            self.kv_str("kind", &format!("{:?}", k));
            self.comma();
            self.kv_str("vis", if tcx.visibility(d).is_public() { "pub" } else { "restricted" });
            self.comma();
            self.key("variants");
            self.s.push('[');
            let discrs: Vec<(rustc_abi::VariantIdx, u128)> =
                if adt.is_enum() { adt.discriminants(tcx).map(|(i, d)| (i, d.val)).collect() } else { vec![] };
            for (i, (vi, v)) in adt.variants().iter_enumerated().enumerate() {
                if i > 0 {
                    self.comma();
                }
                self.s.push('{');
                self.kv_str("name", &v.name.to_string());
                if let Some((_, dv)) = discrs.iter().find(|(i, _)| *i == vi) {
                    self.comma();
                    self.kv_str("discr", &dv.to_string());
                }
                self.comma();
                self.key("fields");
                self.s.push('[');
                for (j, f) in v.fields.iter().enumerate() {
                    if j > 0 {
                        self.comma();
                    }
                    self.s.push('{');
                    self.kv_str("name", &f.name.to_string());
                    self.comma();
                    let fty = tcx.type_of(f.did).instantiate_identity().skip_norm_wip();
                    self.kv_str("ty", &self.ty_str(fty));
                    self.comma();
                    self.kv_str("vis", if f.vis.is_public() { "pub" } else { "restricted" });
                    self.s.push('}');
                }
                self.s.push(']');
                self.s.push('}');
            }
            self.s.push(']');
            self.s.push('}');
        }
        self.s.push(']');
    }

    fn emit_consts(&mut self) {
        let tcx = self.tcx;
        self.s.push('[');
        let mut first = true;
        for id in tcx.hir_crate_items(()).definitions() {
            let d = id.to_def_id();
            let k = tcx.def_kind(d);
            if !matches!(k, DefKind::Const { .. } | DefKind::AssocConst { .. } | DefKind::Static { .. }) {
                continue;
            }
            // skip trait-declared consts without value and generic contexts
            if tcx.generics_of(d).requires_monomorphization(tcx) {
                continue;
            }
            if let DefKind::AssocConst { .. } = k {
                if tcx.trait_of_assoc(d).is_some() && tcx.impl_of_assoc(d).is_none() {
                    continue;
                }
            }
            let ty = tcx.type_of(d).instantiate_identity().skip_norm_wip();
            let val = if matches!(k, DefKind::Static { .. }) {
                tcx.eval_static_initializer(d).ok().map(|a| {
                    let a = a.inner();
                    (None, Some(a.inspect_with_uninit_and_ptr_outside_interpreter(0..a.len().min(8192)).to_vec()))
                })
            } else {
                tcx.const_eval_poly(d).ok().map(|v| (Some(v), None))
            };
            if !first {
                self.comma();
            }
            first = false;
            self.s.push('{');
            self.kv_str("path", &self.path(d));
            self.comma();
            self.kv_str("kind", &format!("{:?}", k).split(' ').next().unwrap_or("").to_string());
            self.comma();
            self.kv_str("ty", &self.ty_str(ty));
            match val {
                Some((Some(v), _)) => self.emit_constval(v, ty),
                Some((None, Some(b))) => {
                    self.comma();
                    self.kv_str("k", "static");
                    self.comma();
                    self.key("bytes");
                    self.emit_bytes(&b);
                }
                _ => {
                    self.comma();
                    self.kv_str("k", "uneval");
                }
            }
            self.s.push('}');
        }
        self.s.push(']');
    }

    fn emit_impls(&mut self) {
        let tcx = self.tcx;
        self.s.push('[');
        let mut first = true;
        for id in tcx.hir_crate_items(()).definitions() {
            let d = id.to_def_id();
            if !matches!(tcx.def_kind(d), DefKind::Impl { .. }) {
                continue;
            }
            if !first {
                self.comma();
            }
            first = false;
            self.s.push('{');
            let st = tcx.type_of(d).instantiate_identity().skip_norm_wip();
            self.key("self");
            self.emit_ty(st);
            if let Some(tr) = tcx.impl_opt_trait_ref(d) {
                let tr = tr.instantiate_identity().skip_norm_wip();
                self.comma();
                self.kv_str("trait", &self.path(tr.def_id));
                self.comma();
                self.kv_str("trait_ref", &format!("{}", tr));
            }
            self.comma();
            self.key("items");
            let items: Vec<String> =
                tcx.associated_item_def_ids(d).iter().map(|i| self.path(*i)).collect();
            self.str_list(&items);
            self.comma();
            self.key("span");
            self.emit_span(tcx.def_span(d));
            self.s.push('}');
        }
        self.s.push(']');
    }

    /// signatures of all local fns (including those without a MIR body of interest)
    fn emit_fns(&mut self) {
        let tcx = self.tcx;
        self.s.push('[');
        let mut first = true;
        for id in tcx.hir_crate_items(()).definitions() {
            let d = id.to_def_id();
            if !matches!(tcx.def_kind(d), DefKind::Fn | DefKind::AssocFn) {
                continue;
            }
            if !first {
                self.comma();
            }
            first = false;
            self.s.push('{');
            self.kv_str("path", &self.path(d));
            self.comma();
            self.kv_str("vis", if tcx.visibility(d).is_public() { "pub" } else { "restricted" });
            self.comma();
            let sig = tcx.fn_sig(d).instantiate_identity().skip_norm_wip();
            self.kv_str("sig", &format!("{}", sig));
            self.comma();
            self.kv_num("asyncness", tcx.asyncness(d).is_async() as u8);
            self.comma();
            self.key("generics");
            {
                // names of the non-lifetime generic parameters in substitution order (parents first)
                let mut names: Vec<String> = Vec::new();
                let mut stack = vec![tcx.generics_of(d)];
                while let Some(p) = stack.last().and_then(|g| g.parent) {
                    stack.push(tcx.generics_of(p));
                }
                for g in stack.iter().rev() {
                    for p in &g.own_params {
                        if !matches!(p.kind, ty::GenericParamDefKind::Lifetime) {
                            names.push(p.name.to_string());
                        }
                    }
                }
                self.str_list(&names);
            }
            self.s.push('}');
        }
        self.s.push(']');
    }
}

fn main() {
    let mut args: Vec<String> = std::env::args().collect();
    // RUSTC_WORKSPACE_WRAPPER passes the real rustc path as argv[1]
    if args.len() > 1 && (args[1].ends_with("rustc") || args[1].contains("/rustc")) {
        args.remove(1);
    }
    let is_target = args.iter().any(|a| a == "--crate-name")
        && std::env::var("FCGI_FACTS_OUT").is_ok()
        && {
            let want = std::env::var("FCGI_FACTS_CRATE").unwrap_or_else(|_| "fastcgi_server".into());
            args.windows(2).any(|w| w[0] == "--crate-name" && w[1] == want)
        };
    let mut cb = Cb { active: is_target };
    rustc_driver::run_compiler(&args, &mut cb);
}
