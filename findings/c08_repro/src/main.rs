//! Triage-only reproduction for C08: deterministic executor that polls the connection task only
//! when its waker fired, plus a closed-loop peer that withholds further records until it has
//! seen the reply it is owed.
use std::collections::VecDeque;
use std::future::Future;
use std::io;
use std::pin::Pin;
use std::sync::atomic::{AtomicBool, Ordering};
use std::sync::{Arc, Mutex};
use std::task::{Context, Poll, Wake, Waker};

use fastcgi_server::protocol as fcgi;
use fastcgi_server::{Config, ExitStatus};
use futures_util::io::{AsyncRead, AsyncReadExt, AsyncWrite};

#[derive(Default)]
struct Wire { inq: VecDeque<Vec<u8>>, eof: bool, rwaker: Option<Waker>, out: Vec<u8> }
#[derive(Clone)]
struct Rd(Arc<Mutex<Wire>>);
#[derive(Clone)]
struct Wr(Arc<Mutex<Wire>>);
impl AsyncRead for Rd {
    fn poll_read(self: Pin<&mut Self>, cx: &mut Context, buf: &mut [u8]) -> Poll<io::Result<usize>> {
        let mut w = self.0.lock().unwrap();
        if let Some(mut chunk) = w.inq.pop_front() {
            let n = chunk.len().min(buf.len());
            buf[..n].copy_from_slice(&chunk[..n]);
            if n < chunk.len() { let rest = chunk.split_off(n); w.inq.push_front(rest); }
            return Poll::Ready(Ok(n));
        }
        if w.eof { return Poll::Ready(Ok(0)); }
        w.rwaker = Some(cx.waker().clone());
        Poll::Pending
    }
}
impl AsyncWrite for Wr {
    fn poll_write(self: Pin<&mut Self>, _: &mut Context, buf: &[u8]) -> Poll<io::Result<usize>> {
        self.0.lock().unwrap().out.extend_from_slice(buf); Poll::Ready(Ok(buf.len()))
    }
    fn poll_flush(self: Pin<&mut Self>, _: &mut Context) -> Poll<io::Result<()>> { Poll::Ready(Ok(())) }
    fn poll_close(self: Pin<&mut Self>, _: &mut Context) -> Poll<io::Result<()>> { Poll::Ready(Ok(())) }
}

struct Flag(AtomicBool);
impl Wake for Flag { fn wake(self: Arc<Self>) { self.0.store(true, Ordering::SeqCst) } }

enum Step { Send(Vec<u8>), AwaitRecord(u8 /*rtype*/), Close }

fn rec(rtype: u8, id: u16, body: &[u8]) -> Vec<u8> {
    let mut v = vec![1, rtype, (id >> 8) as u8, id as u8, (body.len() >> 8) as u8, body.len() as u8, 0, 0];
    v.extend_from_slice(body); v
}
fn count_records(out: &[u8], rtype: u8) -> usize {
    let (mut i, mut n) = (0, 0);
    while i + 8 <= out.len() {
        let len = u16::from_be_bytes([out[i + 4], out[i + 5]]) as usize + out[i + 6] as usize;
        if out[i + 1] == rtype { n += 1; }
        i += 8 + len;
    }
    n
}

fn scenario(name: &str, script: Vec<Step>, read_stdin: bool) {
    let wire = Arc::new(Mutex::new(Wire::default()));
    let config = Config::with_conns(1.try_into().unwrap());
    let runner = config.async_runner();
    let flag = Arc::new(Flag(AtomicBool::new(true)));
    let waker: Waker = flag.clone().into();
    let mut cx = Context::from_waker(&waker);

    let (rd, wr) = (Rd(wire.clone()), Wr(wire.clone()));
    let handled = Arc::new(Mutex::new(0usize));
    let h2 = handled.clone();
    let mut task: Pin<Box<dyn Future<Output = ()>>> = Box::pin(async move {
        let token = runner.get_token().await;
        token.run(rd, wr, move |req| {
            let h3 = h2.clone();
            Box::pin(async move {
                *h3.lock().unwrap() += 1;
                if read_stdin { let mut sink = Vec::new(); req.read_to_end(&mut sink).await?; }
                Ok(ExitStatus::SUCCESS)
            })
        }).await;
    });

    let mut script: VecDeque<Step> = script.into();
    let mut seen = [0usize; 12];
    let mut done = false;
    for _round in 0..10_000 {
        if !done && flag.0.swap(false, Ordering::SeqCst) {
            if task.as_mut().poll(&mut cx).is_ready() { done = true; }
            continue;
        }
        // server idle (or finished): the peer moves
        match script.front() {
            None => { println!("[{name}] OK: script complete, task_done={done}, handler calls={}", handled.lock().unwrap()); return; }
            Some(Step::Send(_)) => {
                if let Some(Step::Send(b)) = script.pop_front() {
                    let mut w = wire.lock().unwrap(); w.inq.push_back(b);
                    if let Some(wk) = w.rwaker.take() { wk.wake(); }
                }
            }
            Some(Step::Close) => { script.pop_front(); let mut w = wire.lock().unwrap(); w.eof = true; if let Some(wk) = w.rwaker.take() { wk.wake(); } }
            Some(Step::AwaitRecord(t)) => {
                let t = *t as usize;
                let have = count_records(&wire.lock().unwrap().out, t as u8);
                if have > seen[t] { seen[t] += 1; script.pop_front(); }
                else {
                    println!("[{name}] DEADLOCK: no runnable task (task_done={done}), peer waits for a record of type {t}; \
                              server has written {} bytes; handler calls={}", wire.lock().unwrap().out.len(), handled.lock().unwrap());
                    return;
                }
            }
        }
    }
    println!("[{name}] step bound hit");
}

fn main() {
    let begin = |id, keep: u8| rec(1, id, &[0, 1, keep, 0, 0, 0, 0, 0]);
    let params_end = |id| rec(4, id, &[]);
    let stdin = |id, b: &[u8]| rec(5, id, b);
    let getvals = rec(9, 0, &[14, 0, b'F', b'C', b'G', b'I', b'_', b'M', b'A', b'X', b'_', b'C', b'O', b'N', b'N', b'S']);
    let _ = fcgi::RecordType::GetValues;

    // S0 (control): query sent on its own while idle between requests -> answered.
    scenario("S0 control: GetValues alone before first request", vec![
        Step::Send(getvals.clone()), Step::AwaitRecord(10),
        Step::Send([begin(1, 0), params_end(1), stdin(1, b"")].concat()), Step::AwaitRecord(3), Step::Close,
    ], true);

    // S1: the query rides in the same transport read as the tail of request 1 (KeepConn).
    scenario("S1 GetValues in same read as end of request 1", vec![
        Step::Send([begin(1, 1), params_end(1), stdin(1, b""), getvals.clone()].concat()),
        Step::AwaitRecord(3), Step::AwaitRecord(10),
        Step::Send([begin(2, 0), params_end(2), stdin(2, b"")].concat()), Step::AwaitRecord(3), Step::Close,
    ], false);

    // S2: query arrives mid-stdin while the handler is blocked reading.
    scenario("S2 GetValues mid-stream, handler blocked in read", vec![
        Step::Send([begin(1, 0), params_end(1), stdin(1, b"abc")].concat()),
        Step::Send(getvals.clone()), Step::AwaitRecord(10),
        Step::Send(stdin(1, b"")), Step::AwaitRecord(3), Step::Close,
    ], true);

    // S3: a whole second request is already buffered at hand-off (same read as request 1's tail).
    scenario("S3 request 2 buffered at hand-off", vec![
        Step::Send([begin(1, 1), params_end(1), stdin(1, b""), begin(2, 0), params_end(2), stdin(2, b"")].concat()),
        Step::AwaitRecord(3), Step::AwaitRecord(3), Step::Close,
    ], false);
}
