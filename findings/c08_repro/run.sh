#!/bin/sh
# Usage: ./run.sh [path-to-fastcgi-server-tree]   (default /repo). Builds in a temp dir, removes it.
set -e
REPO=${1:-/repo}
HERE=$(cd "$(dirname "$0")" && pwd)
W=$(mktemp -d)
trap 'rm -rf "$W"' EXIT
cp -r "$HERE/src" "$HERE/Cargo.toml" "$W/"
cp "$REPO/Cargo.lock" "$W/"
sed -i "s#path = \"/repo\"#path = \"$REPO\"#" "$W/Cargo.toml"
cd "$W" && CARGO_NET_OFFLINE=true CARGO_TARGET_DIR="$W/target" cargo run --offline -q 2>/dev/null | grep '^\['
