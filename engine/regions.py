"""E8 — cursor geometry: a path-sensitive abstract interpretation of the buffer-bookkeeping functions in the
domain of linear forms over the cursor fields at function entry.

The stream parser keeps one byte buffer partitioned by four cursors
    0 <= parsed_start <= gap_start <= raw_start <= free_start <= buffer.len()
(the chain is the repository's own `debug_assert_invars!`).  The functions that move the cursors are short and
loop-free; every value they compute is a linear form over the entry cursors, the buffer length and opaque
non-negative quantities (arguments, results of `min`).  This module interprets a function's MIR along each of
its paths, carrying
  * the heap (field -> linear form), flow-sensitively (fields are versioned by the order of writes on the path),
  * the path condition as a set of linear inequalities (integer comparisons the path took),
  * the current location of each live byte region (what `copy_within` moved where),
and asks whether a linear inequality follows from the entry invariant and the path condition.  The entailment
test is Fourier-Motzkin elimination over the rationals written out below (a sound refutation procedure for the
integer case: the query is entailed when its negation is rationally infeasible).  No external solver, nothing is
executed; an inequality that cannot be derived is reported, never assumed.

What the rules built on this decide is stated in rules/c03.py (R3.10-R3.12).
"""
from fractions import Fraction
import itertools

import facts as F
import ir


class Lin:
    """c0 + sum coef[s] * s"""
    __slots__ = ("c", "t")

    def __init__(self, c=0, t=None):
        self.c = Fraction(c)
        self.t = {k: Fraction(v) for k, v in (t or {}).items() if v != 0}

    @staticmethod
    def sym(s):
        return Lin(0, {s: 1})

    def __add__(self, o):
        o = _lin(o)
        t = dict(self.t)
        for k, v in o.t.items():
            t[k] = t.get(k, 0) + v
        return Lin(self.c + o.c, t)

    def __neg__(self):
        return Lin(-self.c, {k: -v for k, v in self.t.items()})

    def __sub__(self, o):
        return self + (-_lin(o))

    def scale(self, k):
        return Lin(self.c * k, {s: v * k for s, v in self.t.items()})

    def is_const(self):
        return not self.t

    def key(self):
        return (self.c, tuple(sorted(self.t.items())))

    def __repr__(self):
        parts = []
        for s, v in sorted(self.t.items()):
            if v == 1:
                parts.append("+%s" % s)
            elif v == -1:
                parts.append("-%s" % s)
            else:
                parts.append("%+g*%s" % (float(v), s))
        if self.c != 0 or not parts:
            parts.append("%+g" % float(self.c))
        r = "".join(parts)
        return r[1:] if r.startswith("+") else r


def _lin(x):
    return x if isinstance(x, Lin) else Lin(x)


def fm_infeasible(cons, limit=4000):
    """Is the system {c >= 0 for c in cons} infeasible over the rationals?  Fourier-Motzkin elimination."""
    rows = []
    for c in cons:
        if c.is_const():
            if c.c < 0:
                return True
            continue
        rows.append(c)
    while True:
        syms = set()
        for r in rows:
            syms.update(r.t)
        if not syms:
            return any(r.c < 0 for r in rows)
        # eliminate the symbol producing the fewest combinations
        best = None
        for s in syms:
            p = sum(1 for r in rows if r.t.get(s, 0) > 0)
            n = sum(1 for r in rows if r.t.get(s, 0) < 0)
            cost = p * n - p - n
            if best is None or cost < best[0]:
                best = (cost, s)
        s = best[1]
        pos = [r for r in rows if r.t.get(s, 0) > 0]
        neg = [r for r in rows if r.t.get(s, 0) < 0]
        rest = [r for r in rows if r.t.get(s, 0) == 0]
        new = []
        seen = set()
        for a in pos:
            for b in neg:
                # a: +ca*s + A >= 0 ; b: -cb*s + B >= 0  =>  cb*A + ca*B >= 0
                ca, cb = a.t[s], -b.t[s]
                c = a.scale(cb) + b.scale(ca)
                c.t.pop(s, None)
                if c.is_const():
                    if c.c < 0:
                        return True
                    continue
                k = c.key()
                if k not in seen:
                    seen.add(k)
                    new.append(c)
        rows = rest + new
        if len(rows) > limit:
            return False    # give up: not proven infeasible


class Ctx:
    """Entry invariant + path condition."""

    def __init__(self, base=None):
        self.cons = list(base or [])
        self.nonneg = set()

    def copy(self):
        c = Ctx(self.cons)
        c.nonneg = set(self.nonneg)
        return c

    def _all(self):
        return self.cons + [Lin.sym(s) for s in self.nonneg]

    def add(self, c):
        self.cons.append(c)

    def feasible(self):
        return not fm_infeasible(self._all())

    def ge0(self, q):
        """Is q >= 0 entailed?  (integers: refute q <= -1)"""
        return fm_infeasible(self._all() + [(-q) - 1])

    def eq(self, a, b):
        d = _lin(a) - _lin(b)
        if d.is_const():
            return d.c == 0
        return self.ge0(d) and self.ge0(-d)

    def le(self, a, b):
        return self.ge0(_lin(b) - _lin(a))


UINT = ("usize", "u8", "u16", "u32", "u64", "u128")
ASSERT_MACROS = ("debug_assert", "debug_assert_eq", "debug_assert_ne", "debug_assert_invars", "debug_assert_matches")


def in_debug_assert(sp):
    return any(m.split("::")[-1] in ASSERT_MACROS for m in (sp or {}).get("m", []))


class Obligation:
    def __init__(self, kind, text, loc, ok, path):
        self.kind, self.text, self.loc, self.ok, self.path = kind, text, loc, ok, path


class PathEnd:
    def __init__(self, ctx, heap, regions, ret, trace, events, args):
        self.ctx, self.heap, self.regions, self.ret, self.trace, self.events, self.args = ctx, heap, regions, ret, trace, events, args


class Interp:
    """Interprets `body` (a method taking `self` by reference) from an entry state in which every cursor field
    holds its own symbol and the chain invariant holds."""

    def __init__(self, facts, cursors, len_of=None, inline=(), max_paths=4000, track=None, self_ty=None):
        self.facts = facts
        self.cursors = list(cursors)            # field names, in chain order
        self.len_of = len_of                    # field whose len() bounds the chain
        self.inline = set(inline)
        self.max_paths = max_paths
        self.fresh = itertools.count()
        self.obligations = []
        self.ends = []
        self.npaths = 0
        self.track = track or {}                # region name -> (start field, end field)
        self.self_ty = self_ty
        self.init_regions = None

    # -- entry state ------------------------------------------------------------------------------
    def entry(self):
        ctx = Ctx()
        prev = Lin(0)
        for f in self.cursors:
            ctx.nonneg.add(f)
            ctx.add(Lin.sym(f) - prev)
            prev = Lin.sym(f)
        if self.len_of:
            ctx.nonneg.add("len(%s)" % self.len_of)
            ctx.add(Lin.sym("len(%s)" % self.len_of) - prev)
        heap = {f: Lin.sym(f) for f in self.cursors}
        regions = {name: (Lin.sym(a), Lin.sym(b)) for name, (a, b) in self.track.items()}
        return ctx, heap, regions

    def new_sym(self, hint, ctx, nonneg=True):
        s = "%s#%d" % (hint, next(self.fresh))
        if nonneg:
            ctx.nonneg.add(s)
        return Lin.sym(s)

    # -- values --------------------------------------------------------------------------------------
    # Lin | ('self',) | ('fieldref', name) | ('cmp', op, Lin, Lin) | ('bool', 0/1) | ('range', lo, hi|None) |
    # ('pair', Lin, ('bool', ..)) | ('tuple', [...]) | ('opaque', id)
    def opaque(self):
        return ('opaque', next(self.fresh))

    def load_place(self, st, p):
        body, env, heap, ctx = st["body"], st["env"], st["heap"], st["ctx"]
        v = env.get(p["l"])
        if v is None:
            v = self.opaque()
        proj = p.get("p", [])
        i = 0
        while i < len(proj):
            el = proj[i]
            if "deref" in el:
                i += 1
                continue
            if "variant" in el:
                i += 1
                continue            # (x as Some): the payload is projected by the following field element
            if "f" in el:
                name = el.get("n", el["f"])
                if isinstance(v, tuple) and v[0] == 'some' and el["f"] == 0:
                    v = v[1]
                    i += 1
                    continue
                if v == ('self',):
                    if name not in heap:
                        ty = el.get("ty", "")
                        heap[name] = self.new_sym(str(name), ctx) if ty in UINT else ('fieldref', name)
                    v = heap[name]
                elif isinstance(v, tuple) and v[0] == 'pair':
                    v = v[1] if el["f"] == 0 else v[2]
                elif isinstance(v, tuple) and v[0] == 'tuple' and isinstance(el["f"], int) and el["f"] < len(v[1]):
                    v = v[1][el["f"]]
                elif isinstance(v, tuple) and v[0] == 'range':
                    v = v[1] if name in ("start", 0) else v[2]
                else:
                    v = self.opaque()
            else:
                v = self.opaque()
            i += 1
        return v

    def operand(self, st, o):
        if "copy" in o or "move" in o:
            return self.load_place(st, o.get("copy") or o.get("move"))
        if "const" in o:
            c = ir.const_expr(o["const"])
            v = ir.const_value(c)
            ty = o["const"].get("ty", "")
            if isinstance(v, int):
                if ty == "bool":
                    return ('bool', v)
                return Lin(v)
        return self.opaque()

    def rvalue(self, st, r, ty):
        k = r["k"]
        ctx = st["ctx"]
        if k == "use":
            return self.operand(st, r["op"])
        if k in ("ref", "rawptr"):
            p = r["place"]
            proj = [e for e in p.get("p", []) if "deref" not in e]
            base = st["env"].get(p["l"])
            if base == ('self',) and not proj:
                return ('self',)
            if base == ('self',) and len(proj) == 1 and "f" in proj[0]:
                return ('fieldref', proj[0].get("n", proj[0]["f"]))
            v = self.load_place(st, p)
            return v if isinstance(v, tuple) and v[0] in ('fieldref', 'self') else self.opaque()
        if k == "cast":
            v = self.operand(st, r["op"])
            return v if isinstance(v, Lin) and r.get("ty") in UINT else (v if isinstance(v, Lin) else self.opaque())
        if k == "bin":
            a, b = self.operand(st, r["a"]), self.operand(st, r["b"])
            op = r["op"]
            if isinstance(a, Lin) and isinstance(b, Lin):
                base = op[:-len("WithOverflow")] if op.endswith("WithOverflow") else op
                res = None
                if base == "Add":
                    res = a + b
                elif base == "Sub":
                    res = a - b
                    ok = ctx.ge0(res)
                    self.obligations.append(Obligation("sub", "%s - %s cannot underflow" % (a, b), st["body"].loc(r.get("sp") or st["sp"]), ok, list(st["trace"])))
                elif base == "Mul" and (a.is_const() or b.is_const()):
                    res = b.scale(a.c) if a.is_const() else a.scale(b.c)
                elif base in ("Lt", "Le", "Gt", "Ge", "Eq", "Ne"):
                    return ('cmp', base, a, b)
                if res is not None:
                    return ('pair', res, ('bool', 0)) if op.endswith("WithOverflow") else res
            if ty in UINT:
                return self.new_sym("v", ctx)
            return self.opaque()
        if k == "agg":
            ops = [self.operand(st, o) for o in r["ops"]]
            if r["ak"] == "adt":
                adt = F.norm(r["adt"])
                if adt.endswith("ops::Range") and len(ops) == 2:
                    return ('range', ops[0], ops[1])
                if adt.endswith("ops::RangeFrom") and len(ops) == 1:
                    return ('range', ops[0], None)
                if adt.endswith("ops::RangeTo") and len(ops) == 1:
                    return ('range', Lin(0), ops[0])
                return self.opaque()
            if r["ak"] == "tuple":
                return ('tuple', ops)
            return self.opaque()
        if k == "discr":
            v = self.load_place(st, r["place"])
            if isinstance(v, tuple) and v[0] == 'some':
                return Lin(1)
            if v == ('none',):
                return Lin(0)
            return self.opaque()
        if k == "un" and r["op"] == "Not":
            v = self.operand(st, r["a"])
            if isinstance(v, tuple) and v[0] == 'cmp':
                neg = {"Lt": "Ge", "Le": "Gt", "Gt": "Le", "Ge": "Lt", "Eq": "Ne", "Ne": "Eq"}
                return ('cmp', neg[v[1]], v[2], v[3])
            if isinstance(v, tuple) and v[0] == 'bool':
                return ('bool', 1 - v[1])
        if ty in UINT:
            return self.new_sym("v", ctx)
        return self.opaque()

    def store(self, st, p, v):
        proj = [e for e in p.get("p", []) if "deref" not in e]
        if not proj:
            st["env"][p["l"]] = v
            return
        base = st["env"].get(p["l"])
        if base == ('self',) and len(proj) == 1 and "f" in proj[0]:
            st["heap"][proj[0].get("n", proj[0]["f"])] = v
            return
        # a write through something we do not model: forget nothing about cursors (they are only reachable via self)

    # -- constraints from a comparison taken / not taken -------------------------------------------
    @staticmethod
    def cmp_constraints(op, a, b, taken):
        """list of alternative constraint-lists (a disjunction of conjunctions)"""
        if not taken:
            op = {"Lt": "Ge", "Le": "Gt", "Gt": "Le", "Ge": "Lt", "Eq": "Ne", "Ne": "Eq"}[op]
        if op == "Lt":
            return [[b - a - 1]]
        if op == "Le":
            return [[b - a]]
        if op == "Gt":
            return [[a - b - 1]]
        if op == "Ge":
            return [[a - b]]
        if op == "Eq":
            return [[a - b, b - a]]
        return [[a - b - 1], [b - a - 1]]

    # -- exploration ----------------------------------------------------------------------------------
    def run(self, body):
        ctx, heap, regions = self.entry()
        env = {1: ('self',)}
        for i in range(2, body.argc + 1):
            ty = body.locals[i]["ty"].get("s", "") if isinstance(body.locals[i]["ty"], dict) else body.locals[i]["ty"]
            env[i] = self.new_sym(body.varnames.get(i, "arg%d" % i), ctx) if ty in UINT else self.opaque()
        self.args = [env[i] for i in range(2, body.argc + 1)]
        if self.init_regions is not None:
            regions = self.init_regions(ctx, heap, env)
        st = {"body": body, "env": env, "heap": heap, "ctx": ctx, "regions": regions, "trace": [], "events": [], "sp": body.span,
              "stack": []}
        self._walk(st, 0, {})
        return self.ends

    def _clone(self, st):
        return {"body": st["body"], "env": dict(st["env"]), "heap": dict(st["heap"]), "ctx": st["ctx"].copy(),
                "regions": dict(st["regions"]), "trace": list(st["trace"]), "events": list(st["events"]), "sp": st["sp"],
                "stack": [dict(fr, env=dict(fr["env"])) for fr in st["stack"]]}

    def _ty(self, body, l):
        t = body.locals[l]["ty"]
        return t.get("s", "") if isinstance(t, dict) else t

    def _panics(self, body, bb, depth=0):
        """Does block bb unconditionally end in a panic (call without target / unreachable)?"""
        if depth > 4:
            return False
        t = body.blocks[bb]["t"]
        if t["k"] == "call":
            return "target" not in t
        if t["k"] in ("unreachable",):
            return True
        if t["k"] == "goto":
            return self._panics(body, t["target"], depth + 1)
        return False

    def _walk(self, st, bb, visits):
        body = st["body"]
        while True:
            self.npaths += 0
            key = (id(body), bb)
            visits = dict(visits)
            visits[key] = visits.get(key, 0) + 1
            if visits[key] > 1:
                # a loop: not handled by this interpreter
                self.obligations.append(Obligation("loop", "loop in %s" % body.npath, body.loc(), False, list(st["trace"])))
                return
            blk = body.blocks[bb]
            for s in blk["st"]:
                if s["k"] != "assign":
                    continue
                if in_debug_assert(s.get("sp")):
                    # values computed for a debug assertion are only read by it
                    p = s["place"]
                    if "p" not in p:
                        v = self.rvalue_quiet(st, s)
                        st["env"][p["l"]] = v
                    continue
                st["sp"] = s.get("sp") or st["sp"]
                p = s["place"]
                ty = self._ty(body, p["l"]) if "p" not in p else (p["p"][-1].get("ty", "") if p.get("p") else "")
                v = self.rvalue(st, s["rv"], ty)
                self.store(st, p, v)
            t = blk["t"]
            k = t["k"]
            st["sp"] = t.get("sp") or st["sp"]
            if k == "goto":
                bb = t["target"]
                continue
            if k == "drop":
                bb = t["target"]
                continue
            if k == "assert":
                # overflow / bounds checks inserted by the compiler: the obligation was recorded at the operation
                bb = t["target"]
                continue
            if k == "return":
                if st["stack"]:
                    fr = st["stack"].pop()
                    ret = st["env"].get(0)
                    st["body"], st["env"] = fr["body"], fr["env"]
                    body = st["body"]
                    self.store(st, fr["dest"], ret if ret is not None else self.opaque())
                    bb = fr["target"]
                    visits = fr["visits"]
                    continue
                self.npaths += 1
                if self.npaths > self.max_paths:
                    raise RuntimeError("path explosion in %s" % body.npath)
                self.ends.append(PathEnd(st["ctx"], st["heap"], st["regions"], st["env"].get(0), st["trace"], st["events"], self.args))
                return
            if k == "switch":
                d = self.operand(st, t["discr"])
                targets = [(int(v), tgt) for v, tgt in t["targets"]]
                if in_debug_assert(t.get("sp")):
                    # follow the edge on which the assertion holds; its condition is NOT assumed
                    if isinstance(d, tuple) and d[0] == 'bool':
                        nxt = dict(targets).get(d[1], t["otherwise"])
                    else:
                        outs = [tgt for _, tgt in targets] + [t["otherwise"]]
                        good = [x for x in outs if not self._panics(body, x)]
                        nxt = good[0] if good else outs[0]
                    bb = nxt
                    continue
                if isinstance(d, tuple) and d[0] == 'bool':
                    bb = dict(targets).get(d[1], t["otherwise"])
                    continue
                if isinstance(d, Lin) and d.is_const():
                    bb = dict(targets).get(int(d.c), t["otherwise"])
                    continue
                if isinstance(d, tuple) and d[0] == 'cmp' and t.get("dty") == "bool":
                    for val, tgt in targets + [(None, t["otherwise"])]:
                        taken = (val != 0) if val is not None else True
                        for alt in self.cmp_constraints(d[1], d[2], d[3], taken):
                            s2 = self._clone(st)
                            for c in alt:
                                s2["ctx"].add(c)
                            if not s2["ctx"].feasible():
                                continue
                            s2["trace"].append("%s:%d %s%s %s %s" % (t["sp"]["f"].split("/")[-1], t["sp"]["l"], "" if taken else "not ", d[2], d[1], d[3]))
                            self._walk(s2, tgt, visits)
                    return
                if isinstance(d, Lin):
                    # switch on an integer value
                    others = []
                    for val, tgt in targets:
                        s2 = self._clone(st)
                        s2["ctx"].add(d - val)
                        s2["ctx"].add(Lin(val) - d)
                        if s2["ctx"].feasible():
                            s2["trace"].append("%s:%d %s == %d" % (t["sp"]["f"].split("/")[-1], t["sp"]["l"], d, val))
                            self._walk(s2, tgt, visits)
                        others.append(val)
                    # otherwise: exclude the listed values when they form a prefix 0..n
                    s2 = self._clone(st)
                    if sorted(others) == list(range(len(others))):
                        s2["ctx"].add(d - len(others))
                    if s2["ctx"].feasible():
                        s2["trace"].append("%s:%d %s not in %s" % (t["sp"]["f"].split("/")[-1], t["sp"]["l"], d, others))
                        self._walk(s2, t["otherwise"], visits)
                    return
                for tgt in list(dict.fromkeys([tgt for _, tgt in targets] + [t["otherwise"]])):
                    s2 = self._clone(st)
                    self._walk(s2, tgt, visits)
                return
            if k == "call":
                name = None
                f = t["func"]
                if f.get("res"):
                    name = F.norm(f["res"]["path"])
                elif "path" in f:
                    name = F.norm(f["path"])
                if "target" not in t:
                    return      # diverges (panic): preconditions / unreachable
                if in_debug_assert(t.get("sp") or t.get("fsp")) or (t.get("sp") or {}).get("n"):
                    self.store(st, t["dest"], self.opaque() if self._ty(body, t["dest"]["l"]) not in UINT else self.new_sym("a", st["ctx"]))
                    bb = t["target"]
                    continue
                args = [self.operand(st, a) for a in t["args"]]
                dty = self._ty(body, t["dest"]["l"]) if "p" not in t["dest"] else ""
                done = self.call(st, t, name, args, dty, visits)
                if done == 'forked':
                    return
                if done == 'inlined':
                    body = st["body"]
                    bb = 0
                    visits = {}
                    continue
                bb = t["target"]
                continue
            # unreachable / resume / others
            return

    def rvalue_quiet(self, st, s):
        n = len(self.obligations)
        p = s["place"]
        v = self.rvalue(st, s["rv"], self._ty(st["body"], p["l"]))
        del self.obligations[n:]
        return v

    def call(self, st, t, name, args, dty, visits):
        ctx = st["ctx"]
        body = st["body"]
        loc = body.loc(t.get("sp"))
        short = (name or "").split("::")[-1]
        if name and name.endswith("copy_within") and len(args) == 3:
            rng, dest = args[1], args[2]
            if args[0] == ('fieldref', self.len_of) and isinstance(rng, tuple) and rng[0] == 'range' and isinstance(dest, Lin) \
                    and isinstance(rng[1], Lin) and isinstance(rng[2], Lin):
                self.copy_within(st, rng[1], rng[2], dest, loc)
            else:
                self.obligations.append(Obligation("copy", "copy_within with operands that are not cursor forms", loc, False, list(st["trace"])))
            self.store(st, t["dest"], self.opaque())
            return None
        if short in ("min", "max") and len(args) == 2 and all(isinstance(a, Lin) for a in args) and (name.startswith("std::cmp::") or name.startswith("core::cmp::")):
            a, b = args
            # fork: which operand is returned
            for (res, cond) in (((a, b - a) if short == "min" else (a, a - b)), ((b, a - b) if short == "min" else (b, b - a))):
                s2 = self._clone(st)
                s2["ctx"].add(cond)
                if not s2["ctx"].feasible():
                    continue
                s2["trace"].append("%s %s(%s, %s) = %s" % (loc.split("/")[-1], short, a, b, res))
                self.store(s2, t["dest"], res)
                self._walk(s2, t["target"], visits)
            return 'forked'
        if short in ("checked_sub", "checked_add") and len(args) == 2 and all(isinstance(a, Lin) for a in args):
            a, b = args
            alts = ((('some', a - b), a - b), (('none',), b - a - 1)) if short == "checked_sub" else ((('some', a + b), Lin(0)),)
            for (res, cond) in alts:
                s2 = self._clone(st)
                s2["ctx"].add(cond)
                if not s2["ctx"].feasible():
                    continue
                s2["trace"].append("%s %s(%s, %s) is %s" % (loc.split("/")[-1], short, a, b, "Some" if res[0] == 'some' else "None"))
                self.store(s2, t["dest"], res)
                self._walk(s2, t["target"], visits)
            return 'forked'
        if short in ("expect", "unwrap") and args and isinstance(args[0], tuple) and args[0][0] in ('some', 'none'):
            if args[0][0] == 'none':
                return 'forked'     # diverges
            self.store(st, t["dest"], args[0][1])
            return None
        if short == "len" and len(args) == 1 and isinstance(args[0], tuple) and args[0][0] == 'fieldref':
            s = "len(%s)" % args[0][1]
            ctx.nonneg.add(s)
            self.store(st, t["dest"], Lin.sym(s))
            return None
        if name and (name.endswith("Index>::index") or name.endswith("IndexMut>::index_mut") or name.endswith("::index") or name.endswith("::index_mut")) \
                and len(args) == 2 and args[0] == ('fieldref', self.len_of) and isinstance(args[1], tuple) and args[1][0] == 'range':
            lo, hi = args[1][1], args[1][2]
            L = Lin.sym("len(%s)" % self.len_of)
            if isinstance(lo, Lin) and (hi is None or isinstance(hi, Lin)):
                ok = ctx.ge0(lo) and (ctx.le(lo, hi) and ctx.le(hi, L) if hi is not None else ctx.le(lo, L))
                self.obligations.append(Obligation("slice", "%s[%s..%s] is in bounds" % (self.len_of, lo, hi if hi is not None else ""), loc, ok, list(st["trace"])))
                st["events"].append(("slice", lo, hi if hi is not None else L, loc))
            else:
                self.obligations.append(Obligation("slice", "slice of %s with bounds that are not cursor forms" % self.len_of, loc, False, list(st["trace"])))
            self.store(st, t["dest"], ('sliceof', lo, hi))
            return None
        if name in self.inline and args and args[0] == ('self',):
            cb = self.facts.body(name, required=False)
            if cb is not None:
                env = {1: ('self',)}
                for i in range(2, cb.argc + 1):
                    env[i] = args[i - 1] if i - 1 < len(args) else self.opaque()
                st["stack"].append({"body": st["body"], "env": st["env"], "dest": t["dest"], "target": t["target"], "visits": visits})
                st["body"], st["env"] = cb, env
                return 'inlined'
        # unknown callee: must not receive `self` mutably (it could move the cursors)
        if any(a == ('self',) for a in args):
            self.obligations.append(Obligation("escape", "self is passed to %s, which this analysis does not look into" % name, loc, False, list(st["trace"])))
        self.store(st, t["dest"], self.new_sym(short or "r", ctx) if dty in UINT else self.opaque())
        return None

    # -- region tracking -------------------------------------------------------------------------------
    def copy_within(self, st, s, e, d, loc):
        ctx = st["ctx"]
        L = Lin.sym("len(%s)" % self.len_of)
        ok = ctx.le(s, e) and ctx.le(e, L) and ctx.ge0(d) and ctx.le(d + (e - s), L)
        self.obligations.append(Obligation("copy", "copy_within(%s..%s -> %s) stays inside the buffer" % (s, e, d), loc, ok, list(st["trace"])))
        st["events"].append(("copy", s, e, d, loc))
        moved = None
        for name, (a, b) in st["regions"].items():
            if ctx.eq(a, s) and ctx.eq(b, e):
                moved = name
        new_end = d + (e - s)
        for name, (a, b) in list(st["regions"].items()):
            if name == moved:
                continue
            if ctx.eq(a, b):
                continue        # empty region: nothing to clobber
            disjoint = ctx.le(new_end, a) or ctx.le(b, d)
            if not disjoint:
                self.obligations.append(Obligation("clobber", "copy_within(%s..%s -> %s) may overwrite the live region %s = [%s, %s)" % (s, e, d, name, a, b), loc, False, list(st["trace"])))
        if moved is not None:
            st["regions"][moved] = (d, new_end)
        else:
            # bytes copied that are not exactly one live region: harmless only if the range is empty
            if not ctx.eq(s, e):
                self.obligations.append(Obligation("copy", "copy_within(%s..%s -> %s) moves bytes that are not exactly one live region" % (s, e, d), loc, False, list(st["trace"])))
