"""E8 — cursor geometry: a path-sensitive abstract interpretation of the buffer-bookkeeping functions in the
domain of linear forms over the cursor fields at function entry.

The stream parser keeps one byte buffer partitioned by four cursors
    0 <= parsed_start <= gap_start <= raw_start <= free_start <= buffer.len()
(the chain is the repository's own `debug_assert_invars!`).  The functions that move the cursors are short and
loop-free; every value they compute is a linear form over the entry cursors, the buffer length and opaque
non-negative quantities (arguments, results of `min`).  This module interprets a function's MIR along each of
its paths, carrying
  * the heap (field -> linear form), flow-sensitively (fields are versioned by the order of writes on the path),
  * the path condition as a set of linear inequalities (integer comparisons the path took),
  * the current location of each live byte region (what `copy_within` moved where),
and asks whether a linear inequality follows from the entry invariant and the path condition.  The entailment
test is Fourier-Motzkin elimination over the rationals written out below (a sound refutation procedure for the
integer case: the query is entailed when its negation is rationally infeasible).  No external solver, nothing is
executed; an inequality that cannot be derived is reported, never assumed.

What the rules built on this decide is stated in rules/c03.py (R3.10-R3.12).
"""
from fractions import Fraction
import itertools
import re

import facts as F
import ir


class Lin:
    """c0 + sum coef[s] * s"""
    __slots__ = ("c", "t")

    def __init__(self, c=0, t=None):
        self.c = Fraction(c)
        self.t = {k: Fraction(v) for k, v in (t or {}).items() if v != 0}

    @staticmethod
    def sym(s):
        return Lin(0, {s: 1})

    def __add__(self, o):
        o = _lin(o)
        t = dict(self.t)
        for k, v in o.t.items():
            t[k] = t.get(k, 0) + v
        return Lin(self.c + o.c, t)

    def __neg__(self):
        return Lin(-self.c, {k: -v for k, v in self.t.items()})

    def __sub__(self, o):
        return self + (-_lin(o))

    def scale(self, k):
        return Lin(self.c * k, {s: v * k for s, v in self.t.items()})

    def is_const(self):
        return not self.t

    def key(self):
        return (self.c, tuple(sorted(self.t.items())))

    def __repr__(self):
        parts = []
        for s, v in sorted(self.t.items()):
            if v == 1:
                parts.append("+%s" % s)
            elif v == -1:
                parts.append("-%s" % s)
            else:
                parts.append("%+g*%s" % (float(v), s))
        if self.c != 0 or not parts:
            parts.append("%+g" % float(self.c))
        r = "".join(parts)
        return r[1:] if r.startswith("+") else r


def _lin(x):
    return x if isinstance(x, Lin) else Lin(x)


def fm_infeasible(cons, limit=4000):
    """Is the system {c >= 0 for c in cons} infeasible over the rationals?  Fourier-Motzkin elimination."""
    rows = []
    for c in cons:
        if c.is_const():
            if c.c < 0:
                return True
            continue
        rows.append(c)
    while True:
        syms = set()
        for r in rows:
            syms.update(r.t)
        if not syms:
            return any(r.c < 0 for r in rows)
        # eliminate the symbol producing the fewest combinations
        best = None
        for s in syms:
            p = sum(1 for r in rows if r.t.get(s, 0) > 0)
            n = sum(1 for r in rows if r.t.get(s, 0) < 0)
            cost = p * n - p - n
            if best is None or cost < best[0]:
                best = (cost, s)
        s = best[1]
        pos = [r for r in rows if r.t.get(s, 0) > 0]
        neg = [r for r in rows if r.t.get(s, 0) < 0]
        rest = [r for r in rows if r.t.get(s, 0) == 0]
        new = []
        seen = set()
        for a in pos:
            for b in neg:
                # a: +ca*s + A >= 0 ; b: -cb*s + B >= 0  =>  cb*A + ca*B >= 0
                ca, cb = a.t[s], -b.t[s]
                c = a.scale(cb) + b.scale(ca)
                c.t.pop(s, None)
                if c.is_const():
                    if c.c < 0:
                        return True
                    continue
                k = c.key()
                if k not in seen:
                    seen.add(k)
                    new.append(c)
        rows = rest + new
        if len(rows) > limit:
            return False    # give up: not proven infeasible


class Ctx:
    """Entry invariant + path condition."""

    def __init__(self, base=None):
        self.cons = list(base or [])
        self.nonneg = set()

    def copy(self):
        c = Ctx(self.cons)
        c.nonneg = set(self.nonneg)
        return c

    def _all(self):
        return self.cons + [Lin.sym(s) for s in self.nonneg]

    def add(self, c):
        self.cons.append(c)

    def feasible(self):
        return not fm_infeasible(self._all())

    def ge0(self, q):
        """Is q >= 0 entailed?  (integers: refute q <= -1)"""
        return fm_infeasible(self._all() + [(-q) - 1])

    def eq(self, a, b):
        d = _lin(a) - _lin(b)
        if d.is_const():
            return d.c == 0
        return self.ge0(d) and self.ge0(-d)

    def le(self, a, b):
        return self.ge0(_lin(b) - _lin(a))


UINT = ("usize", "u8", "u16", "u32", "u64", "u128")
UMAX = {"u8": 255, "u16": 65535, "u32": 2 ** 32 - 1}
LEN_MAX = 2 ** 63 - 1       # slices never exceed isize::MAX bytes
ASSERT_MACROS = ("debug_assert", "debug_assert_eq", "debug_assert_ne", "debug_assert_invars", "debug_assert_matches")


def in_debug_assert(sp):
    return any(m.split("::")[-1] in ASSERT_MACROS for m in (sp or {}).get("m", []))


def ty_str(t):
    return t.get("s", "") if isinstance(t, dict) else (t or "")


def is_byte_slice_ref(s):
    return s.startswith("&") and s.replace("mut ", "").replace("'a ", "").replace("'_ ", "").strip("& ") == "[u8]"


class Obligation:
    def __init__(self, kind, text, loc, ok, path, fn=None, refuted=False):
        self.kind, self.text, self.loc, self.ok, self.path, self.fn = kind, text, loc, ok, path, fn
        self.refuted = refuted      # not merely underivable: the path condition entails that the operation is out of range


class PathEnd:
    def __init__(self, ctx, heap, regions, ret, trace, events, args):
        self.ctx, self.heap, self.regions, self.ret, self.trace, self.events, self.args = ctx, heap, regions, ret, trace, events, args


class Interp:
    """Interprets a function's MIR along each path.  `self` (argument 1) may be a struct with cursor fields:
    then every cursor field starts as its own symbol and the chain invariant 0 <= c1 <= ... <= cn <= len(len_of)
    is assumed at entry, re-established (checked) and re-assumed at every loop head, and checked by the caller
    of run() at the returns."""

    def __init__(self, facts, cursors=(), len_of=None, inline=(), max_paths=6000, track=None, contracts=None):
        self.facts = facts
        self.cursors = list(cursors)            # field names, in chain order
        self.len_of = len_of                    # field whose len() bounds the chain
        self.inline = set(inline)
        self.max_paths = max_paths
        self.fresh = itertools.count()
        self.obligations = []
        self.ends = []
        self.npaths = 0
        self.track = track or {}                # region name -> (start field, end field)
        self.init_regions = None
        self.contracts = contracts or {}        # callee name -> function(interp, st, args, dest_ty) -> value
        self._loops = {}
        self.self_is_struct = True
        self.stats = {"paths": 0, "loop_heads": 0, "inlined": 0, "contract_uses": {}}
        self.aligned = {}               # symbol -> modulus it is a multiple of
        self.variant = None             # heap -> Lin: must strictly decrease from a loop head to each of its back edges
        self.pre_fields = []            # [(field of self, integer type)]: given entry symbols up front (self.entry_syms) so postconditions can refer to them
        self.entry_syms = {}

    # -- entry state ------------------------------------------------------------------------------
    def chain(self, ctx, syms):
        prev = Lin(0)
        for f, s in zip(self.cursors, syms):
            ctx.nonneg.add(s)
            ctx.add(Lin.sym(s) - prev)
            prev = Lin.sym(s)
        if self.len_of:
            L = "len(%s)" % self.len_of
            ctx.nonneg.add(L)
            ctx.add(Lin.sym(L) - prev)
            ctx.add(Lin(LEN_MAX) - Lin.sym(L))

    def chain_vals(self, ctx, vals):
        """assume the cursor chain 0 <= v1 <= ... <= vn <= len over linear forms (some fresh, some kept)"""
        prev = Lin(0)
        for v in vals:
            ctx.add(v - prev)
            prev = v
        if self.len_of:
            L = "len(%s)" % self.len_of
            ctx.nonneg.add(L)
            ctx.add(Lin.sym(L) - prev)
            ctx.add(Lin(LEN_MAX) - Lin.sym(L))

    def _inside_debug_assert(self, body, sp):
        """The test of `debug_assert!(a <= b)` carries the span of the user's expression `a <= b`, not of the macro: it is a debug-assertion
        test when it lies inside the source range of a debug-assertion macro call of the same body."""
        if not sp or sp.get("m"):
            return False
        cache = self.__dict__.setdefault("_dbg_spans", {})
        spans = cache.get(body.path)
        if spans is None:
            spans = set()
            for blk in body.blocks:
                for x in list(blk["st"]) + [blk["t"]]:
                    q = x.get("sp")
                    if q and in_debug_assert(q):
                        spans.add((q["f"], q["l"], q["c"], q["l2"], q["c2"]))
            cache[body.path] = spans
        pos0, pos1 = (sp["l"], sp["c"]), (sp["l2"], sp["c2"])
        return any(f_ == sp["f"] and (l, c) <= pos0 and pos1 <= (l2, c2) for (f_, l, c, l2, c2) in spans)

    def havoc_cursors(self, st, written=None):
        """Forget the cursors a loop / callee may have written (all of them when `written` is None) and re-assume the chain; cursors
        that provably are not written keep their current linear form (frame condition)."""
        heap = st["heap"]
        keep = {}
        if written is not None:
            for f in self.cursors:
                if f not in written and isinstance(heap.get(f), Lin):
                    keep[f] = heap[f]
        vals = []
        new_heap = {}
        for f in self.cursors:
            if f in keep:
                v = keep[f]
            else:
                sname = "%s@%d" % (f, next(self.fresh))
                st["ctx"].nonneg.add(sname)
                v = Lin.sym(sname)
            new_heap[f] = v
            vals.append(v)
        self.chain_vals(st["ctx"], vals)
        if written is not None:
            # the frame condition covers every field, not only the cursors: a counter the loop / callee provably never writes keeps its value
            for k_, v_ in heap.items():
                fld = k_[7:-1] if k_.startswith("veclen(") and k_.endswith(")") else k_
                if k_ not in new_heap and fld not in written:
                    new_heap[k_] = v_
        st["heap"] = new_heap
        st["regions"] = {}

    # -- frame conditions: which fields of `self` a method of this crate may write -----------------------------
    def frame_fields(self, name, _seen=None):
        """Set of `self` field names that the crate function `name` (taking self by reference as its first argument) may write, directly or
        through crate functions it hands self to; None when that cannot be bounded (self escapes to code without a body here)."""
        cache = self.__dict__.setdefault("_frames", {})
        if name in cache:
            return cache[name]
        _seen = _seen or set()
        if name in _seen:
            return set()
        _seen = _seen | {name}
        b = self.facts.body(name, required=False)
        if b is None:
            cache[name] = None
            return None
        out = self._frame_of_blocks(b, range(len(b.blocks)), _seen)
        cache[name] = out
        return out

    def _frame_of_blocks(self, b, blocks, _seen=frozenset()):
        # locals that alias self (reborrows / copies of the receiver)
        alias = {1}
        changed = True
        while changed:
            changed = False
            for blk in b.blocks:
                for s_ in blk["st"]:
                    if s_["k"] != "assign" or s_["place"].get("p"):
                        continue
                    rv = s_["rv"]
                    src = None
                    if rv["k"] in ("ref", "rawptr") and all("deref" in e for e in rv["place"].get("p", [])):
                        src = rv["place"]["l"]
                    elif rv["k"] == "use":
                        pl = rv["op"].get("move") or rv["op"].get("copy")
                        if pl is not None and not pl.get("p"):
                            src = pl["l"]
                    if src in alias and s_["place"]["l"] not in alias:
                        alias.add(s_["place"]["l"])
                        changed = True
        fields = set()

        def first_field(pl):
            fl = [e for e in pl.get("p", []) if "f" in e]
            return fl[0].get("n", fl[0]["f"]) if fl else None
        for bi in blocks:
            blk = b.blocks[bi]
            for s_ in blk["st"]:
                if s_["k"] != "assign":
                    continue
                pl = s_["place"]
                if pl["l"] in alias and first_field(pl) is not None:
                    fields.add(first_field(pl))
                rv = s_["rv"]
                if rv["k"] in ("ref", "rawptr") and rv.get("bk") == "mut" and rv["place"]["l"] in alias and first_field(rv["place"]) is not None:
                    fields.add(first_field(rv["place"]))
            t = blk["t"]
            if t["k"] == "call":
                d = t.get("dest")
                if d is not None and d["l"] in alias and first_field(d) is not None:
                    fields.add(first_field(d))
                passes_self = False
                for a in t["args"]:
                    pl = a.get("move") or a.get("copy")
                    if pl is not None and pl["l"] in alias and first_field(pl) is None:
                        passes_self = True
                if passes_self:
                    f_ = t["func"]
                    cname = F.norm(f_["res"]["path"]) if f_.get("res") else F.norm(f_.get("path", ""))
                    if (t.get("sp") or {}).get("n") or in_debug_assert(t.get("sp") or t.get("fsp")):
                        continue        # logging / debug assertions read, never write
                    sub = self.frame_fields(cname, _seen) if cname else None
                    if sub is None:
                        # a shared reborrow handed to foreign code cannot write; a unique one can
                        first = t["args"][0].get("move") or t["args"][0].get("copy") if t["args"] else None
                        ty = ty_str(b.locals[first["l"]]["ty"]) if first is not None else ""
                        if ty.startswith("&") and not ty.startswith("&mut") and "&mut" not in ty[:6]:
                            continue
                        return None
                    fields |= sub
        return fields

    def entry(self):
        ctx = Ctx()
        self.chain(ctx, self.cursors)
        heap = {f: Lin.sym(f) for f in self.cursors}
        regions = {name: (Lin.sym(a), Lin.sym(b)) for name, (a, b) in self.track.items()}
        return ctx, heap, regions

    def multiple_of(self, v, m):
        """is the linear form syntactically a multiple of m (constants and symbols produced by an alignment mask)?"""
        if not isinstance(v, Lin) or v.c.denominator != 1 or int(v.c) % m:
            return False
        for s_, c in v.t.items():
            if c.denominator != 1 or (int(c) * self.aligned.get(s_, 1)) % m:
                return False
        return True

    def chain_holds(self, ctx, heap):
        prev = Lin(0)
        for f in self.cursors:
            v = heap.get(f)
            if not isinstance(v, Lin) or not ctx.le(prev, v):
                return False
            prev = v
        if self.len_of:
            return ctx.le(prev, Lin.sym("len(%s)" % self.len_of))
        return True

    def new_sym(self, hint, ctx, ty="usize"):
        s = "%s#%d" % (hint, next(self.fresh))
        ctx.nonneg.add(s)
        top = UMAX.get(ty, 2 ** 64 - 1 if ty in ("usize", "u64") else None)
        if top is not None:
            ctx.add(Lin(top) - Lin.sym(s))
        return Lin.sym(s)

    def new_len(self, hint, ctx):
        s = "%s#%d" % (hint, next(self.fresh))
        ctx.nonneg.add(s)
        ctx.add(Lin(LEN_MAX) - Lin.sym(s))
        return Lin.sym(s)

    # -- values --------------------------------------------------------------------------------------
    # Lin | ('self',) | ('fieldref', name) | ('slice', len) | ('cmp', op, Lin, Lin) | ('bool', 0/1) |
    # ('range', lo, hi|None) | ('pair', a, b) | ('tuple', [...]) | ('some', v) | ('none',) | ('ok', v) |
    # ('nvit', len) | ('array', n) | ('opaque', id)
    def opaque(self):
        return ('opaque', next(self.fresh))

    def fresh_for(self, ty, ctx, hint="v"):
        ty = ty_str(ty)
        if ty in UINT:
            return self.new_sym(hint, ctx, ty)
        if ty == "bool":
            return self.opaque()
        if is_byte_slice_ref(ty):
            return ('slice', self.new_len("len(%s)" % hint, ctx))
        return self.opaque()

    def _is_enum(self, adt):
        a = self.facts.adts.get(adt)
        if a is not None:
            return a.get("kind") == "Enum"
        return adt in ("std::ops::ControlFlow", "std::result::Result", "std::task::Poll", "futures_util::future::Either")

    def vec_len(self, st, field):
        key = "veclen(%s)" % field
        v = st["heap"].get(key)
        if not isinstance(v, Lin):
            v = self.new_len("len(%s)" % field, st["ctx"])
            st["heap"][key] = v
        return v

    def slice_len(self, v, ctx):
        if isinstance(v, tuple) and v[0] == 'slice':
            return v[1]
        if isinstance(v, tuple) and v[0] == 'fieldref' and v[1] == self.len_of:
            return Lin.sym("len(%s)" % self.len_of)
        if isinstance(v, tuple) and v[0] == 'array':
            return Lin(v[1])
        return None

    def place_ty(self, body, p):
        proj = p.get("p", [])
        for el in reversed(proj):
            if "ty" in el:
                return ty_str(el["ty"])
            if "deref" in el:
                continue
            return ""
        t = ty_str(body.locals[p["l"]]["ty"])
        if proj:    # only derefs
            return t.lstrip("&").replace("mut ", "", 1).strip() if t.startswith("&") else ""
        return t

    def operand_ty(self, body, o):
        if "copy" in o or "move" in o:
            return self.place_ty(body, o.get("copy") or o.get("move"))
        if "const" in o:
            return ty_str(o["const"].get("ty", ""))
        return ""

    def load_place(self, st, p):
        body, env, heap, ctx = st["body"], st["env"], st["heap"], st["ctx"]
        v = env.get(p["l"])
        if v is None:
            v = self.fresh_for(body.locals[p["l"]]["ty"], ctx, body.varnames.get(p["l"], "_%d" % p["l"]))
            env[p["l"]] = v
        proj = p.get("p", [])
        for el in proj:
            if "deref" in el:
                if isinstance(v, tuple) and v[0] == 'fieldref' and isinstance(heap.get(v[1]), Lin):
                    v = heap[v[1]]
                continue
            if "variant" in el:
                continue            # (x as Some): the payload is projected by the following field element
            if "f" in el:
                name = el.get("n", el["f"])
                if isinstance(v, tuple) and v[0] in ('some', 'ok', 'newtype') and el["f"] == 0:
                    v = v[1]
                elif isinstance(v, tuple) and v[0] == 'enum' and isinstance(el["f"], int) and el["f"] < len(v[2]):
                    v = v[2][el["f"]]
                elif v == ('self',):
                    if name not in heap:
                        ty = ty_str(el.get("ty", ""))
                        heap[name] = self.new_sym(str(name), ctx, ty) if ty in UINT else ('fieldref', name)
                    v = heap[name]
                elif isinstance(v, tuple) and v[0] == 'pair':
                    v = v[1] if el["f"] == 0 else v[2]
                elif isinstance(v, tuple) and v[0] == 'tuple' and isinstance(el["f"], int) and el["f"] < len(v[1]):
                    v = v[1][el["f"]]
                elif isinstance(v, tuple) and v[0] == 'range':
                    v = v[1] if name in ("start", 0) else v[2]
                elif isinstance(v, tuple) and v[0] == 'closure' and isinstance(el["f"], int) and el["f"] < len(v[2]):
                    v = v[2][el["f"]]           # a captured variable
                else:
                    v = self.fresh_for(el.get("ty", ""), ctx, str(name))
            else:
                v = self.opaque()
        return v

    def operand(self, st, o):
        if "copy" in o or "move" in o:
            return self.load_place(st, o.get("copy") or o.get("move"))
        if "const" in o:
            if o["const"].get("k") == "generic" and st.get("gconst") is not None:
                return Lin(st["gconst"])        # the callee's single const generic parameter, bound at the inlined call site
            c = ir.const_expr(o["const"])
            v = ir.const_value(c)
            ty = ty_str(o["const"].get("ty", ""))
            if isinstance(v, int):
                if ty == "bool":
                    return ('bool', v)
                return Lin(v)
            m = re.match(r"&(?:'\w+ )?(?:mut )?\[u8; (\d+)\]$", ty)
            if m:
                return ('array', int(m.group(1)))       # a (promoted) constant array, e.g. `&mut []`
        return self.opaque()

    def oblige(self, st, kind, text, ok, sp=None, refuted=False):
        self.obligations.append(Obligation(kind, text, st["body"].loc(sp or st["sp"]), ok, list(st["trace"]), st["body"].npath, refuted=bool(refuted) and not ok))

    def rvalue(self, st, r, ty):
        k = r["k"]
        ctx = st["ctx"]
        body = st["body"]
        if k == "use":
            return self.operand(st, r["op"])
        if k in ("ref", "rawptr"):
            p = r["place"]
            proj = [e for e in p.get("p", []) if "deref" not in e]
            base = st["env"].get(p["l"])
            if base == ('self',) and not proj:
                return ('self',)
            if base == ('self',) and len(proj) == 1 and "f" in proj[0]:
                return ('fieldref', proj[0].get("n", proj[0]["f"]))
            v = self.load_place(st, p)
            if (r.get("bk") == "mut" or k == "rawptr") and not any("deref" in e for e in p.get("p", [])):
                # `&mut local`: a callee (or a write through the reference) may change the local behind our back
                st["borrowed"] = st.get("borrowed", frozenset()) | {p["l"]}
            if isinstance(v, tuple) and v[0] in ('fieldref', 'self', 'slice', 'array', 'nvit', 'some', 'none', 'enum', 'ok', 'tuple', 'range', 'pair', 'bool', 'closure', 'iter'):
                return v
            if isinstance(v, Lin):
                return v            # &usize: read-only views of integers are modelled by value
            return self.opaque()
        if k == "cast":
            v = self.operand(st, r["op"])
            tty = ty_str(r.get("ty", ""))
            if isinstance(v, Lin) and tty in UINT:
                sty = self.operand_ty(body, r["op"])
                if tty in UMAX and not (sty in UMAX and UMAX[sty] <= UMAX[tty]):
                    ok = ctx.le(v, UMAX[tty])
                    self.oblige(st, "cast", "%s fits into %s (narrowing `as` cast)" % (v, tty), ok, r.get("sp"))
                return v
            if isinstance(v, tuple) and v[0] in ('array', 'slice') and "[u8]" in tty:
                L = self.slice_len(v, ctx)
                return ('slice', L)
            if isinstance(v, tuple) and v[0] in ('fieldref', 'self', 'slice'):
                return v
            if tty in UINT:
                return self.new_sym("cast", ctx, tty)
            return self.opaque()
        if k == "bin":
            a, b = self.operand(st, r["a"]), self.operand(st, r["b"])
            op = r["op"]
            base = op[:-len("WithOverflow")] if op.endswith("WithOverflow") else op
            wo = op.endswith("WithOverflow")
            rty = ty if not wo else self.operand_ty(body, r["a"])
            if isinstance(a, Lin) and isinstance(b, Lin):
                res = None
                if base == "Add":
                    res = a + b
                    if rty in UMAX:
                        self.oblige(st, "add", "%s + %s fits into %s" % (a, b, rty), ctx.le(res, UMAX[rty]), r.get("sp"))
                elif base == "Sub":
                    res = a - b
                    self.oblige(st, "sub", "%s - %s cannot underflow" % (a, b), ctx.ge0(res), r.get("sp"))
                elif base == "Mul" and (a.is_const() or b.is_const()):
                    res = b.scale(a.c) if a.is_const() else a.scale(b.c)
                elif base in ("Lt", "Le", "Gt", "Ge", "Eq", "Ne"):
                    return ('cmp', base, a, b)
                elif base == "BitAnd" and (a.is_const() or b.is_const()):
                    # v & !(2^k - 1): rounds v down to a multiple of 2^k
                    if a.is_const() and b.is_const():
                        return Lin(int(a.c) & int(b.c))

                    def is_mask(x):
                        lo = (2 ** 64 - 1) - int(x.c)
                        return x.is_const() and lo >= 0 and (lo & (lo + 1)) == 0
                    mask, v = (a, b) if (a.is_const() and is_mask(a)) else (b, a)
                    low = (2 ** 64 - 1) - int(mask.c) if mask.is_const() else -1
                    if low >= 0 and (low & (low + 1)) == 0:
                        res = self.new_sym("aligned", ctx, rty)
                        ctx.add(v - res)            # res <= v
                        ctx.add(res - v + low)      # res >= v - low
                        self.aligned[next(iter(res.t))] = low + 1
                if res is not None:
                    return ('pair', res, ('bool', 0)) if wo else res
            if wo:
                return ('pair', self.fresh_for(rty, ctx), ('bool', 0))
            return self.fresh_for(ty, ctx)
        if k == "agg":
            ops = [self.operand(st, o) for o in r["ops"]]
            if r["ak"] == "adt":
                adt = F.norm(r["adt"])
                vn = r.get("vn", "")
                if adt.endswith("ops::Range") and len(ops) == 2:
                    return ('range', ops[0], ops[1])
                if adt.endswith("ops::RangeFrom") and len(ops) == 1:
                    return ('range', ops[0], None)
                if adt.endswith("ops::RangeTo") and len(ops) == 1:
                    return ('range', Lin(0), ops[0])
                if adt.endswith("option::Option"):
                    return ('some', ops[0]) if vn == "Some" and ops else ('none',)
                if "vi" in r and self._is_enum(adt):
                    return ('enum', int(r["vi"]), tuple(ops))      # any other enum value: variant index + payload
                if len(ops) == 1 and not adt.startswith("std::") and not adt.startswith("core::"):
                    return ('newtype', ops[0])                      # a crate-local single-field struct is a transparent wrapper of its field
                return self.opaque()
            if r["ak"] == "tuple":
                return ('tuple', ops)
            if r["ak"] == "array":
                return ('array', len(ops), tuple(ops))      # (the element values matter when the array is iterated by a fold)
            if r["ak"] == "closure" and r.get("def"):
                return ('closure', r["def"], tuple(ops))      # a closure value: its body and what it captured
            return self.opaque()
        if k == "discr":
            v = self.load_place(st, r["place"])
            if isinstance(v, tuple) and v[0] == 'some':
                return Lin(1)
            if v == ('none',):
                return Lin(0)
            if isinstance(v, tuple) and v[0] == 'enum':
                return Lin(v[1])
            return self.opaque()
        if k == "un":
            v = self.operand(st, r["a"])
            if r["op"] == "Not":
                if isinstance(v, Lin) and v.is_const() and ty in ("usize", "u64"):
                    return Lin(2 ** 64 - 1 - int(v.c))
                if isinstance(v, tuple) and v[0] == 'cmp':
                    neg = {"Lt": "Ge", "Le": "Gt", "Gt": "Le", "Ge": "Lt", "Eq": "Ne", "Ne": "Eq"}
                    return ('cmp', neg[v[1]], v[2], v[3])
                if isinstance(v, tuple) and v[0] == 'bool':
                    return ('bool', 1 - v[1])
            if r["op"] == "PtrMetadata":
                L = self.slice_len(v, ctx)
                if L is not None:
                    return L
        return self.fresh_for(ty, ctx)

    def store(self, st, p, v):
        proj = [e for e in p.get("p", []) if "deref" not in e]
        base = st["env"].get(p["l"])
        if not proj and p.get("p") and isinstance(base, tuple) and base[0] == 'fieldref':
            st["heap"][base[1]] = v         # *(&mut self.field) = v
            return
        if not proj:
            st["env"][p["l"]] = v
            return
        if base == ('self',) and len(proj) == 1 and "f" in proj[0]:
            st["heap"][proj[0].get("n", proj[0]["f"])] = v
            return
        # a write through something not modelled: cursors are only reachable through `self` or a `&mut self.field`

    # -- constraints from a comparison taken / not taken -------------------------------------------
    @staticmethod
    def cmp_constraints(op, a, b, taken):
        """list of alternative constraint-lists (a disjunction of conjunctions)"""
        if not taken:
            op = {"Lt": "Ge", "Le": "Gt", "Gt": "Le", "Ge": "Lt", "Eq": "Ne", "Ne": "Eq"}[op]
        if op == "Lt":
            return [[b - a - 1]]
        if op == "Le":
            return [[b - a]]
        if op == "Gt":
            return [[a - b - 1]]
        if op == "Ge":
            return [[a - b]]
        if op == "Eq":
            return [[a - b, b - a]]
        return [[a - b - 1], [b - a - 1]]

    # -- loops ------------------------------------------------------------------------------------------
    def _loop_blocks(self, body, head):
        """blocks of the strongly connected component that contains the loop head"""
        n = len(body.blocks)
        succ = {b: body.succs(b) for b in range(n)}
        # forward reachable from head, and can reach head
        fwd, stack = set(), [head]
        while stack:
            v = stack.pop()
            for w in succ[v]:
                if w not in fwd:
                    fwd.add(w)
                    stack.append(w)
        pred = {b: [] for b in range(n)}
        for a, ws in succ.items():
            for w in ws:
                pred[w].append(a)
        bwd, stack = set(), [head]
        while stack:
            v = stack.pop()
            for w in pred[v]:
                if w not in bwd:
                    bwd.add(w)
                    stack.append(w)
        comp = (fwd & bwd) | {head}
        return sorted(comp) if head in fwd else []

    def loop_info(self, body):
        k = id(body)
        if k in self._loops:
            return self._loops[k]
        n = len(body.blocks)
        succ = {b: body.succs(b) for b in range(n)}
        # Tarjan SCC
        index, low, onst, stack, sccs, cnt = {}, {}, set(), [], [], [0]
        import sys
        sys.setrecursionlimit(10000)

        def sc(v):
            index[v] = low[v] = cnt[0]
            cnt[0] += 1
            stack.append(v)
            onst.add(v)
            for w in succ[v]:
                if w not in index:
                    sc(w)
                    low[v] = min(low[v], low[w])
                elif w in onst:
                    low[v] = min(low[v], index[w])
            if low[v] == index[v]:
                comp = []
                while True:
                    w = stack.pop()
                    onst.discard(w)
                    comp.append(w)
                    if w == v:
                        break
                sccs.append(comp)
        sc(0)
        heads = {}
        for comp in sccs:
            cs = set(comp)
            if len(comp) == 1 and comp[0] not in succ[comp[0]]:
                continue
            # heads: blocks of the component entered from outside
            hs = {b for b in comp for a in range(n) if a not in cs and a in index and b in succ[a]}
            if 0 in cs:
                hs.add(0)
            assigned = set()
            fields = set()          # fields of `self` written, mutably borrowed, or possibly changed by a callee holding self
            whole = False
            for b in comp:
                for s_ in body.blocks[b]["st"]:
                    if s_["k"] == "assign":
                        assigned.add(s_["place"]["l"])
                        pl = s_["place"]
                        if pl["l"] == 1 and pl.get("p"):
                            fl = [e for e in pl["p"] if "f" in e]
                            if fl:
                                fields.add(fl[0].get("n", fl[0]["f"]))
                        rv = s_["rv"]
                        if rv["k"] in ("ref", "rawptr") and rv.get("bk") == "mut" and rv["place"]["l"] == 1:
                            fl = [e for e in rv["place"].get("p", []) if "f" in e]
                            if fl:
                                fields.add(fl[0].get("n", fl[0]["f"]))
                            else:
                                whole = True
                t = body.blocks[b]["t"]
                if t["k"] == "call" and "dest" in t:
                    assigned.add(t["dest"]["l"])
                    for a in t["args"]:
                        pl = a.get("move") or a.get("copy")
                        if pl is not None and pl["l"] == 1 and not [e for e in pl.get("p", []) if "f" in e]:
                            whole = True        # self itself handed to a callee inside the loop
            for h in hs:
                heads[h] = (assigned, None if whole else fields)
        self._loops[k] = heads
        return heads

    # -- exploration ----------------------------------------------------------------------------------
    def run(self, body, self_value=('self',)):
        ctx, heap, regions = self.entry()
        env = {}
        for i in range(1, body.argc + 1):
            ty = ty_str(body.locals[i]["ty"])
            name = body.varnames.get(i, "arg%d" % i)
            if i == 1 and self_value is not None and name == "self":
                env[i] = self_value
            elif ty in UINT:
                env[i] = self.new_sym(name, ctx, ty)
            elif is_byte_slice_ref(ty):
                env[i] = ('slice', self.new_len("len(%s)" % name, ctx))
            elif ty == "bool":
                env[i] = self.opaque()
            else:
                env[i] = self.opaque()
        self.args = [env[i] for i in range(2, body.argc + 1)]
        self.arg_env = dict(env)
        for (fname, fty) in self.pre_fields:
            if fname not in heap:
                heap[fname] = self.new_sym(str(fname), ctx, fty)
            self.entry_syms[fname] = heap[fname]
        if self.init_regions is not None:
            regions = self.init_regions(ctx, heap, env)
        st = {"body": body, "env": env, "heap": heap, "ctx": ctx, "regions": regions, "trace": [], "events": [], "sp": body.span,
              "stack": []}
        self._walk(st, 0, {})
        self.stats["paths"] = self.npaths
        return self.ends

    def _clone(self, st):
        return {"body": st["body"], "env": dict(st["env"]), "heap": dict(st["heap"]), "ctx": st["ctx"].copy(),
                "regions": dict(st["regions"]), "trace": list(st["trace"]), "events": list(st["events"]), "sp": st["sp"],
                "borrowed": st.get("borrowed", frozenset()), "gconst": st.get("gconst"), "variant0": st.get("variant0"),
                "stack": [dict(fr, env=dict(fr["env"])) for fr in st["stack"]]}

    def _ty(self, body, l):
        return ty_str(body.locals[l]["ty"])

    def _panics(self, body, bb, depth=0):
        """Does block bb unconditionally end in a panic (call without target / unreachable)?"""
        if depth > 8:
            return False
        t = body.blocks[bb]["t"]
        if t["k"] == "call":
            if "target" not in t:
                return True
            # an assertion with a message formats its arguments (calls that do return) before it panics
            if (t.get("sp") or {}).get("m"):
                return self._panics(body, t["target"], depth + 1)
            return False
        if t["k"] in ("unreachable",):
            return True
        if t["k"] == "goto":
            return self._panics(body, t["target"], depth + 1)
        return False

    def _walk(self, st, bb, visits):
        body = st["body"]
        while True:
            key = (id(body), bb)
            heads = self.loop_info(body)
            if bb in heads:
                if self.cursors:
                    self.oblige(st, "inv", "the cursor invariant holds at the loop head of %s" % body.npath.split("::")[-1],
                                self.chain_holds(st["ctx"], st["heap"]), body.blocks[bb]["t"].get("sp"))
                if visits.get(key, 0) >= 1:
                    # back edge: the invariant was re-established (or reported); the head was explored from a generic state
                    if self.variant is not None and st.get("variant0") is not None:
                        try:
                            now = self.variant(st["heap"])
                        except (KeyError, TypeError):
                            now = None
                        ok = isinstance(now, Lin) and st["ctx"].ge0(st["variant0"] - now - 1)
                        self.oblige(st, "progress", "every iteration of the loop in %s makes progress (%s decreases: %s -> %s)"
                                    % (body.npath.split("::")[-1], self.variant_text, st["variant0"], now), ok, body.blocks[bb]["t"].get("sp"))
                    return
                self.stats["loop_heads"] += 1
                # havoc: everything the loop may change is forgotten; the invariant is all that is known
                assigned, loop_fields = heads[bb]
                if self.cursors or loop_fields is None:
                    # (cursors the loop provably never writes -- neither directly nor through the crate methods it hands self to -- keep their value)
                    written = None
                    if self.cursors and st["env"].get(1) == ('self',):
                        comp = self._loop_blocks(body, bb)
                        written = self._frame_of_blocks(body, comp, frozenset({body.npath})) if comp else None
                    self.havoc_cursors(st, written)
                else:
                    # only what the loop can change is forgotten
                    for fl in loop_fields:
                        st["heap"].pop(fl, None)
                        st["heap"].pop("veclen(%s)" % fl, None)
                st["regions"] = {}
                for l in assigned:
                    if st["env"].get(l) != ('self',):
                        st["env"].pop(l, None)
                if st["stack"]:
                    raise RuntimeError("loop inside an inlined callee: %s" % body.npath)
                if self.variant is not None:
                    try:
                        st["variant0"] = self.variant(st["heap"])
                    except (KeyError, TypeError):
                        st["variant0"] = None
            visits = dict(visits)
            visits[key] = visits.get(key, 0) + 1
            if visits[key] > 1 and bb not in heads:
                self.oblige(st, "loop", "unstructured loop in %s" % body.npath, False)
                return
            blk = body.blocks[bb]
            for s in blk["st"]:
                if s["k"] != "assign":
                    continue
                p = s["place"]
                if in_debug_assert(s.get("sp")) or (s.get("sp") or {}).get("n"):
                    # values computed for a debug assertion / log statement are only read there
                    if "p" not in p:
                        st["env"][p["l"]] = self.rvalue_quiet(st, s)
                    continue
                st["sp"] = s.get("sp") or st["sp"]
                ty = self.place_ty(body, p)
                v = self.rvalue(st, s["rv"], ty)
                self.store(st, p, v)
            t = blk["t"]
            k = t["k"]
            st["sp"] = t.get("sp") or st["sp"]
            if k in ("goto", "drop"):
                bb = t["target"]
                continue
            if k == "assert":
                msg = t.get("msg", "")
                if msg.startswith("bounds") and not in_debug_assert(t.get("sp")):
                    c = self.operand(st, t["cond"])
                    ok = False
                    if isinstance(c, tuple) and c[0] == 'cmp':
                        alts = self.cmp_constraints(c[1], c[2], c[3], bool(t.get("expected", 1)))
                        ok = len(alts) == 1 and all(st["ctx"].ge0(x) for x in alts[0])
                        text = "index %s %s %s" % (c[2], c[1], c[3])
                    elif isinstance(c, tuple) and c[0] == 'bool':
                        ok = c[1] == int(bool(t.get("expected", 1)))
                        text = "constant index in bounds"
                    else:
                        text = "index in bounds (operands are not linear forms)"
                    self.oblige(st, "index", text, ok, t.get("sp"))
                # overflow checks: the obligation was recorded at the operation itself
                bb = t["target"]
                continue
            if k == "return":
                if st["stack"]:
                    fr = st["stack"].pop()
                    ret = st["env"].get(0)
                    st["body"], st["env"] = fr["body"], fr["env"]
                    st["gconst"] = fr.get("gconst")
                    body = st["body"]
                    if ret is None:
                        ret = self.opaque()
                    if fr.get("k") is not None:
                        # a combinator's closure returned: what the combinator does with the result (wrap it, feed the next round of a fold)
                        act = fr["k"](ret)
                        if act[0] == 'call' and self._enter_closure(st, fr["dest"], fr["target"], fr["visits"], act[1], act[2], act[3]):
                            body = st["body"]
                            bb = 0
                            visits = dict(fr["visits"])     # (the closure's blocks are visited afresh in every round)
                            continue
                        ret = act[1] if act[0] == 'done' else self.opaque()
                    self.store(st, fr["dest"], ret)
                    bb = fr["target"]
                    visits = fr["visits"]
                    continue
                self.npaths += 1
                if self.npaths > self.max_paths:
                    raise RuntimeError("path explosion in %s" % body.npath)
                self.ends.append(PathEnd(st["ctx"], st["heap"], st["regions"], st["env"].get(0), st["trace"], st["events"], self.args))
                return
            if k == "switch":
                targets = [(int(v), tgt) for v, tgt in t["targets"]]
                if (t.get("sp") or {}).get("n"):
                    bb = targets[0][1] if targets else t["otherwise"]     # log statement: the disabled side
                    continue
                d = self.operand(st, t["discr"])
                if in_debug_assert(t.get("sp")) or self._inside_debug_assert(body, t.get("sp")):
                    # follow the edge on which the assertion holds; its condition is NOT assumed
                    if isinstance(d, tuple) and d[0] == 'bool':
                        nxt = dict(targets).get(d[1], t["otherwise"])
                    else:
                        outs = [tgt for _, tgt in targets] + [t["otherwise"]]
                        good = [x for x in outs if not self._panics(body, x)]
                        nxt = good[0] if good else outs[0]
                    bb = nxt
                    continue
                if isinstance(d, tuple) and d[0] == 'bool':
                    bb = dict(targets).get(d[1], t["otherwise"])
                    continue
                if isinstance(d, Lin) and d.is_const():
                    bb = dict(targets).get(int(d.c), t["otherwise"])
                    continue
                where = "%s:%d" % (t["sp"]["f"].split("/")[-1], t["sp"]["l"]) if t.get("sp") else "?"
                if isinstance(d, tuple) and d[0] == 'cmp' and t.get("dty") == "bool":
                    for val, tgt in targets + [(None, t["otherwise"])]:
                        taken = (val != 0) if val is not None else True
                        for alt in self.cmp_constraints(d[1], d[2], d[3], taken):
                            s2 = self._clone(st)
                            for c in alt:
                                s2["ctx"].add(c)
                            if not s2["ctx"].feasible():
                                continue
                            s2["trace"].append("%s %s%s %s %s" % (where, "" if taken else "not ", d[2], d[1], d[3]))
                            self._walk(s2, tgt, visits)
                    return
                if isinstance(d, Lin):
                    others = []
                    for val, tgt in targets:
                        s2 = self._clone(st)
                        s2["ctx"].add(d - val)
                        s2["ctx"].add(Lin(val) - d)
                        if s2["ctx"].feasible():
                            s2["trace"].append("%s %s == %d" % (where, d, val))
                            self._walk(s2, tgt, visits)
                        others.append(val)
                    s2 = self._clone(st)
                    if sorted(others) == list(range(len(others))):
                        s2["ctx"].add(d - len(others))
                    if s2["ctx"].feasible():
                        s2["trace"].append("%s %s not in %s" % (where, d, others))
                        self._walk(s2, t["otherwise"], visits)
                    return
                outs = list(dict.fromkeys([tgt for _, tgt in targets] + [t["otherwise"]]))
                outs = [x for x in outs if body.blocks[x]["t"]["k"] != "unreachable"]
                for tgt in outs:
                    s2 = self._clone(st) if len(outs) > 1 else st
                    self._walk(s2, tgt, visits)
                return
            if k == "call":
                name = None
                f = t["func"]
                if f.get("res"):
                    name = F.norm(f["res"]["path"])
                elif "path" in f:
                    name = F.norm(f["path"])
                if "target" not in t:
                    return      # diverges (panic): preconditions / unreachable
                dty = self.place_ty(body, t["dest"])
                if in_debug_assert(t.get("sp") or t.get("fsp")) or (t.get("sp") or {}).get("n"):
                    self.store(st, t["dest"], self.fresh_for(dty, st["ctx"]))
                    bb = t["target"]
                    continue
                args = [self.operand(st, a) for a in t["args"]]
                done = self.call(st, t, name, args, dty, visits)
                if done == 'forked':
                    return
                if done == 'inlined':
                    body = st["body"]
                    bb = 0
                    visits = dict(visits)
                    continue
                bb = t["target"]
                continue
            # unreachable / resume / others
            return

    def rvalue_quiet(self, st, s):
        n = len(self.obligations)
        p = s["place"]
        v = self.rvalue(st, s["rv"], self._ty(st["body"], p["l"]))
        del self.obligations[n:]
        return v

    def fork(self, st, t, visits, alts):
        """alts: [(value for dest, [constraints], trace text)]"""
        for (res, conds, text) in alts:
            s2 = self._clone(st)
            for c in conds:
                s2["ctx"].add(c)
            if not s2["ctx"].feasible():
                continue
            s2["trace"].append(text)
            self.store(s2, t["dest"], res)
            self._walk(s2, t["target"], visits)
        return 'forked'

    def call(self, st, t, name, args, dty, visits):
        ctx = st["ctx"]
        body = st["body"]
        loc = body.loc(t.get("sp"))
        where = loc.split("/")[-1]
        name = name or ""
        short = name.split("::")[-1]
        if name in self.contracts:
            self.stats["contract_uses"][name] = self.stats["contract_uses"].get(name, 0) + 1
            r = self.contracts[name](self, st, args, dty)
            if isinstance(r, list):
                return self.fork(st, t, visits, r)
            self.store(st, t["dest"], r)
            return None
        if name.endswith("copy_within") and len(args) == 3:
            rng, dest = args[1], args[2]
            if args[0] == ('fieldref', self.len_of) and isinstance(rng, tuple) and rng[0] == 'range' and isinstance(dest, Lin) \
                    and isinstance(rng[1], Lin) and isinstance(rng[2], Lin):
                self.copy_within(st, rng[1], rng[2], dest, t.get("sp"))
            else:
                self.oblige(st, "copy", "copy_within with operands that are not cursor forms", False, t.get("sp"))
            self.store(st, t["dest"], self.opaque())
            return None
        if short in ("min", "max") and len(args) == 2 and all(isinstance(a, Lin) for a in args) and (name.startswith("std::cmp::") or name.startswith("core::cmp::")):
            a, b = args
            if short == "min":
                alts = [(a, [b - a], "%s min(%s, %s) = %s" % (where, a, b, a)), (b, [a - b - 1], "%s min(%s, %s) = %s" % (where, a, b, b))]
            else:
                alts = [(a, [a - b], "%s max(%s, %s) = %s" % (where, a, b, a)), (b, [b - a - 1], "%s max(%s, %s) = %s" % (where, a, b, b))]
            return self.fork(st, t, visits, alts)
        if short in ("checked_sub", "checked_add") and len(args) == 2 and all(isinstance(a, Lin) for a in args):
            a, b = args
            if short == "checked_sub":
                alts = [(('some', a - b), [a - b], "%s checked_sub(%s, %s) is Some" % (where, a, b)),
                        (('none',), [b - a - 1], "%s checked_sub(%s, %s) is None" % (where, a, b))]
            else:
                aty = self.operand_ty(body, t["args"][0])
                top = UMAX.get(aty, 2 ** 64 - 1)
                alts = [(('some', a + b), [Lin(top) - (a + b)], "%s checked_add(%s, %s) is Some" % (where, a, b)),
                        (('none',), [(a + b) - top - 1], "%s checked_add(%s, %s) overflows" % (where, a, b))]
            return self.fork(st, t, visits, alts)
        if short in ("next_multiple_of", "checked_next_multiple_of") and len(args) == 2 and all(isinstance(a, Lin) for a in args) and args[1].is_const() and int(args[1].c) > 0:
            # the smallest multiple of m that is >= a: an aligned symbol in [a, a + m - 1] (the same abstraction as `(a + m - 1) & !(m - 1)`)
            a, m = args[0], int(args[1].c)
            aty = self.operand_ty(body, t["args"][0])
            top = UMAX.get(aty, 2 ** 64 - 1)
            lim = (top // m) * m                    # the largest representable multiple
            res = self.new_sym("aligned", ctx, aty)
            self.aligned[next(iter(res.t))] = m
            grow = [res - a, a + (m - 1) - res]
            if short == "checked_next_multiple_of":
                alts = [(('some', res), grow + [Lin(lim) - a], "%s checked_next_multiple_of(%s, %d) is Some" % (where, a, m)),
                        (('none',), [a - lim - 1], "%s checked_next_multiple_of(%s, %d) overflows" % (where, a, m))]
                return self.fork(st, t, visits, alts)
            self.oblige(st, "add", "next_multiple_of(%s, %d) cannot overflow" % (a, m), ctx.le(a, Lin(lim)), t.get("sp"))
            for g_ in grow:
                ctx.add(g_)
            self.store(st, t["dest"], res)
            return None
        r_ = self.combinator(st, t, name, short, args, dty, visits)
        if r_ is not NotImplemented:
            return r_
        if short in ("expect", "unwrap") and args and isinstance(args[0], tuple) and args[0][0] in ('some', 'none', 'ok'):
            if args[0][0] == 'none':
                return 'forked'     # diverges
            self.store(st, t["dest"], args[0][1])
            return None
        if short in ("from", "into") and len(args) == 1 and isinstance(args[0], Lin) and (name.startswith("std::convert::num::") or "Into" in name or "From" in name) and dty in UINT:
            # lossless integer conversion (From is only implemented for widenings)
            self.store(st, t["dest"], args[0])
            return None
        if (name.endswith("Clone>::clone") or name.endswith("clone::Clone::clone")) and len(args) == 1 and (
                isinstance(args[0], Lin) or (isinstance(args[0], tuple) and args[0][0] in ('range', 'tuple', 'some', 'none', 'pair', 'bool'))):
            self.store(st, t["dest"], args[0])      # a clone of a plain value (e.g. a Range<usize>) is that value
            return None
        if name.endswith("std::ops::Try>::branch") and len(args) == 1 and isinstance(args[0], tuple) and args[0][0] in ('some', 'none', 'ok'):
            a0 = args[0]
            # `x?`: Continue(payload) for Some / Ok, Break(residual) for None
            self.store(st, t["dest"], ('enum', 0, (a0[1],)) if a0[0] in ('some', 'ok') else ('enum', 1, (('none',),)))
            return None
        if name.endswith("std::ops::Try>::branch") and name.startswith("<std::result::Result") and len(args) == 1 and isinstance(args[0], tuple) \
                and args[0][0] == 'enum' and args[0][1] in (0, 1):
            a0 = args[0]
            # Result as a plain enum value (Ok = 0, Err = 1): Continue(payload) / Break(residual)
            self.store(st, t["dest"], ('enum', 0, (a0[2][0] if a0[2] else self.opaque(),)) if a0[1] == 0 else ('enum', 1, (a0,)))
            return None
        if name.endswith("std::ops::FromResidual>::from_residual") and name.startswith("<std::result::Result"):
            # the residual of a Result is Result<Infallible, E>: what comes back is always an Err
            a0 = args[0] if args else None
            self.store(st, t["dest"], ('enum', 1, a0[2] if isinstance(a0, tuple) and a0[0] == 'enum' and a0[1] == 1 and a0[2] else (self.opaque(),)))
            return None
        if name.endswith("std::ops::FromResidual>::from_residual") and name.startswith("<std::option::Option"):
            self.store(st, t["dest"], ('none',))
            return None
        if short in ("is_break", "is_continue", "is_some", "is_none", "is_ok", "is_err") and len(args) == 1 and isinstance(args[0], tuple):
            a0 = args[0]
            vi = a0[1] if a0[0] == 'enum' else (1 if a0[0] == 'some' else 0 if a0[0] == 'none' else 0 if a0[0] == 'ok' else None)
            if vi is not None and a0[0] in ('enum', 'some', 'none', 'ok'):
                truth = {"is_break": vi == 1, "is_continue": vi == 0, "is_some": vi == 1, "is_none": vi == 0, "is_ok": vi == 0, "is_err": vi == 1}[short]
                self.store(st, t["dest"], ('bool', int(truth)))
                return None
        L0 = self.slice_len(args[0], ctx) if args else None
        if short == "len" and len(args) == 1:
            if L0 is not None:
                self.store(st, t["dest"], L0)
                return None
            if isinstance(args[0], tuple) and args[0][0] == 'fieldref':
                # a growable container of `self`: its length is a heap entry of its own, kept until the container is changed
                # (extend / push / clear update it, anything else that gets it mutably forgets it)
                self.store(st, t["dest"], self.vec_len(st, args[0][1]))
                return None
        if short == "is_empty" and len(args) == 1 and L0 is not None:
            self.store(st, t["dest"], ('cmp', 'Eq', L0, Lin(0)))
            return None
        if short == "is_empty" and len(args) == 1 and isinstance(args[0], tuple) and args[0][0] == 'fieldref' and args[0][1] != self.len_of:
            self.store(st, t["dest"], ('cmp', 'Eq', self.vec_len(st, args[0][1]), Lin(0)))
            return None
        if args and isinstance(args[0], tuple) and args[0][0] == 'fieldref' and args[0][1] != self.len_of and name.startswith(("std::vec::Vec", "<std::vec::Vec")):
            fld = args[0][1]
            if short in ("extend", "extend_from_slice") and len(args) == 2:
                La = self.slice_len(args[1], ctx)
                if La is not None:
                    st["heap"]["veclen(%s)" % fld] = self.vec_len(st, fld) + La
                else:
                    st["heap"].pop("veclen(%s)" % fld, None)
                self.store(st, t["dest"], ('tuple', []))
                return None
            if short == "push" and len(args) == 2:
                st["heap"]["veclen(%s)" % fld] = self.vec_len(st, fld) + 1
                self.store(st, t["dest"], ('tuple', []))
                return None
            if short == "clear" and len(args) == 1:
                st["heap"]["veclen(%s)" % fld] = Lin(0)
                self.store(st, t["dest"], ('tuple', []))
                return None
        if (short in ("index", "index_mut") or name.endswith("::get") or name.endswith("::get_mut")) and len(args) == 2 and L0 is not None \
                and isinstance(args[1], tuple) and args[1][0] == 'range':
            lo, hi = args[1][1], args[1][2]
            if isinstance(lo, Lin) and (hi is None or isinstance(hi, Lin)):
                hi_ = hi if hi is not None else L0
                if short.startswith("index"):
                    ok = ctx.ge0(lo) and ctx.le(lo, hi_) and ctx.le(hi_, L0)
                    self.oblige(st, "slice", "[%s..%s] is within a slice of length %s" % (lo, hi if hi is not None else "", L0), ok, t.get("sp"))
                    st["events"].append(("slice", lo, hi_, loc))
                    self.store(st, t["dest"], ('slice', hi_ - lo))
                    return None
                inb = [hi_ - lo, L0 - hi_]
                alts = [(('some', ('slice', hi_ - lo)), inb, "%s get(%s..%s) is Some" % (where, lo, hi_)),
                        (('none',), [lo - hi_ - 1], "%s get: start > end" % where),
                        (('none',), [hi_ - L0 - 1], "%s get(%s..%s) is None" % (where, lo, hi_))]
                return self.fork(st, t, visits, alts)
            if short.startswith("index"):
                self.oblige(st, "slice", "slice with bounds that are not linear forms", False, t.get("sp"))
        if short in ("split_at", "split_at_mut") and len(args) == 2 and L0 is not None and isinstance(args[1], Lin):
            k = args[1]
            ok_ = ctx.ge0(k) and ctx.le(k, L0)
            self.oblige(st, "split", "split_at(%s) of a slice of length %s" % (k, L0), ok_, t.get("sp"),
                        refuted=(not ok_) and (ctx.ge0(k - L0 - 1) or ctx.ge0(-k - 1)))
            self.store(st, t["dest"], ('tuple', [('slice', k), ('slice', L0 - k)]))
            return None
        if (name in self.inline and args) or (name and self.facts.is_new_helper(name)):
            # a callee the rule asked to look into, or a helper introduced by a later edit (not on the pinned tree)
            cb = self.facts.body(name, required=False)
            if cb is not None and cb.argc == len(args):
                env = {}
                for i in range(1, cb.argc + 1):
                    env[i] = args[i - 1]
                st["stack"].append({"body": st["body"], "env": st["env"], "dest": t["dest"], "target": t["target"], "visits": visits,
                                    "gconst": st.get("gconst")})
                st["body"], st["env"] = cb, env
                cargs = [a for a in t["func"].get("args", []) if isinstance(a, dict) and a.get("constarg")]
                st["gconst"] = int(cargs[0]["s"]) if len(cargs) == 1 and str(cargs[0].get("s", "")).isdigit() else None
                self.stats["inlined"] += 1
                return 'inlined'
        # unknown callee: must not receive `self` mutably (it could move the cursors)
        if self.cursors and any(a == ('self',) or (isinstance(a, tuple) and a[0] == 'fieldref' and a[1] in self.cursors) for a in args):
            self.oblige(st, "escape", "self is passed to %s, which this analysis does not look into" % name, False, t.get("sp"))
        elif any(a == ('self',) for a in args):
            st["heap"] = {}         # self moved into / lent to an unknown callee: nothing is known about its fields afterwards
        else:
            for a in args:
                if isinstance(a, tuple) and a[0] == 'fieldref':
                    st["heap"].pop(a[1], None)      # `&mut self.field` lent to an unknown callee
                    st["heap"].pop("veclen(%s)" % a[1], None)
        # locals that were mutably borrowed may have been changed by any callee holding the reference
        for l in st.get("borrowed", ()):
            v = st["env"].get(l)
            if v == ('self',) or (isinstance(v, tuple) and v[0] == 'nvit'):
                # ('nvit', L) is an upper bound on what the iterator still holds; stepping the iterator keeps it
                continue
            st["env"].pop(l, None)
        self.store(st, t["dest"], self.fresh_for(dty, ctx, short or "r"))
        return None

    # -- closures and the std combinators that run them -------------------------------------------------
    def _enter_closure(self, st, dest, target, visits, cv, cargs, k):
        """Continue the walk inside the body of closure value cv applied to cargs; on its return k(result) decides what happens next."""
        cb = self.facts.by_path.get(cv[1]) if isinstance(cv, tuple) and cv[0] == 'closure' else None
        if cb is None or cb.argc != 1 + len(cargs) or len(st["stack"]) > 12:
            return False
        env = {1: cv}
        for i, a in enumerate(cargs):
            env[2 + i] = a
        st["stack"].append({"body": st["body"], "env": st["env"], "dest": dest, "target": target, "visits": visits,
                            "gconst": st.get("gconst"), "k": k})
        st["body"], st["env"] = cb, env
        self.stats["inlined"] += 1
        return True

    def combinator(self, st, t, name, short, args, dty, visits):
        """Option / Result combinators on a value whose variant is known on this path, and folds over an array literal: the closure
        that runs is looked into (its obligations and events count like the caller's own).  NotImplemented = not one of these."""
        a0 = args[0] if args else None
        if not isinstance(a0, tuple):
            return NotImplemented

        def go(cv, cargs, k):
            return 'inlined' if self._enter_closure(st, t["dest"], t["target"], visits, cv, cargs, k) else NotImplemented

        def done(v):
            self.store(st, t["dest"], v)
            return None
        ident = lambda ret: ('done', ret)
        if name.startswith("std::option::Option::") and a0[0] in ('some', 'none'):
            some = a0[0] == 'some'
            if short == "map_or" and len(args) == 3:
                return go(args[2], [a0[1]], ident) if some else done(args[1])
            if short == "map_or_else" and len(args) == 3:
                return go(args[2], [a0[1]], ident) if some else go(args[1], [], ident)
            if short == "map" and len(args) == 2:
                return go(args[1], [a0[1]], lambda ret: ('done', ('some', ret))) if some else done(('none',))
            if short == "and_then" and len(args) == 2:
                return go(args[1], [a0[1]], ident) if some else done(('none',))
            if short == "is_some_and" and len(args) == 2:
                return go(args[1], [a0[1]], ident) if some else done(('bool', 0))
            if short == "unwrap_or" and len(args) == 2:
                return done(a0[1] if some else args[1])
            if short == "unwrap_or_else" and len(args) == 2:
                return done(a0[1]) if some else go(args[1], [], ident)
            if short == "unwrap_or_default" and some:
                return done(a0[1])
            if short == "ok_or" and len(args) == 2:
                return done(('enum', 0, (a0[1],)) if some else ('enum', 1, (args[1],)))
            if short == "ok_or_else" and len(args) == 2:
                return done(('enum', 0, (a0[1],))) if some else go(args[1], [], lambda ret: ('done', ('enum', 1, (ret,))))
            return NotImplemented
        if name.startswith("std::result::Result::") and a0[0] == 'enum' and a0[1] in (0, 1):
            ok = a0[1] == 0
            pay = a0[2][0] if a0[2] else self.opaque()
            if short == "map" and len(args) == 2:
                return go(args[1], [pay], lambda ret: ('done', ('enum', 0, (ret,)))) if ok else done(a0)
            if short == "map_err" and len(args) == 2:
                return done(a0) if ok else go(args[1], [pay], lambda ret: ('done', ('enum', 1, (ret,))))
            if short == "and_then" and len(args) == 2:
                return go(args[1], [pay], ident) if ok else done(a0)
            if short == "or_else" and len(args) == 2:
                return done(a0) if ok else go(args[1], [pay], ident)
            if short == "and" and len(args) == 2:
                return done(args[1] if ok else a0)
            if short == "map_or" and len(args) == 3:
                return go(args[2], [pay], ident) if ok else done(args[1])
            if short == "unwrap_or" and len(args) == 2:
                return done(pay if ok else args[1])
            if short == "unwrap_or_else" and len(args) == 2:
                return done(pay) if ok else go(args[1], [pay], ident)
            if short == "ok" and len(args) == 1:
                return done(('some', pay) if ok else ('none',))
            return NotImplemented
        if short == "into_iter" and a0[0] == 'array' and len(a0) == 3 and len(args) == 1:
            return done(('iter', a0[2]))            # an array literal consumed by value: its elements, in order
        if a0[0] == 'iter' and (name.startswith("std::iter::Iterator::") or "std::iter::Iterator>::" in name) and short in ("try_fold", "fold", "for_each", "try_for_each"):
            vals = a0[1]
            f = args[-1]
            is_try = short.startswith("try_")
            has_acc = short.endswith("fold")
            if len(args) != (3 if has_acc else 2):
                return NotImplemented
            rty = str(dty or "")

            def wrap(acc):
                if not is_try:
                    return acc
                if rty.startswith("std::option::Option"):
                    return ('some', acc)
                return ('enum', 0, (acc,))          # Result::Ok / ControlFlow::Continue

            def step(i, acc):
                if i == len(vals):
                    return ('done', wrap(acc))
                return ('call', f, ([acc] if has_acc else []) + [vals[i]], lambda ret, _i=i: after(_i, ret))

            def after(i, ret):
                if not is_try:
                    return step(i + 1, ret)
                if isinstance(ret, tuple) and ret[0] == 'enum' and ret[1] == 0:
                    return step(i + 1, ret[2][0] if ret[2] else self.opaque())
                if isinstance(ret, tuple) and ret[0] == 'some':
                    return step(i + 1, ret[1])
                if isinstance(ret, tuple) and (ret[0] == 'none' or (ret[0] == 'enum' and ret[1] == 1)):
                    return ('done', ret)            # the fold stops at the first Err / None / Break and returns it
                return ('done', self.opaque())
            act = step(0, args[1] if has_acc else ('tuple', []))
            if act[0] == 'done':
                return done(act[1])
            return go(act[1], act[2], act[3])
        return NotImplemented

    # -- region tracking -------------------------------------------------------------------------------
    def copy_within(self, st, s, e, d, sp):
        ctx = st["ctx"]
        L = Lin.sym("len(%s)" % self.len_of)
        ok = ctx.le(s, e) and ctx.le(e, L) and ctx.ge0(d) and ctx.le(d + (e - s), L)
        self.oblige(st, "copy", "copy_within(%s..%s -> %s) stays inside the buffer" % (s, e, d), ok, sp)
        st["events"].append(("copy", s, e, d, st["body"].loc(sp)))
        moved = None
        for name, (a, b) in st["regions"].items():
            if ctx.eq(a, s) and ctx.eq(b, e):
                moved = name
        new_end = d + (e - s)
        for name, (a, b) in list(st["regions"].items()):
            if name == moved:
                continue
            if ctx.eq(a, b):
                continue        # empty region: nothing to clobber
            disjoint = ctx.le(new_end, a) or ctx.le(b, d)
            if not disjoint:
                self.oblige(st, "clobber", "copy_within(%s..%s -> %s) may overwrite the live region %s = [%s, %s)" % (s, e, d, name, a, b), False, sp)
        if moved is not None:
            st["regions"][moved] = (d, new_end)
        elif st["regions"]:
            # bytes copied that are not exactly one live region: harmless only if the range is empty
            if not ctx.eq(s, e):
                self.oblige(st, "copy", "copy_within(%s..%s -> %s) moves bytes that are not exactly one live region" % (s, e, d), False, sp)
