"""Pretty printer for dumped MIR bodies (debugging aid and `explain` output)."""
import sys


def place(b, p):
    s = b.local_name(p["l"]) if b else "_%d" % p["l"]
    for e in p.get("p", []):
        if "deref" in e:
            s = "(*%s)" % s
        elif "f" in e:
            s = "%s.%s" % (s, e.get("n", e["f"]))
        elif "idx" in e:
            s = "%s[_%d]" % (s, e["idx"])
        elif "cidx" in e:
            s = "%s[%s%d]" % (s, "-" if e["from_end"] else "", e["cidx"])
        elif "sub_from" in e:
            s = "%s[%d..%s%d]" % (s, e["sub_from"], "-" if e["from_end"] else "", e["sub_to"])
        elif "variant" in e:
            s = "(%s as %s)" % (s, e.get("vn", e["variant"]))
        else:
            s = "%s.?" % s
    return s


def const(c):
    if "fn" in c:
        return "fn:" + c["fn"]
    k = c.get("k")
    if k == "int":
        return "%s_%s" % (c["v"], c["ty"])
    if "bytes" in c:
        try:
            t = bytes(c["bytes"]).decode("ascii")
            if t.isprintable():
                return "b%r" % t
        except Exception:
            pass
        return "bytes%s" % (c["bytes"][:16],)
    if "promoted" in c:
        return "promoted#%d" % c["promoted"]
    if "def" in c:
        return "const:" + c["def"]
    return "const<%s:%s>" % (k, c["ty"])


def operand(b, o):
    if "copy" in o:
        return place(b, o["copy"])
    if "move" in o:
        return "move " + place(b, o["move"])
    if "const" in o:
        return const(o["const"])
    return str(o)


def rvalue(b, r):
    k = r["k"]
    if k == "use":
        return operand(b, r["op"])
    if k == "ref":
        return "&%s%s" % ("mut " if r["bk"] == "mut" else ("fake " if r["bk"] == "fake" else ""), place(b, r["place"]))
    if k == "rawptr":
        return "&raw " + place(b, r["place"])
    if k == "cast":
        return "%s as %s (%s)" % (operand(b, r["op"]), r["ty"], r["ck"])
    if k == "bin":
        return "%s(%s, %s)" % (r["op"], operand(b, r["a"]), operand(b, r["b"]))
    if k == "un":
        return "%s(%s)" % (r["op"], operand(b, r["a"]))
    if k == "discr":
        return "discriminant(%s)" % place(b, r["place"])
    if k == "agg":
        ops = [operand(b, o) for o in r["ops"]]
        if r["ak"] == "adt":
            fs = r.get("fields", [])
            return "%s::%s{%s}" % (r["adt"], r["vn"], ", ".join("%s: %s" % (f, o) for f, o in zip(fs, ops)))
        if r["ak"] in ("closure", "coroutine", "coroutine_closure"):
            return "%s<%s>[%s]" % (r["ak"], r["def"], ", ".join(ops))
        return "%s[%s]" % (r["ak"], ", ".join(ops))
    if k == "repeat":
        return "[%s; %s]" % (operand(b, r["op"]), r["n"])
    return str(r)


def callee(f):
    if "path" in f:
        s = f["path"]
        if "res" in f and f["res"]["path"] != f["path"]:
            s += " => " + f["res"]["path"]
        return s
    return "indirect(%s)" % f.get("indirect")


def dump(b, out=sys.stdout, noise=True):
    out.write("fn %s  [%s] %s\n" % (b.path, b.kind, b.loc()))
    for i, l in enumerate(b.locals):
        out.write("  let %s%s: %s\n" % ("_%d" % i, (" (%s)" % b.varnames[i]) if i in b.varnames else "", l["ty"]["s"]))
    for i, blk in enumerate(b.blocks):
        out.write("  bb%d%s:\n" % (i, " (cleanup)" if blk.get("cleanup") else ""))
        for st in blk["st"]:
            n = " #noise" if b.stmt_noise(st) else ""
            if st["k"] == "assign":
                out.write("    %s = %s  @%d%s\n" % (place(b, st["place"]), rvalue(b, st["rv"]), st["sp"]["l"], n))
            elif st["k"] == "dead":
                pass
            else:
                out.write("    %s\n" % st)
        t = blk["t"]
        n = " #noise" if b.term_noise(i) else ""
        k = t["k"]
        if k == "call":
            out.write("    %s = call %s(%s) -> %s unwind %s  @%d%s\n" % (
                place(b, t["dest"]), callee(t["func"]), ", ".join(operand(b, a) for a in t["args"]),
                t.get("target"), t.get("unwind"), t["sp"]["l"], n))
        elif k == "switch":
            out.write("    switch %s [%s, otherwise: %d]  @%d%s\n" % (
                operand(b, t["discr"]), ", ".join("%s: %d" % (v, tg) for v, tg in t["targets"]), t["otherwise"], t["sp"]["l"], n))
        elif k == "goto":
            out.write("    goto %d%s\n" % (t["target"], " (loop)" if t.get("loophead") else ""))
        elif k == "drop":
            out.write("    drop %s -> %d  [%s]\n" % (place(b, t["place"]), t["target"], t["ty"]["s"]))
        elif k == "assert":
            out.write("    assert %s == %s (%s) -> %d\n" % (operand(b, t["cond"]), t["expected"], t["msg"], t["target"]))
        elif k == "yield":
            out.write("    yield %s -> %d  @%d\n" % (operand(b, t["value"]), t["target"], t["sp"]["l"]))
        else:
            out.write("    %s\n" % k)


if __name__ == "__main__":
    import facts
    f = facts.load(tuple(x for x in (sys.argv[2].split(",") if len(sys.argv) > 2 else ["async", "http"]) if x))
    pat = sys.argv[1]
    for b in f.bodies:
        if pat in b.npath or pat in b.path:
            dump(b)
            print()
