"""C04 — each management or rejectable record gets exactly one correct reply, in order (R4.1–R4.5).

The three header-dispatch sites are abstracted into decision tables (dispatch.py) and compared, row by
row, with an oracle written from the FastCGI specification (function `oracle` below — not derived from
the code)."""
import facts as F
import ir
import ieg
import paths
import dispatch
from .c17 import cv, agg_field, variant_of


REPLY_LEN = 16      # RecordHeader::LEN + body LEN of UnknownType / EndRequest records (C17 R17.3 decides the encoders)


class Need(Exception):
    """The oracle needs an atom that the code path did not test."""
    def __init__(self, atom):
        self.atom = atom


def oracle(site, A):
    """Expected (leaf id, replies, outcome) for an atom valuation, per the FastCGI specification."""
    def get(k):
        if k not in A:
            raise Need(k)
        return A[k]
    if not get('have_header'):
        return ('short-header', [], {'kind': 'need-more'})
    dec = get('decode')
    ek = 'err' if site == 'stream' else 'fatal'
    if dec == 'UnknownVersion':
        return ('unknown-version', [], {'kind': ek, 'err': 'UnknownVersion', 'hold': True})
    if dec == 'other_err':
        return ('decode-error', [], {'kind': ek, 'err': 'Protocol', 'hold': True})
    if dec == 'UnknownRecordType':
        return ('unknown-type', [{'ctor': 'UnknownType', 'rtype': 'wire type', 'id': 'wire id'}], {'kind': 'skip', 'next': 'same'})
    if dec not in ('ok',):
        return ('decode-error', [], {'kind': ek, 'err': 'Protocol', 'hold': True})
    # stream parser tests the stream-type guard first
    if site == 'stream' and get('input_stream'):
        if get('id') == 'match':
            c = get('cmp')
            if c == 'Equal':
                if get('len_nonzero'):
                    return ('stream-data', [], {'kind': 'stream'})
                return ('stream-end', [], {'kind': 'hold-end'})
            if c == 'Less':
                return ('earlier-stream', [], {'kind': 'skip', 'next': 'same'})
            return ('later-stream', [], {'kind': 'hold-end'})
    rt = get('rtype')
    if site == 'header':
        if rt == 'BeginRequest':
            if not get('begin_len_ok'):
                return ('begin-bad-len', [], {'kind': 'fatal', 'err': 'InvalidRequestLen', 'hold': True})
            if not get('have_body'):
                return ('begin-short', [], {'kind': 'need-more'})
            b = get('body')
            if b == 'UnknownRole':
                return ('begin-unknown-role', [{'ctor': 'EndRequest', 'status': 'UnknownRole', 'app_status': 0, 'id': 'wire id'}],
                        {'kind': 'skip', 'next': 'same', 'payload': 0})
            if b != 'ok':
                return ('begin-body-error', [], {'kind': 'fatal', 'err': 'Protocol'})
            if not get('id_nonzero'):
                return ('begin-null-id', [], {'kind': 'fatal', 'err': 'NullRequest'})
            return ('begin-ok', [], {'kind': 'start-request'})
        if rt == 'GetValues' and get('mgmt'):
            return ('get-values', [], {'kind': 'values', 'next': 'same'})
        return ('other-skip', [], {'kind': 'skip', 'next': 'same'})
    # a request is in progress (params / stream)
    if site == 'params' and rt == 'Params':
        if get('id') == 'match':
            if get('len_nonzero'):
                return ('params-data', [], {'kind': 'params-continue'})
            return ('params-end', [], {'kind': 'done'})
        return ('params-foreign', [], {'kind': 'skip', 'next': 'same'})
    if rt == 'AbortRequest':
        if get('id') == 'match':
            if site == 'params':
                return ('abort', [{'ctor': 'EndRequest', 'status': 'RequestComplete', 'app_status': 0, 'id': 'request id'}],
                        {'kind': 'skip', 'next': 'initial'})
            return ('abort', [], {'kind': 'err', 'err': 'AbortRequest', 'hold': True})
        return ('abort-foreign', [], {'kind': 'skip', 'next': 'same'})
    if rt == 'BeginRequest':
        if get('id') == 'other':
            return ('begin-multiplex', [{'ctor': 'EndRequest', 'status': 'CantMpxConn', 'app_status': 0, 'id': 'wire id'}],
                    {'kind': 'skip', 'next': 'same'})
        return ('begin-duplicate', [], {'kind': 'skip', 'next': 'same'})
    if rt == 'GetValues':
        if get('mgmt'):
            return ('get-values', [], {'kind': 'values', 'next': 'same'})
        return ('get-values-nonmgmt', [], {'kind': 'skip', 'next': 'same'})
    return ('other-skip', [], {'kind': 'skip', 'next': 'same'})


DOMAINS = {
    'have_header': (True, False), 'input_stream': (True, False), 'id': ('match', 'other'), 'cmp': ('Less', 'Equal', 'Greater'),
    'len_nonzero': (True, False), 'mgmt': (True, False), 'begin_len_ok': (True, False), 'have_body': (True, False),
    'body': ('ok', 'UnknownRole', 'other_err'), 'id_nonzero': (True, False),
    'decode': ('ok', 'UnknownVersion', 'UnknownRecordType', 'other_err'),
    # `Stdout` stands for every record type the specification does not single out
    'rtype': ('BeginRequest', 'AbortRequest', 'GetValues', 'Params', 'Stdin', 'Data', 'Stdout'),
}
INPUT_STREAM_TYPES = ('Stdin', 'Data')


def consistent(A):
    """Atoms are not independent: `is_input_stream()` is a function of the record type, and a record carrying the
    request's own (non-zero) id is not a management record."""
    rt, ins = A.get('rtype'), A.get('input_stream')
    if rt is not None and ins is not None:
        if rt in INPUT_STREAM_TYPES:
            if not ins:
                return False
        elif isinstance(rt, str) and rt.startswith('other(not '):
            excl = rt[len('other(not '):-1].split(',')
            if ins and all(x in excl for x in INPUT_STREAM_TYPES):
                return False
        elif ins:
            return False
    if A.get('mgmt') and A.get('id') == 'match':
        return False
    return True


def rtype_admits(rt, v):
    if isinstance(rt, str) and rt.startswith('other(not '):
        return v not in rt[len('other(not '):-1].split(',')
    return rt == v


def oracle_all(site, A, depth=0):
    """The oracle's verdicts on every completion of the atoms a path left untested: a path that does not look at an
    atom covers the whole cube of inputs differing in it, and is correct iff it is correct on each of them."""
    rt = A.get('rtype')
    if isinstance(rt, str) and rt.startswith('other(not '):
        # a default arm covers each record type it does not exclude
        out = []
        for v in DOMAINS['rtype']:
            if rtype_admits(rt, v):
                B = dict(A)
                B['rtype'] = v
                if consistent(B):
                    out += oracle_all(site, B, depth + 1)
        return out
    try:
        return [(dict(A),) + oracle(site, A)]
    except Need as e:
        if depth > 6 or e.atom not in DOMAINS:
            raise
        out = []
        for v in DOMAINS[e.atom]:
            B = dict(A)
            B[e.atom] = v
            if consistent(B):
                out += oracle_all(site, B, depth + 1)
        return out


LEAVES = {
    'header': {'short-header', 'unknown-version', 'decode-error', 'unknown-type', 'begin-bad-len', 'begin-short', 'begin-unknown-role',
               'begin-body-error', 'begin-null-id', 'begin-ok', 'get-values', 'other-skip'},
    'params': {'short-header', 'unknown-version', 'decode-error', 'unknown-type', 'params-data', 'params-end', 'params-foreign', 'abort',
               'abort-foreign', 'begin-multiplex', 'begin-duplicate', 'get-values', 'get-values-nonmgmt', 'other-skip'},
    'stream': {'short-header', 'unknown-version', 'decode-error', 'unknown-type', 'stream-data', 'stream-end', 'earlier-stream', 'later-stream',
               'abort', 'abort-foreign', 'begin-multiplex', 'begin-duplicate', 'get-values', 'get-values-nonmgmt', 'other-skip'},
}


# ---------------------------------------------------------------------------------------------------
# what the code does on a row

def lens_of(e):
    w = dispatch.wire_field(e)
    if w:
        return w
    v = cv(e)
    if v is not None:
        return v
    return ir.show(e)[:40]


def next_kind(e, site):
    """Which state a skip / values wrapper returns to."""
    e = ir.peel(e)
    if e[0] == 'param':
        return 'same'
    if e[0] == 'agg' and e[2].endswith("HeaderState::HeaderState"):
        return 'same' if site == 'header' else 'initial'
    if e[0] == 'field' and e[2] == 'inner' and ir.peel(e[1])[0] == 'param':
        return 'same'
    if e[0] == 'field' and e[2] == 'req':
        return 'request-done'
    return ir.show(e)[:40]


def header_source(d):
    """The slice the header bytes were taken from on this path (`H` in `H.get(0..8)`)."""
    for (e, lab, n) in d.row.conds:
        pe = ir.peel(e)
        if pe[0] == 'discr':
            x = ir.peel(pe[1])
            if x[0] == 'call' and x[1] == "<std::option::Option as std::ops::Try>::branch" and x[2]:
                x = ir.peel(x[2][0])        # `H.get(0..8)?`
            if x[0] == 'call' and x[1].endswith("::get") and len(x[2]) == 2:
                rng = ir.peel(x[2][1])
                if rng[0] == 'agg' and rng[2].endswith("Range") and cv(dict(rng[3]).get('start')) == 0:
                    return ir.peel(x[2][0])
    return None


def rest_consumed(e, src):
    """How many bytes past the start of the header slice `src` the returned remainder begins."""
    e = ir.peel(e)
    if src is not None and e == src:
        return 0
    if e[0] == 'param' and src is None:
        return 0
    if e[0] == 'call' and e[1].endswith("index_mut") and len(e[2]) == 2:
        base = ir.peel(e[2][0])
        rng = ir.peel(e[2][1])
        if rng[0] == 'agg' and rng[2].endswith("RangeFrom"):
            start = dict(rng[3]).get('start')
            s = ir.peel(start)
            n = None
            if cv(s) is not None:
                n = cv(s)
            elif (s[0] == 'field' and ir.peel(s[1])[0] == 'bin') or (s[0] == 'bin' and s[1].startswith('Add')):
                b = ir.peel(s[1]) if s[0] == 'field' else s
                if cv(b[2]) is not None and cv(b[3]) is not None:
                    n = cv(b[2]) + cv(b[3])      # constant folding of LEN + LEN only
            inner = rest_consumed(base, src)
            if n is not None and isinstance(inner, int):
                return n + inner
    return ir.show(e)[:40]


def outcome_request(d, site):
    """Outcome of a request-parser dispatch row from its returned (rest, State)."""
    r = ir.peel(d.raw_ret)
    if r[0] != 'agg' or not r[2].startswith("std::ops::ControlFlow::"):
        return {'kind': '?', 'raw': ir.show(r)[:80]}
    flow = r[2].split("::")[-1]
    tup = ir.peel(r[3][0][1])
    rest, st = tup[3][0][1], ir.peel(tup[3][1][1])
    out = {'flow': flow, 'consumed': rest_consumed(rest, header_source(d))}
    if st[0] == 'agg' and st[2].endswith("State::Fatal"):
        err = ir.peel(st[3][0][1])
        out.update(kind='fatal', err=err[2].split("::")[-1] if err[0] == 'agg' else ir.show(err)[:40])
        return out
    if st[0] == 'call' and st[1].endswith("::into_skip"):
        nk = next_kind(st[2][0], site)
        out.update(kind='done' if nk == 'request-done' else 'skip', next=nk, payload=lens_of(st[2][1]), padding=lens_of(st[2][2]))
        return out
    vals = None
    if st[0] == 'call' and st[1].endswith("::wrap_values"):
        vals = ir.peel(st[2][0])
    if st[0] == 'agg' and st[2].endswith("Values"):
        vals = ir.peel(st[3][0][1])
    if vals is not None and vals[0] == 'call' and vals[1].endswith("GetValuesState::new"):
        out.update(kind='values', next=next_kind(vals[2][0], site), payload=lens_of(vals[2][1]), padding=lens_of(vals[2][2]))
        return out
    if vals is not None and vals[0] == 'agg' and vals[2].endswith("GetValuesState::GetValuesState"):
        # the same state written as a struct literal
        fl = dict(vals[3])
        if {'next', 'payload_rem', 'padding_rem'} <= set(fl):
            out.update(kind='values', next=next_kind(fl['next'], site), payload=lens_of(fl['payload_rem']), padding=lens_of(fl['padding_rem']))
            return out
    if st[0] == 'call' and st[1].endswith("::into_state"):
        a = ir.peel(st[2][0])
        if a[0] == 'param' and 'decode' not in d.atoms:
            out.update(kind='need-more')
            return out
        if a[0] == 'param':
            # same state object with updated lengths (Params continue)
            w = {pl[2]: lens_of(val) for (pl, val, n, s_) in d.row.writes if pl[0] == 'field' and ir.peel(pl[1])[0] == 'param'}
            if w:
                out.update(kind='params-continue', payload=w.get('payload_rem'), padding=w.get('padding_rem'))
            else:
                out.update(kind='need-more')
            return out
        if a[0] == 'agg' and a[2].endswith("ParamsState::ParamsState"):
            fields = dict(a[3])
            inner = ir.peel(fields.get('inner'))
            req = [x for x in ir.walk(inner) if x[0] == 'call' and x[1] == "parser::Request::new"]
            ok_id = ok_body = False
            if req:
                idarg = ir.peel(req[0][2][0])
                ok_id = any(dispatch.wire_field(y) == 'request_id' for y in ir.walk(idarg))
                bodyarg = req[0][2][1]
                ok_body = any(y[0] == 'call' and y[1] == dispatch.BEGIN_FROM_BYTES for y in ir.walk(bodyarg))
            out.update(kind='start-request', payload=lens_of(fields.get('payload_rem')), padding=lens_of(fields.get('padding_rem')),
                       id_from_wire=ok_id, body_from_wire=ok_body)
            return out
    out.update(kind='?', raw=ir.show(st)[:80])
    return out


def flow_token(r):
    """The Ok payload of a stream-dispatch result as a token: ControlFlow variant name, or ('bool', value)."""
    x = agg_field(r, 0)
    if x is None:
        return None
    v = variant_of(x)
    if v is not None:
        return v
    c = cv(x)
    if c is not None:
        return ('bool', c)
    return None


def outcome_stream(d):
    r = ir.peel(d.raw_ret)
    out = {}
    w = {}
    for (pl, val, n, s_) in d.row.writes:
        if pl[0] == 'field':
            base = ir.peel(pl[1])
            w[(base[2] if base[0] == 'param' else ir.show(base)[:10]) + "." + str(pl[2])] = val
    if variant_of(r) == 'Err':
        e = ir.peel(agg_field(r, 0))
        out.update(kind='err', err=e[2].split("::")[-1] if e[0] == 'agg' else ir.show(e)[:40], hold=not any(k.startswith("self.") for k in w))
        return out
    flow = flow_token(r)
    # the verdict "go round again / hand control back" may be carried by ControlFlow, bool, ..: the value returned when the header is
    # still incomplete (nothing can be done) is the one that means "stop"
    stop = getattr(d, "stop_token", None)
    if stop is not None and flow is not None:
        flow = 'Break' if flow == stop else 'Continue'
    out['flow'] = flow
    st = w.get("self.state")
    selfw = {k for k in w if k.startswith("self.")}
    if st is None:
        if "res.stream_end" in w and cv(w["res.stream_end"]) == 1 and flow == 'Break' and not selfw:
            out.update(kind='hold-end')
        elif flow == 'Break' and not w:
            out.update(kind='need-more')
        else:
            out.update(kind='?', raw=sorted(w))
        return out
    s = ir.peel(st)
    sk = s[2].split("::")[-1] if s[0] == 'agg' else '?'
    out.update(payload=lens_of(w.get("self.payload_rem")) if "self.payload_rem" in w else None,
               padding=lens_of(w.get("self.padding_rem")) if "self.padding_rem" in w else None,
               consumed='header' if "self.raw_start" in w else 0)
    out['kind'] = {'Stream': 'stream', 'Skip': 'skip', 'Values': 'values'}.get(sk, '?')
    if sk == 'Values':
        vars_ = ir.peel(agg_field(s, 'vars'))
        out['vars_empty'] = vars_[0] == 'call' and vars_[1].endswith("::empty")
    out['next'] = 'same'
    # accounting of the reply bytes
    if d.replies:
        ro = w.get("res.output")
        out['counted'] = ro is not None and any(x[0] == 'call' and x[1].endswith("::len") for x in ir.walk(ro)) and any(
            x[0] == 'call' and x[1].endswith("::to_record") for x in ir.walk(ro))
        if ro is not None and not out['counted']:
            # the same amount as a constant: every generated reply is one unpadded header plus one fixed body
            pe = ir.peel(ro, casts=False)
            if pe[0] == 'field' and ir.peel(pe[1])[0] == 'bin':
                pe = ir.peel(pe[1])
            if pe[0] == 'bin' and pe[1].startswith('Add') and cv(pe[3]) == REPLY_LEN * len(d.replies):
                out['counted'] = True
    return out


def compare(exp_replies, exp_out, d, got, site):
    """List of mismatch descriptions."""
    bad = []
    got_replies = [dict(t) for t in d.replies]
    if len(got_replies) != len(exp_replies):
        bad.append("expected %d reply record(s), the path appends %d" % (len(exp_replies), len(got_replies)))
    for e, g in zip(exp_replies, got_replies):
        for k, v in e.items():
            if g.get(k) != v:
                bad.append("reply %s: %s is %s, specification says %s" % (e.get('ctor'), k, g.get(k), v))
    k = exp_out['kind']
    if got.get('kind') != k:
        bad.append("outcome is %s, specification says %s" % (got.get('kind'), k))
        return bad
    if k in ('fatal', 'err') and got.get('err') != exp_out['err']:
        bad.append("error is %s, expected %s" % (got.get('err'), exp_out['err']))
    if exp_out.get('hold'):
        if site == 'stream' and not got.get('hold', True):
            bad.append("the failing header is consumed / parser state is modified before the error")
        if site != 'stream' and got.get('consumed') != 0:
            bad.append("the failing header is consumed (%s bytes)" % got.get('consumed'))
    if k in ('skip', 'values', 'stream', 'done', 'params-continue', 'start-request'):
        want_pl = exp_out.get('payload', 'content_length')
        if k == 'done':
            want_pl = 0
        if k == 'start-request':
            want_pl = 0
        if got.get('payload') != want_pl:
            bad.append("remaining payload is set to %s, expected %s" % (got.get('payload'), want_pl))
        if got.get('padding') != 'padding_length':
            bad.append("remaining padding is set to %s, expected the header's padding_length" % got.get('padding'))
        if 'next' in exp_out and got.get('next') != exp_out['next']:
            bad.append("continues in state %s, expected %s" % (got.get('next'), exp_out['next']))
        if site == 'stream' and got.get('consumed') != 'header':
            bad.append("the header is not consumed")
        if site != 'stream' and k != 'params-continue':
            want_c = 16 if (k == 'start-request' or exp_out.get('payload') == 0 and k == 'skip') else 8
            if got.get('consumed') != want_c:
                bad.append("%s bytes are consumed, expected %d" % (got.get('consumed'), want_c))
    if site != 'stream' and k in ('skip', 'values', 'done', 'params-continue', 'start-request') and got.get('flow') != 'Continue':
        # Break hands control back to the caller: whatever follows in the same chunk would wait for the next read (which may never come)
        bad.append("the drive stops (%s) although the record was handled and input may remain; only need-more and fatal outcomes may stop" % got.get('flow'))
    if k == 'values' and site == 'stream' and not got.get('vars_empty'):
        bad.append("GetValues does not start from an empty variable set")
    if k == 'start-request' and not (got.get('id_from_wire') and got.get('body_from_wire')):
        bad.append("the new Request is not built from the wire id and the BeginRequest body")
    if site == 'stream' and d.replies and not got.get('counted'):
        bad.append("Status.output is not increased by the length of the appended reply")
    return bad


def r4_1_tables(rep, facts):
    sites = dispatch.find_sites(facts)
    if set(sites) != {'header', 'params', 'stream'}:
        rep.undecidable("R4.1", "sites", "expected three header-dispatch sites, found %s" % sorted(sites))
        return sites
    for site, body in sorted(sites.items()):
        g, rows = dispatch.site_rows(facts, body)
        hit = set()
        n = 0
        if site == 'stream':
            # the result value of the "header still incomplete" path (no field is written on it) is the stop verdict
            stops = set()
            for d in rows:
                r0 = ir.peel(d.raw_ret)
                if variant_of(r0) == 'Ok' and not d.replies and not any(pl[0] == 'field' for (pl, val, nd, s_) in d.row.writes) and 'decode' not in d.atoms:
                    tk = flow_token(r0)
                    if tk is not None:
                        stops.add(tk)
            if len(stops) == 1:
                st_tok = next(iter(stops))
                for d in rows:
                    d.stop_token = st_tok
        for d in rows:
            A = dict(d.atoms)
            if site == 'stream' and 'have_header' not in A:
                # `past_head > free_start`
                for (txt, lab) in d.extra_conds:
                    if txt.startswith("Gt(Add") and "free_start" in txt:
                        A['have_header'] = not dispatch.label_truth(lab)
            if 'have_header' not in A and 'decode' not in A:
                continue   # framing paths before the header is looked at (payload / padding handling)
            A.setdefault('have_header', True)
            try:
                cases = oracle_all(site, A)
            except Need as e:
                rep.violation("R4.1", "%s/untested[%s]" % (site, e.atom),
                              "a dispatch path decides without testing `%s` (atoms seen: %s)" % (e.atom, A), body.loc())
                continue
            got = outcome_stream(d) if site == 'stream' else outcome_request(d, site)
            for (B, leaf, exp_replies, exp_out) in cases:
                hit.add(leaf)
                n += 1
                bad = compare(exp_replies, exp_out, d, got, site)
                key = "%s/%s" % (site, leaf)
                if bad:
                    rep.violation("R4.1", key, "; ".join(bad) + " (atoms %s%s)" % (A, "" if B == A else ", input class %s" % B), body.loc())
                else:
                    rep.ok("R4.1", key, "%s => replies %s, outcome %s" % (B, [dict(t).get('ctor') for t in d.replies] or "none", exp_out['kind']), body.loc())
        missing = LEAVES[site] - hit
        for m in sorted(missing):
            rep.violation("R4.1", "%s/%s/missing" % (site, m), "no path of the %s dispatch implements the specification case `%s`" % (site, m), body.loc())
        rep.floor("R4.1", "%s dispatch rows" % site, n, len(LEAVES[site]))
    return sites


def r4_3_append_only(rep, facts):
    """Reply buffers are only appended to (dispatch sites, write_response), cleared at the documented points,
    or trimmed from the front by consume_output."""
    allowed_mut = {
        "parser::request::Parser::parse": {"clear"},
        "parser::request::Parser::into_stream_parser": {"clear"},
        "parser::stream::Parser::consume_output": {"clear"},
    }
    n = 0
    for b in facts.bodies:
        if not b.npath.startswith("parser::") or b.promoted:
            continue
        r = ir.Resolver(b)
        for bi, blk in enumerate(b.blocks):
            t = blk["t"]
            if t["k"] != "call" or "path" not in t["func"] or t.get("sp", {}).get("n"):
                continue
            name = F.norm(t["func"]["res"]["path"] if t["func"].get("res") else t["func"]["path"])
            if not (name.startswith("std::vec::Vec::") or name.startswith("<std::vec::Vec as")):
                continue
            if not t["args"]:
                continue
            recv = ir.peel(r.operand(t["args"][0], (bi, -1)))
            is_out = (recv[0] == 'field' and recv[2] == 'output') or (recv[0] == 'param' and recv[2] == 'out')
            if not is_out:
                continue
            m = name.split("::")[-1]
            n += 1
            loc = "%s:%d" % (t["sp"]["f"], t["sp"]["l"])
            key = "%s/%s" % (b.npath, m)
            if m in ("extend", "extend_from_slice", "len", "is_empty", "deref", "index", "as_slice", "capacity", "deref_mut", "index_mut", "reserve"):
                rep.ok("R4.3", key, "append / read-only access", loc)
            elif m in allowed_mut.get(b.npath, set()) or (m == "truncate" and b.npath in allowed_mut and len(t["args"]) > 1
                                                          and ir.const_value(r.operand(t["args"][1], (bi, -1))) == 0):
                rep.ok("R4.3", key, "documented reset point", loc)
            else:
                rep.violation("R4.3", key, "the reply buffer is modified by %s outside the documented reset points" % m, loc)
    rep.floor("R4.3", "accesses to reply buffers", n, 8)


def nv_bounded(facts, owner_npath):
    """E8: at every NVIter::new(slice) reachable in the function that answers GetValues, the slice is no longer than the record's
    remaining payload (self.payload_rem at that point).  -> (number of decoder constructions seen, [(text, trace)] failures)"""
    import regions as R
    from . import c03
    cs = dict(c03._contracts())
    seen = []
    bad = []

    def c_nv_new(it, st, args, dty):
        L = it.slice_len(args[0], st["ctx"])
        pr = st["heap"].get("payload_rem")
        seen.append(1)
        if L is None or not isinstance(pr, R.Lin):
            bad.append(("the decoder's input length or the remaining payload is not tracked", list(st["trace"])))
        elif not st["ctx"].le(L, pr):
            bad.append(("the decoder is given %s byte(s) while %s remain of the record's payload" % (L, pr), list(st["trace"])))
        return ('nvit', L) if L is not None else it.opaque()
    cs["protocol::nv::NVIter::new"] = c_nv_new
    b = facts.body(owner_npath)
    if owner_npath.startswith("parser::stream::"):
        it = R.Interp(facts, c03.CURSORS, len_of="buffer", inline={c03.SP + "::is_record_boundary"}, contracts={k: v for k, v in cs.items() if k != owner_npath})
    else:
        it = R.Interp(facts, [], len_of=None, contracts=cs)
    it.pre_fields = [("payload_rem", "u16"), ("padding_rem", "u8")]
    it.run(b)
    return len(seen), bad


def r4_2_getvalues(rep, facts):
    """write_response is reached only when the rest of the body is available and the body is non-empty;
    the name-value decoder is given at most the record's remaining payload."""
    sites = [(b, bi, t) for (b, bi, t, name) in F.calls_to(facts, lambda n: n == "protocol::vars::ProtocolVariables::write_response")
             if b.npath.startswith("parser::")]
    rep.floor("R4.2", "write_response call sites in the parsers", len(sites), 2)
    # a site inside a helper that is new relative to the pinned tree is analysed in the function(s) calling the helper
    from . import common as _common0
    owner_bodies = []
    for (b, bi, t) in sites:
        for ow in sorted(_common0.owners(facts, b.npath)):
            ob = facts.body(ow)
            if ob not in owner_bodies:
                owner_bodies.append(ob)
    for b in owner_bodies:
        g = ieg.IEG(facts, b, inline_filter=lambda x: False)
        rows = paths.rows(g, max_paths=30000)
        reach = [r for r in rows if r.called("protocol::vars::ProtocolVariables::write_response")]
        ok_complete = True
        ok_nonempty = True
        ok_bounded = True
        ok_once = True
        for r in reach:
            conds = [(ir.peel(e, casts=False), lab) for (e, lab, n) in r.conds]
            # complete: the path passed `len(data) < payload_rem` (or raw_len < payload_rem) on its false edge
            comp = False
            nonempty = False
            for (e, lab) in conds:
                # the fact `payload_rem <= available` holds on this edge, however the test is spelled
                fact = ir.cmp_fact(e, lab)
                if fact is not None and fact[0] == 'le' and any(y[0] == 'field' and y[2] == 'payload_rem' for y in ir.walk(fact[1])) \
                        and not any(y[0] == 'bin' for y in ir.walk(ir.peel(fact[1]))):
                    left = ir.peel(fact[2])
                    if left[0] == 'field' and ir.peel(left[1])[0] == 'bin':
                        left = ir.peel(left[1])
                    avail = False
                    if left[0] == 'call' and left[1].endswith("::len") and ir.peel(left[2][0])[0] == 'param':
                        avail = True      # data.len()
                    if left[0] == 'bin' and left[1].startswith('Sub'):
                        a, b2 = ir.peel(left[2]), ir.peel(left[3])
                        avail = a[0] == 'field' and a[2] == 'free_start' and b2[0] == 'field' and b2[2] == 'raw_start'
                    if avail:
                        comp = True
                if e[0] == 'bin' and e[1] == 'Gt' and any(y[0] == 'field' and y[2] == 'payload_rem' for y in ir.walk(e[2])) and cv(e[3]) == 0:
                    if dispatch.label_truth(lab):
                        nonempty = True
            ok_complete = ok_complete and comp
            # the stream parser's payload step is only entered under `payload_rem > 0` by its caller: accept a dominating test in the caller
            ok_nonempty = ok_nonempty and (nonempty or b.npath.startswith("parser::stream::"))
            if len(r.called("protocol::vars::ProtocolVariables::write_response")) != 1:
                ok_once = False
            # after the reply, the record's payload is marked consumed on the same path
            w = {pl[2]: val for (pl, val, n, s_) in r.writes if pl[0] == 'field'}
            if b.npath.startswith("parser::request::") and cv(w.get('payload_rem', ('x',))) != 0:
                ok_once = False
        key = b.npath
        if not reach:
            rep.undecidable("R4.2", key + "/reach", "no path reaches write_response", b.loc())
            continue
        if ok_complete:
            rep.ok("R4.2", key + "/complete-body", "GetValuesResult is emitted only on the false edge of `available < payload_rem` (whole remaining body present)", b.loc())
        else:
            rep.violation("R4.2", key + "/complete-body", "a reply can be emitted while part of the GetValues body is still outstanding", b.loc())
        # decided on values (E8) in the pinned-tree function on whose behalf this code runs
        from . import common as _common
        nb_seen, nb_bad = 0, []
        for ow in sorted(_common.owners(facts, b.npath)):
            ns_, nb_ = nv_bounded(facts, ow)
            nb_seen += ns_
            nb_bad += nb_
        if nb_bad:
            rep.violation("R4.2", key + "/decoder-bounded", "the name-value decoder is given bytes beyond the record's payload (reply would depend on read chunking): %s" % nb_bad[0][0], b.loc(), path=nb_bad[0][1][-8:])
        elif not nb_seen:
            rep.undecidable("R4.2", key + "/decoder-bounded", "no construction of the name-value decoder was interpreted", b.loc())
        else:
            rep.ok("R4.2", key + "/decoder-bounded", "at every construction of the name-value decoder its input is no longer than self.payload_rem (E8, %d path(s))" % nb_seen, b.loc())
        if ok_once and ok_nonempty:
            rep.ok("R4.2", key + "/once", "exactly one reply on the completing path, only for a non-empty body; the payload is marked consumed", b.loc())
        else:
            rep.violation("R4.2", key + "/once", "the reply is not emitted exactly once per non-empty GetValues body", b.loc())
    # the stream parser's payload step runs only under payload_rem > 0
    pb = facts.body("parser::stream::Parser::parse")
    g = ieg.IEG(facts, pb, inline_filter=lambda x: x.npath.startswith("parser::stream::Parser::"))
    import events as E

    def eff(n, m, lab):
        gens, kills = set(), set()
        if n.term["k"] == "switch" and n.frame is g.root:
            de = g.resolve(n.frame, n.term["discr"], (n.bb, -1))
            x = ir.peel(de, casts=False)
            if x[0] == 'bin' and x[1] == 'Gt' and ir.peel(x[2])[0] == 'field' and ir.peel(x[2])[2] == 'payload_rem' and cv(x[3]) == 0:
                if dispatch.label_truth(lab):
                    gens.add("PL")
        return gens, kills
    from .common import must_dataflow
    md = must_dataflow(g, frozenset(), eff)
    bad = False
    nwr = 0
    for n in g.all_nodes():
        if n.term["k"] == "call" and g.callee(n) == "protocol::vars::ProtocolVariables::write_response":
            nwr += 1
            if "PL" not in md.get(n.key, frozenset()):
                bad = True
    if nwr and not bad:
        rep.ok("R4.2", "parser::stream::Parser::parse/nonempty-body", "the payload step (and with it the GetValues reply) is only reached under payload_rem > 0", pb.loc())
    else:
        rep.violation("R4.2", "parser::stream::Parser::parse/nonempty-body", "a GetValuesResult can be emitted for an empty body", pb.loc())


def r4_4_counts(rep, facts):
    """Stream parser: Status.output grows by exactly what was appended (write_response's return value)."""
    b = facts.body("parser::stream::Parser::parse_payload", required=False)
    sites = F.calls_to(facts, lambda n: n == "protocol::vars::ProtocolVariables::write_response")
    for (bb, bi, t, name) in sites:
        if not bb.npath.startswith("parser::stream::"):
            continue
        g = ieg.IEG(facts, bb, inline_filter=lambda x: False)
        ok = True
        n = 0
        for r in paths.rows(g, max_paths=30000):
            if not r.called(name):
                continue
            n += 1
            from .c02 import status_write
            sw = status_write(r, 'output')
            ro = [sw] if sw is not None else []
            if not ro or not any(x[0] == 'call' and x[1] == name for x in ir.walk(ro[0])):
                ok = False
        if ok and n:
            rep.ok("R4.4", bb.npath + "/getvalues-count", "res.output += write_response(..) on every path that emits the reply", bb.loc())
        else:
            rep.violation("R4.4", bb.npath + "/getvalues-count", "the GetValuesResult bytes are not added to Status.output", bb.loc())
    # write_response returns out.len() - start
    wb = facts.body("protocol::vars::ProtocolVariables::write_response")
    g = ieg.IEG(facts, wb, inline_filter=lambda x: False)
    rows = [r for r in paths.rows(g, max_paths=30000, max_visits=2) if r.end == 'return' and r.ret is not None]
    good = 0
    for r in rows:
        e = ir.peel(r.ret)
        if e[0] == 'field' and ir.peel(e[1])[0] == 'bin':
            e = ir.peel(e[1])
        if e[0] == 'bin' and e[1].startswith('Sub') and ir.peel(e[2])[0] == 'call' and ir.peel(e[2])[1].endswith("::len") and \
                ir.peel(e[3])[0] == 'call' and ir.peel(e[3])[1].endswith("::len"):
            good += 1
    if rows and good == len(rows):
        rep.ok("R4.4", "write_response/returns-appended-length", "returns out.len() - start on all %d paths" % len(rows), wb.loc())
    else:
        rep.violation("R4.4", "write_response/returns-appended-length", "the returned count is not out.len() - start", wb.loc())


def r4_5_state_writers(rep, facts):
    """Outside the header dispatch, the stream parser's record state may only be demoted Stream -> Skip: a pending
    GetValues body (state Values) can never be discarded by another API."""
    sites = dispatch.find_sites(facts)
    disp = sites.get('stream')
    st_discr = facts.enum_discr("parser::stream::State") if "parser::stream::State" in facts.adts else {}
    n = 0
    # helpers introduced by a later edit that only the dispatch site calls (directly or through one another) are part of it: the
    # dispatch tables (R4.1) are extracted with them inlined, so their state writes are judged there
    part_of_dispatch = set()
    if disp is not None:
        callers = {}
        for (cb, cbi, t_, nm_) in F.calls_to(facts, lambda n_: n_.startswith("parser::stream::")):
            callers.setdefault(nm_, set()).add(cb.npath.split("::{closure")[0])
        changed = True
        while changed:
            changed = False
            for nm_, cs_ in callers.items():
                if nm_ not in part_of_dispatch and facts.is_new_helper(nm_) and cs_ and all(c == disp.npath or c in part_of_dispatch for c in cs_):
                    part_of_dispatch.add(nm_)
                    changed = True
    for b in facts.bodies:
        if b.promoted or b is disp or not b.npath.startswith("parser::stream::") or b.npath in part_of_dispatch:
            continue
        has = any(st["k"] == "assign" and any(el.get("n") == "state" and F.norm(el.get("of", "")) == "parser::stream::Parser" for el in st["place"].get("p", []))
                  for blk in b.blocks for st in blk["st"])
        if not has:
            continue
        g = ieg.IEG(facts, b, inline_filter=lambda x: False)
        for r in paths.rows(g, max_paths=20000):
            for (pl, val, nd, s_) in r.writes:
                if pl[0] == 'field' and pl[2] == 'state' and ir.peel(pl[1])[0] == 'param':
                    n += 1
                    v = ir.peel(val)
                    to = v[2].split("::")[-1] if v[0] == 'agg' else '?'
                    guarded = False
                    for (e, lab, cn) in r.conds:
                        pe = ir.peel(e)
                        if pe[0] == 'discr' and ir.peel(pe[1])[0] == 'field' and ir.peel(pe[1])[2] == 'state':
                            if isinstance(lab, tuple) and lab[0] == 'case' and facts.variant_name("parser::stream::State", lab[1]) == 'Stream':
                                guarded = True
                    loc = "%s:%d" % (s_["sp"]["f"], s_["sp"]["l"])
                    if to == 'Skip' and guarded:
                        rep.ok("R4.5", b.npath + "/state-write", "state <- Skip only under state == Stream", loc)
                    else:
                        rep.violation("R4.5", b.npath + "/state-write", "the record state is overwritten with %s without being in state Stream: a partly received GetValues body would lose its reply" % to, loc)
    # constructor initial state
    if n == 0:
        rep.undecidable("R4.5", "state-writers", "no writer of the record state found outside the dispatch site")


def r4_6_fresh_yield(rep, facts):
    """R4.6: what a call of request::Parser::parse yields toward the client is what *this* call appended: the reply buffer is cleared on
    every path before the state machine is driven and before anything is yielded (instance of C03 R3.2, re-evaluated) -- a return that
    skips the clear hands the previous call's replies out a second time."""
    import check
    from . import c03
    sr = check.Report("tmp", "quick")
    c03.run(sr, facts)
    n = 0
    for i in sr.instances:
        if i["rule"] == "R3.2" and i["instance"].startswith("parse/clear-then-drive"):
            n += 1
            (rep.ok if i["status"] == "ok" else rep.violation)("R4.6", i["instance"], i["detail"], i["loc"])
    rep.floor("R4.6", "yield paths of request::Parser::parse", n, 1)


def r4_7_exact_names(rep, facts):
    """R4.7: which variables a GetValues body asks for is decided by *exact* name match: ProtocolVariables::parse_name reaches the flag set only
    through the generated `from_name` (one flag per exact spelling).  Every other way into the type -- the flags' text parser (`str::parse` /
    `FromStr`: trims, accepts `A | B` lists and `0x..` literals), `from_bits*`, a struct literal -- makes names that are not FastCGI
    variables elicit entries nobody asked for."""
    PN = "protocol::vars::ProtocolVariables::parse_name"
    b = facts.body(PN)

    def paths_in(x, out):
        if isinstance(x, dict):
            for k, v in x.items():
                if k in ("path", "fn") and isinstance(v, str):
                    out.add(F.norm(v))          # a callee, or a function item passed on (`.and_then(Self::from_name)`)
                elif k == "adt" and isinstance(v, str) and x.get("k") == "agg":
                    out.add("construct " + F.norm(v))
                paths_in(v, out)
        elif isinstance(x, list):
            for v in x:
                paths_in(v, out)
    refs = set()
    n_bodies = 0
    for bb in facts.bodies:
        if bb.promoted or not (bb is b or bb.path.startswith(b.path + "::{closure")):
            continue
        n_bodies += 1
        paths_in(bb.blocks, refs)
    # helpers introduced by a later edit are looked into
    for r_ in list(refs):
        if facts.is_new_helper(r_):
            for hb in facts.by_npath.get(r_, []):
                paths_in(hb.blocks, refs)
    lookups = {r_ for r_ in refs if r_.split("::")[-1] == "from_name" and r_.startswith("protocol::vars::")}
    foreign = {r_ for r_ in refs if (r_.startswith("protocol::vars::") and r_ not in lookups and not facts.is_new_helper(r_) and r_ != PN)
               or r_.endswith("str::parse") or "FromStr" in r_ or r_.startswith("construct protocol::vars::") or "bitflags::parser" in r_}
    if foreign:
        rep.violation("R4.7", "parse_name/exact-match", "a queried name reaches the variable set through %s, not only through the exact-name lookup from_name" % sorted(foreign), b.loc())
    elif not lookups:
        rep.undecidable("R4.7", "parse_name/exact-match", "parse_name does not use the generated from_name lookup (references: %s)" % sorted(refs), b.loc())
    else:
        rep.ok("R4.7", "parse_name/exact-match", "a name selects a variable only through from_name (exact spelling); %d body/bodies scanned" % n_bodies, b.loc())
    # both parsers collect the queried variables through parse_name and nothing else
    n = 0
    for (cb, bi, t, nm) in F.calls_to(facts, lambda x: x == PN):
        n += 1
    if n < 1:
        rep.undecidable("R4.7", "parse_name/callers", "no caller of parse_name found")


def run(rep, facts):
    rep.rule("R4.7", "the variables a GetValues query selects are found by exact name match only: parse_name reaches ProtocolVariables through the generated from_name lookup, never through the flags' text parser, from_bits or a literal")
    rep.rule("R4.6", "every call of request::Parser::parse clears the reply buffer before it drives the state machine or yields: the bytes a call reports are the bytes it appended, and no reply is handed out twice (R3.2)")
    rep.rule("R4.5", "outside the header dispatch the stream parser's record state is only demoted Stream -> Skip (a pending GetValues body cannot be discarded)")
    rep.rule("R4.1", "the decision tables of the three header-dispatch sites equal the FastCGI specification oracle row by row: who is answered, with which record / status / id, exactly one append per owed row and none otherwise, next state, consumption of the header, sibling agreement")
    rep.rule("R4.2", "GetValuesResult only when the whole remaining body is present, once, for a non-empty body; the name-value decoder is bounded by the record's payload")
    rep.rule("R4.3", "reply buffers are append-only except at the documented reset points and consume_output's prefix removal")
    rep.rule("R4.4", "reported output counts equal the appended bytes (stream parser: res.output += len(appended record) / write_response's result)")
    import check
    check.guard(rep, "R4.1", r4_1_tables, facts)
    check.guard(rep, "R4.2", r4_2_getvalues, facts)
    check.guard(rep, "R4.3", r4_3_append_only, facts)
    check.guard(rep, "R4.4", r4_4_counts, facts)
    check.guard(rep, "R4.5", r4_5_state_writers, facts)
    check.guard(rep, "R4.6", r4_6_fresh_yield, facts)
    check.guard(rep, "R4.7", r4_7_exact_names, facts)


def main(rep, tier):
    f = F.load(("async", "http"))
    rep.configs.append({"features": "async,http", "profile": "debug", "bodies": len(f.bodies)})
    run(rep, f)
    return rep.finish(
        "Decision tables of the three header-dispatch sites extracted by path enumeration and compared with a specification oracle; "
        "GetValues reply conditions; append-only discipline and byte-count pairing of the reply buffers.",
        not_decided="which variables a GetValues body split at an arbitrary offset contributes (name-value prefix-monotonicity is value-level, C16); interleaving arithmetic of consume_output(k)")
