"""C06 — documented buffer bound suffices; lack of space is reported, never waited on (R6.1–R6.3)."""
import check
import facts as F
import ir
import ieg
import paths
from .c17 import variant_of, agg_field, cv, nonconst_conds, case_value, SPEC
from .c05 import rows_of, self_field, position_of_call

RP = "parser::request::Parser"
SP = "parser::stream::Parser"


def run(rep, facts):
    rep.rule("R6.1", "both parsers allocate their buffer as vec![0; config.aligned_bufsize()]")
    rep.rule("R6.2", "request::Parser::parse: StuckOnInput is stored exactly when, after the drive and the compaction, the parser is not done and input_len == input.len(); a not-done return always passes the false edge of that comparison (hence offers a non-empty input buffer)")
    rep.rule("R6.3", "aligned_bufsize: on every return path the result is >= buffer_size, >= 24 and a multiple of 8 (E8: linear forms, alignment masks as rounding; the documented exception is usize::MAX when buffer_size + 7 overflows)")

    rep.rule("R6.4", "ParamsState::drive: the payload is handed to parse_stream with rec_end = false exactly on the true edge of `data.len() < payload_rem` (these two operands, nothing else) and then unsliced; on the false edge it is data.split_at_mut(payload_rem).0 with rec_end = true (so a fragment at the end of a record never waits in the input buffer for the padding)")
    rep.rule("R6.5", "record-end buffering: whenever rec_end is set, parse_stream / parse_buffered move every unparsed payload byte into the heap-side pair buffer and report the whole slice consumed; without rec_end they return the unparsed remainder untouched")

    # ---- R6.1 ---------------------------------------------------------------------------------------------
    ALIGN = getattr(facts, "role_paths", {}).get("Config::aligned_bufsize", "Config::aligned_bufsize")     # found by role: may live outside `impl Config`
    for P in (RP, SP):
        b, g, rows = rows_of(facts, P + "::new")
        ok = False
        for r in rows:
            if r.end != 'return':
                continue
            fe = [c for c in r.calls if c[0].endswith("from_elem")]
            for c in fe:
                n = ir.peel(c[1][1])
                if cv(c[1][0]) == 0 and n[0] == 'call' and n[1] == ALIGN and n[2]:
                    a0 = ir.peel(n[2][0])
                    # `config.aligned_bufsize()` or the same helper as an associated function of `config.buffer_size`
                    if a0[0] == 'param' or (a0[0] == 'field' and a0[2] == 'buffer_size' and ir.peel(a0[1])[0] == 'param'):
                        ok = True
        if ok:
            rep.ok("R6.1", P.split("::")[-2] + "::new", "buffer = vec![0; config.aligned_bufsize()]", b.loc())
        else:
            rep.violation("R6.1", P.split("::")[-2] + "::new", "the parser buffer is not allocated with config.aligned_bufsize() zero bytes", b.loc())

    # ---- R6.2 ---------------------------------------------------------------------------------------------
    b, g, rows = rows_of(facts, RP + "::parse")
    st_d = facts.enum_discr("parser::request::State")
    n_rows = 0
    bad = []
    seen = set()
    for r in rows:
        if r.end != 'return' or r.ret is None:
            continue
        n_rows += 1
        ret = ir.peel(r.ret)
        done = cv(agg_field(ret, 'done'))
        if done is None and agg_field(ret, 'done') is not None:
            # `done: finished || stuck` with the flags kept as values: the value on this path is what the path's own tests of the same
            # expression decided
            de = ir.peel(agg_field(ret, 'done'))
            for (ce, clab, cn) in r.conds:
                if ir.peel(ce) == de and isinstance(clab, tuple):
                    tv = (clab[1] != 0) if clab[0] == 'case' else (True if clab[0] == 'otherwise' and 0 in clab[1] else None)
                    if tv is not None:
                        done = int(tv)
        pos_move = position_of_call(r, RP + "::move_input")
        pos_drive = position_of_call(r, "replace_with::replace_with_and_return")
        if pos_drive is None:
            pos_drive = position_of_call(r, "parser::request::State::drive")        # driven directly (state taken out with mem::replace)
        if pos_move is None and pos_drive is not None:
            # compaction written out in parse itself: it is complete where input_len receives the remainder's length
            # (what it stores is decided by R5.4 / R3.10)
            ws = [r.nodes.index(nd) for (pl, val, nd, s_) in r.writes if pl[0] == 'field' and pl[2] == 'input_len' and r.nodes.index(nd) > pos_drive]
            pos_move = max(ws) - 0.5 if ws else None      # a statement precedes its block's terminator
        pos_clear = position_of_call(r, "std::vec::Vec::clear")
        if pos_drive is None:
            # a path that does not drive at all: outside this clause iff the parser was already finished when the call began (the statement
            # speaks of "a request parser that has not finished"); what such a call must still do is C03's / C05's subject (R3.2, R5.6)
            fin = None
            for (e, lab, n_) in r.conds:
                pe = ir.peel(e, casts=False)
                if pe[0] == 'discr' and self_field(pe[1], 'state'):
                    if case_value(lab) is not None:
                        fin = facts.variant_name("parser::request::State", case_value(lab)) in ("Done", "Fatal")
                    break
            if fin and done == 1 and not any(pl[2] == 'state' for (pl, val, nd, s_) in r.writes):
                n_rows -= 1
                continue
        if pos_move is None or pos_drive is None or pos_clear is None or not (pos_clear < pos_drive < pos_move):
            bad.append("a return path does not clear the output, drive the state machine and compact the input, in this order")
            continue
        final = None      # is the state final (Done|Fatal) after the drive?
        full = None
        full_pos = None
        for i, n in enumerate(r.nodes):
            if n.term["k"] != "switch" or i >= len(r.labels):
                continue
        for (e, lab, n) in r.conds:
            pe = ir.peel(e, casts=False)
            idx = r.nodes.index(n)
            if pe[0] == 'discr' and self_field(pe[1], 'state') and idx > pos_move:
                if case_value(lab) is not None:
                    final = facts.variant_name("parser::request::State", case_value(lab)) in ("Done", "Fatal")
                else:
                    excl = {facts.variant_name("parser::request::State", v) for v in lab[1]}
                    final = False if {"Done", "Fatal"} <= excl else None
            if pe[0] == 'bin' and pe[1] == 'Eq' and idx > pos_move:
                a, b2 = ir.peel(pe[2]), ir.peel(pe[3])
                if self_field(a, 'input_len') and b2[0] == 'call' and b2[1].endswith("::len") and self_field(b2[2][0], 'input'):
                    full = (lab[0] == 'otherwise')
                    full_pos = idx
        stuck = [(pl, val) for (pl, val, nd, s_) in r.writes if pl[2] == 'state' and variant_of(val) == 'Fatal'
                 and variant_of(agg_field(ir.peel(val), 0)) == 'StuckOnInput']
        seen.add((final, full, bool(stuck), done))
        if final is None:
            bad.append("the final-state test after the drive is missing")
        elif final:
            if stuck or done != 1:
                bad.append("a final state must be reported as done without touching the state")
        else:
            if full is None:
                bad.append("a not-done return does not compare input_len with input.len() after the compaction")
            elif full and (not stuck or done != 1):
                bad.append("full buffer and not done, but StuckOnInput is not stored / done is not reported")
            elif not full and (stuck or done != 0):
                bad.append("StuckOnInput (or done) reported although the input buffer still has room")
    if bad:
        rep.violation("R6.2", "parse/stuck-detection", "; ".join(sorted(set(bad))), b.loc())
    elif {(True, None, False, 1), (False, True, True, 1), (False, False, False, 0)} <= seen:
        rep.ok("R6.2", "parse/stuck-detection", "final state => done; else input_len == input.len() (after move_input) <=> Fatal(StuckOnInput) stored and done; otherwise not done with room left (%d paths)" % n_rows, b.loc())
    else:
        rep.undecidable("R6.2", "parse/stuck-detection", "expected the three outcome classes, saw %s" % sorted(map(str, seen)), b.loc())
    # input_buffer() is exactly the free tail
    for P, lenf in ((RP, 'input_len'), (SP, 'free_start')):
        b2, g2, rows2 = rows_of(facts, P + "::input_buffer")
        ok = False
        for r in rows2:
            if r.end == 'return' and r.ret is not None:
                x = ir.peel(r.ret)
                if x[0] == 'call' and x[1].endswith("index_mut"):
                    rng = ir.peel(x[2][1])
                    if rng[0] == 'agg' and rng[2].endswith("RangeFrom") and self_field(dict(rng[3])['start'], lenf):
                        ok = True
        if ok:
            rep.ok("R6.2", P.split("::")[-2] + "::input_buffer", "input_buffer() = buffer[%s..]" % lenf, b2.loc())
        else:
            rep.violation("R6.2", P.split("::")[-2] + "::input_buffer", "input_buffer() is not the tail of the buffer after %s" % lenf, b2.loc())

    # ---- R6.3 ---------------------------------------------------------------------------------------------
    # decided on the values (engine E8), not on the shape of the expression: on every return path of aligned_bufsize
    import regions as R
    b = facts.body(ALIGN)
    it = R.Interp(facts)
    ends = it.run(b)
    want_min = SPEC["crate_documented"]["min_buffer"]
    bad = []
    classes = set()
    for e in ends:
        bs = e.heap.get("buffer_size")
        if bs is None and b.argc == 1 and isinstance(it.arg_env.get(1), R.Lin):
            bs = it.arg_env[1]          # written as an associated function of the configured size
        ret = e.ret
        if not isinstance(bs, R.Lin) or not isinstance(ret, R.Lin):
            bad.append(("the result is not a linear form of buffer_size", e.trace))
            continue
        if not e.ctx.le(bs, ret):
            bad.append(("the effective size can be smaller than the configured buffer_size", e.trace))
        if not e.ctx.le(want_min, ret):
            bad.append(("the effective size can be below the %d-byte protocol minimum" % want_min, e.trace))
        if it.multiple_of(ret, 8):
            classes.add("aligned")
        elif ret.is_const() and int(ret.c) == 2 ** 64 - 1 and e.ctx.ge0(bs + 7 - 2 ** 64):
            classes.add("overflow")     # documented corner: buffer_size + 7 does not fit into usize
        else:
            bad.append(("the effective size %s is not a multiple of 8" % ret, e.trace))
    if bad:
        rep.violation("R6.3", "aligned_bufsize", bad[0][0], b.loc(), path=bad[0][1])
    elif not ends or "aligned" not in classes:
        rep.undecidable("R6.3", "aligned_bufsize", "no aligned return path interpreted (%d paths)" % len(ends), b.loc())
    else:
        rep.ok("R6.3", "aligned_bufsize", "on all %d return paths: result >= buffer_size, >= %d, multiple of 8 (except usize::MAX when buffer_size + 7 overflows)" % (len(ends), want_min), b.loc())


def is_len_of(e, pred):
    e = ir.peel(e)
    return e[0] == 'call' and e[1].endswith("::len") and pred(e[2][0])


def is_param(e, name):
    e = ir.peel(e)
    return e[0] == 'param' and e[2] == name


def empty_array(e):
    e = ir.peel(e)
    return e[0] == 'agg' and e[1] == 'array' and len(e[3]) == 0


def _flag_token(e):
    """The record-end flag as a token: a bool constant, or a variant of a private two-variant enum that replaced the bool."""
    v = cv(e)
    if v is not None:
        return ('b', v)
    vn = variant_of(e)
    if vn is not None and not ir.peel(e)[3]:
        return ('v', vn, ir.peel(e)[2].rsplit("::", 1)[0])
    return None


def _rec_end_truth(facts, e, lab, complete_tok):
    """Is the record-end flag set on this edge?  `rec_end` itself (bool), or the discriminant of the enum that stands for it."""
    pe = ir.peel(e)
    if is_param(pe, 'rec_end'):
        return lab[0] == 'otherwise'
    if pe[0] == 'discr' and is_param(pe[1], 'rec_end') and complete_tok is not None and complete_tok[0] == 'v':
        adt = complete_tok[2]
        try:
            d = facts.enum_discr(adt)
        except Exception:
            return None
        if case_value(lab) is not None:
            return facts.variant_name(adt, case_value(lab)) == complete_tok[1]
        left = [k for k, v in d.items() if v not in lab[1]]
        if len(left) == 1:
            return left[0] == complete_tok[1]
    return None


def run_record_end(rep, facts):
    PS = "parser::request::ParamsState"
    PI = "parser::request::ParamsStateInner"
    toks = {}
    # ---- R6.4 ------------------------------------------------------------------------------------------
    b, g, rows = rows_of(facts, PS + "::drive")
    bad = []
    kinds = set()
    ncalls = 0
    for r in rows:
        cs = [c for c in r.calls if c[0] == PI + "::parse_stream"]
        if not cs:
            continue
        if len(cs) != 1:
            bad.append("more than one parse_stream call on one path")
            continue
        ncalls += 1
        c = cs[0]
        pos = r.nodes.index(c[2])
        flag = _flag_token(c[1][2])
        # the governing comparison: the last `len(data) < payload_rem` test before the call
        test = None
        for (e, lab, n) in r.conds:
            if r.nodes.index(n) > pos:
                break
            pe = ir.peel(e, casts=False)
            if pe[0] == 'bin' and pe[1] in ('Lt', 'Le', 'Gt', 'Ge') and any(
                    x[0] == 'call' and x[1].endswith("::len") for x in ir.walk(pe)):
                test = (pe, lab[0] == 'otherwise')
        if test is None:
            bad.append("a parse_stream call is not governed by a comparison of the available length")
            continue
        pe, taken = test
        exact = pe[1] == 'Lt' and is_len_of(pe[2], lambda x: is_param(x, 'data')) and self_field(pe[3], 'payload_rem')
        if not exact:
            bad.append("the payload-complete test is %s, not `data.len() < payload_rem`" % ir.show(pe)[:90])
            continue
        arg = ir.peel(c[1][1])
        if taken:
            kinds.add('partial')
            toks.setdefault('partial', set()).add(flag)
            if flag is None or flag == ('b', 1):
                bad.append("incomplete payload parsed with rec_end = true")
            if not is_param(arg, 'data'):
                bad.append("incomplete payload: parse_stream does not receive all available bytes (%s)" % ir.show(arg)[:60])
        else:
            kinds.add('complete')
            toks.setdefault('complete', set()).add(flag)
            if flag is None or flag == ('b', 0):
                bad.append("complete payload parsed with rec_end = false")
            okarg = arg[0] == 'field' and str(arg[2]) == '0' and ir.peel(arg[1])[0] == 'call' and ir.peel(arg[1])[1].endswith("split_at_mut") \
                and is_param(ir.peel(arg[1])[2][0], 'data') and self_field(ir.peel(arg[1])[2][1], 'payload_rem')
            if not okarg:
                bad.append("complete payload: parse_stream does not receive exactly the first payload_rem bytes (%s)" % ir.show(arg)[:60])
    complete_tok = next(iter(toks.get('complete', {None}))) if len(toks.get('complete', set())) == 1 else None
    if not bad and (len(toks.get('partial', set())) != 1 or complete_tok is None or toks['partial'] == toks['complete']):
        bad.append("complete and incomplete payloads are not told apart by the record-end flag (%s / %s)" % (sorted(map(str, toks.get('complete', []))), sorted(map(str, toks.get('partial', [])))))
    if bad:
        rep.violation("R6.4", "params-drive/record-end-flag", "; ".join(sorted(set(bad))), b.loc())
    elif kinds == {'partial', 'complete'}:
        rep.ok("R6.4", "params-drive/record-end-flag", "data.len() < payload_rem => parse_stream(data, false); else parse_stream(data[..payload_rem], true) (%d paths)" % ncalls, b.loc())
    else:
        rep.undecidable("R6.4", "params-drive/record-end-flag", "expected a partial and a complete call, saw %s" % sorted(kinds), b.loc())

    # ---- R6.5 parse_stream ---------------------------------------------------------------------------------
    b, g, rows = rows_of(facts, PI + "::parse_stream")
    bad = []
    n = 0
    classes = set()
    rty = b.locals[0].get("ty")
    as_tail = (rty.get("s", "") if isinstance(rty, dict) else str(rty)).lstrip().startswith("&")
    for r in rows:
        if r.end != 'return' or r.ret is None:
            continue
        n += 1
        rec = None
        rem_empty = None
        drained = False
        for (e, lab) in nonconst_conds(r):
            pe = ir.peel(e)
            if _rec_end_truth(facts, pe, lab, complete_tok) is not None:
                rec = _rec_end_truth(facts, pe, lab, complete_tok)
            elif pe[0] == 'call' and pe[1].endswith("is_empty") and any(x[0] == 'call' and x[1].endswith("into_inner") for x in ir.walk(pe)):
                rem_empty = (lab[0] == 'otherwise')
            elif pe[0] == 'call' and pe[1].endswith("is_empty") and self_field(pe[2][0], 'buffer'):
                pass
            elif pe[0] == 'call' and pe[1].endswith("is_empty") and pe[2] and (is_param(pe[2][0], 'data') or (
                    ir.peel(pe[2][0])[0] == 'call' and ir.peel(pe[2][0])[1] == PI + "::parse_buffered")):
                # an early exit for "nothing (left) to parse": the data not yet handed to the pair decoder is empty on the true edge
                if lab[0] == 'otherwise' or (lab[0] == 'case' and lab[1] != 0):
                    drained = True
            elif pe[0] == 'discr' and ir.peel(pe[1])[0] == 'call' and ir.peel(pe[1])[1].endswith("::next"):
                pass        # the pair decoder driven by an explicit loop instead of `extend(iterator)`
            else:
                bad.append("unexpected condition %s" % ir.show(pe)[:60])
        ext = [c for c in r.calls if (c[0].endswith("Extend>::extend") or c[0].endswith("Vec::extend_from_slice")) and self_field(c[1][0], 'buffer')]
        ret = ir.peel(r.ret, casts=False)
        if as_tail:
            # the result is the unconsumed tail of data (parse_buffered's convention): [] = everything consumed
            whole = empty_array(ret)
            part = not whole
            rem_src = ret
        else:
            whole = is_len_of(ret, lambda x: is_param(x, 'data'))
            part = ret[0] == 'bin' and ret[1] == 'Sub' and is_len_of(ret[2], lambda x: is_param(x, 'data')) and ir.peel(ret[3])[0] == 'call' and ir.peel(ret[3])[1].endswith("::len")
            rem_src = ir.peel(ir.peel(ret[3])[2][0]) if part and ir.peel(ret[3])[2] else None
        if drained and not ext and rec is not True:
            # nothing was left to decode: everything handed in counts as consumed (len, or len - 0)
            classes.add('drained')
            if not (whole or part):
                bad.append("nothing left to parse: the whole slice must be reported consumed")
        elif rec is True and rem_empty is False:
            classes.add('buffered')
            tail = ir.peel(ext[0][1][1]) if ext else None
            if len(ext) != 1 or not (tail[0] == 'call' and tail[1].endswith("into_inner")) or not whole:
                bad.append("record end with an unparsed remainder: the remainder is not moved into self.buffer and the whole slice reported consumed")
        elif rec is None and not ext:
            # still inside a buffered pair after parse_buffered
            classes.add('pending-pair')
            if not part or rem_src is None or not (ir.peel(rem_src)[0] == 'call' and ir.peel(rem_src)[1] == PI + "::parse_buffered"):
                bad.append("pending buffered pair: the consumed amount is not len - remainder returned by parse_buffered")
        else:
            classes.add('plain')
            if ext or not part or (as_tail and not any(x[0] == 'call' and x[1].endswith("into_inner") for x in ir.walk(ret))
                                   and not any(is_param(x, 'data') for x in ir.walk(ret))):
                bad.append("no record end / nothing left: expected consumed = len - unparsed remainder and no buffering")
    if bad:
        rep.violation("R6.5", "parse_stream/record-end-buffering", "; ".join(sorted(set(bad))), b.loc())
    elif classes - {'drained'} == {'buffered', 'pending-pair', 'plain'}:
        rep.ok("R6.5", "parse_stream/record-end-buffering", "rec_end && remainder non-empty => buffer.extend(remainder), consumed = len; otherwise consumed = len - remainder (%d paths)" % n, b.loc())
    else:
        rep.undecidable("R6.5", "parse_stream/record-end-buffering", "outcome classes seen: %s" % sorted(classes), b.loc())

    # ---- R6.5 parse_buffered ---------------------------------------------------------------------------------
    b, g, rows = rows_of(facts, PI + "::parse_buffered")
    bad = []
    n = 0
    cls = {}
    for r in rows:
        if r.end != 'return' or r.ret is None:
            continue
        n += 1
        cleared = [c for c in r.calls if c[0] == "std::vec::Vec::clear" and self_field(c[1][0], 'buffer')]
        ins = [c for c in r.calls if c[0].endswith("HashMap::insert")]
        rec = None
        for (e, lab) in nonconst_conds(r):
            if _rec_end_truth(facts, e, lab, complete_tok) is not None:
                rec = _rec_end_truth(facts, e, lab, complete_tok)
        ret = ir.peel(r.ret)
        ext = [c for c in r.calls if (c[0].endswith("Extend>::extend") or c[0].endswith("Vec::extend_from_slice")) and self_field(c[1][0], 'buffer')]
        if cleared:
            cls['complete'] = cls.get('complete', 0) + 1     # how the pair reaches the map is C01's business (R1.1 / R1.2)
            continue
        if rec is None:
            bad.append("an incomplete-pair return does not depend on rec_end")
        elif rec:
            cls['moved'] = cls.get('moved', 0) + 1
            # the last extend moves the current remainder of data
            if not ext or not empty_array(ret):
                bad.append("rec_end and the pair is incomplete: remaining bytes are not all moved into the pair buffer (return must be the empty slice after buffer.extend(data))")
            else:
                last = ir.peel(ext[-1][1][1])
                if not any(is_param(x, 'data') for x in ir.walk(last)):
                    bad.append("rec_end: what is appended to the pair buffer is not the data remainder")
        else:
            cls['kept'] = cls.get('kept', 0) + 1
            if empty_array(ret) or not any(is_param(x, 'data') for x in ir.walk(ret)):
                bad.append("no record end and the pair is incomplete: the remainder of data must be returned to the caller")
    if bad:
        rep.violation("R6.5", "parse_buffered/record-end-buffering", "; ".join(sorted(set(bad))), b.loc())
    elif set(cls) == {'complete', 'moved', 'kept'}:
        rep.ok("R6.5", "parse_buffered/record-end-buffering", "incomplete pair: rec_end => buffer.extend(data), return []; else return data; complete pair => pair buffer cleared (%s over %d paths)" % (cls, n), b.loc())
    else:
        rep.undecidable("R6.5", "parse_buffered/record-end-buffering", "outcome classes seen: %s" % cls, b.loc())


def run_getvalues_consumption(rep, facts):
    """R6.6: a partially received GetValues body is consumed pair by pair (only an incomplete trailing pair stays in the input buffer)."""
    rep.rule("R6.6", "GetValuesState::drive, body incomplete: the name-value decoder runs over the bytes available so far and the consumed amount is "
                     "len - (undecoded remainder); nothing waits in the input buffer for the rest of the record (maximal consumption per call)")
    b, g, rows = rows_of(facts, "parser::request::GetValuesState::drive")
    bad = []
    n = 0
    for r in rows:
        if r.end != 'return' or r.ret is None:
            continue
        incomplete = None
        for (e, lab) in nonconst_conds(r):
            fact = ir.cmp_fact(e, lab)

            def avail(x):
                # data.len(), or min(data.len(), payload_rem) (which is < payload_rem exactly when data.len() is)
                x = ir.peel(x)
                if x[0] == 'call' and x[1].endswith("::min") and len(x[2]) == 2:
                    return any(is_len_of(a_, lambda y: is_param(y, 'data')) for a_ in x[2])
                return is_len_of(x, lambda y: is_param(y, 'data'))
            if fact is not None and fact[0] in ('lt', 'le') and avail(fact[1] if fact[0] == 'lt' else fact[2]) \
                    and self_field(fact[2] if fact[0] == 'lt' else fact[1], 'payload_rem'):
                incomplete = (fact[0] == 'lt')      # data.len() < payload_rem   /  payload_rem <= data.len()
        if incomplete is not True:
            continue
        n += 1
        ret = ir.peel(r.ret)
        tup = ir.peel(agg_field(ret, 0)) if ret[0] == 'agg' else None
        rest = ir.peel(tup[3][0][1]) if tup is not None and tup[0] == 'agg' else None
        nv = r.called("protocol::nv::NVIter::new")
        ok = bool(nv) and rest is not None and rest[0] == 'call' and rest[1].endswith("index_mut")
        if ok:
            rng = ir.peel(rest[2][1])
            start = ir.peel(dict(rng[3]).get('start')) if rng[0] == 'agg' and rng[2].endswith("RangeFrom") else None
            # consumed = len - remaining, with `remaining` the decoder's undecoded tail
            ok = start is not None and any(y[0] == 'call' and y[1].endswith("NVIter::into_inner") for y in ir.walk(start))
        if not ok:
            bad.append("an incomplete GetValues body is not consumed up to the decoder's undecoded remainder")
    if bad:
        rep.violation("R6.6", "getvalues-drive/partial-consumption", "; ".join(sorted(set(bad))), b.loc())
    elif n:
        rep.ok("R6.6", "getvalues-drive/partial-consumption", "data.len() < payload_rem => decode what is there, return data[len - remaining ..] (%d path(s))" % n, b.loc())
    else:
        rep.undecidable("R6.6", "getvalues-drive/partial-consumption", "no path with an incomplete body found", b.loc())


def run_config_buffer_pairing(rep, facts):
    """R6.7: "the effective buffer is never smaller than the configured size": a parser's configuration and its buffer are established together.
    After construction nothing may replace the configuration of a parser without giving it the buffer that belongs to that configuration
    (a hand-written Clone::clone_from that keeps the old allocation "when it is big enough for the buffered bytes" does exactly that)."""
    rep.rule("R6.7", "a parser's `config` is never assigned after construction unless, on the same path, its buffer is replaced by a clone of the buffer of the parser "
                     "the configuration comes from")
    import paths
    n_w = 0
    for (P, buf) in ((RP, "input"), (SP, "buffer")):
        writers = {}
        for (b, bi, how, sp) in F.field_accesses(facts, P, "config"):
            if how == "write":
                writers[b.path] = b
        for b in writers.values():
            g = ieg.IEG(facts, b, inline_filter=lambda x: False)
            bad = None
            for r in paths.rows(g, max_paths=20000):
                if r.end != 'return':
                    continue
                w = {}
                for (pl, val, nd, s_) in r.writes:
                    if pl[0] == 'field' and ir.peel(pl[1])[0] == 'param':
                        w[str(pl[2])] = ir.peel(val)
                if 'config' not in w:
                    continue
                n_w += 1
                src = w['config']
                src_base = ir.peel(src[1]) if src[0] == 'field' else None
                okb = False
                if buf in w and src_base is not None:
                    v = w[buf]
                    okb = v[0] == 'call' and v[1].endswith("Clone>::clone") and v[2] and ir.peel(v[2][0])[0] == 'field' \
                        and ir.peel(v[2][0])[2] == buf and ir.peel(ir.peel(v[2][0])[1]) == src_base
                if not okb:
                    bad = "a path assigns `config` (%s) and keeps / rebuilds the buffer independently of it" % ir.show(src)[:40]
            key = "config-writer[%s]" % b.npath
            if bad:
                rep.violation("R6.7", key, bad + ": the effective buffer may then be smaller than the configured size", b.loc())
            else:
                rep.ok("R6.7", key, "every path that assigns `config` also installs a clone of the source parser's buffer", b.loc())
    if not n_w:
        rep.ok("R6.7", "config-writers", "no function assigns a parser's `config` after construction (constructors and the derived Clone build configuration and buffer together: R6.1)")


def main(rep, tier):
    f = F.load(("async", "http"))
    rep.configs.append({"features": "async,http", "profile": "debug", "bodies": len(f.bodies)})
    check.guard(rep, "R6", run, f)
    check.guard(rep, "R6.4", run_record_end, f)
    check.guard(rep, "R6.6", run_getvalues_consumption, f)
    check.guard(rep, "R6.7", run_config_buffer_pairing, f)
    rep.floor("R6", "rule instances", len([i for i in rep.instances if i["status"] == "ok"]), 9)
    return rep.finish(
        "Sentence 2 of the statement is decided outright as a path rule on request::Parser::parse (not done => room left, else StuckOnInput "
        "from that very call); allocation-size provenance; the alignment function decided on values (E8); record-end buffering discipline; configuration and "
        "buffer of a parser never separated after construction.",
        not_decided="sentence 1: that pairs within B-13 never cause StuckOnInput for any segmentation/chunking (arithmetic over runtime lengths); usize::MAX is not a multiple of 8 in the overflow corner (documented behaviour)")
