"""C06 — documented buffer bound suffices; lack of space is reported, never waited on (R6.1–R6.3)."""
import check
import facts as F
import ir
import ieg
import paths
from .c17 import variant_of, agg_field, cv, nonconst_conds, case_value, SPEC
from .c05 import rows_of, self_field, position_of_call

RP = "parser::request::Parser"
SP = "parser::stream::Parser"


def run(rep, facts):
    rep.rule("R6.1", "both parsers allocate their buffer as vec![0; config.aligned_bufsize()]")
    rep.rule("R6.2", "request::Parser::parse: StuckOnInput is stored exactly when, after the drive and the compaction, the parser is not done and input_len == input.len(); a not-done return always passes the false edge of that comparison (hence offers a non-empty input buffer)")
    rep.rule("R6.3", "aligned_bufsize = 24 if buffer_size <= 24, else (buffer_size + 7) & !7 with overflow mapped to usize::MAX: never below the configured size nor the 24-byte minimum, multiple of 8 (structure of the expression, not evaluated)")

    # ---- R6.1 ---------------------------------------------------------------------------------------------
    for P in (RP, SP):
        b, g, rows = rows_of(facts, P + "::new")
        ok = False
        for r in rows:
            if r.end != 'return':
                continue
            fe = [c for c in r.calls if c[0].endswith("from_elem")]
            for c in fe:
                n = ir.peel(c[1][1])
                if cv(c[1][0]) == 0 and n[0] == 'call' and n[1] == "Config::aligned_bufsize" and ir.peel(n[2][0])[0] == 'param':
                    ok = True
        if ok:
            rep.ok("R6.1", P.split("::")[-2] + "::new", "buffer = vec![0; config.aligned_bufsize()]", b.loc())
        else:
            rep.violation("R6.1", P.split("::")[-2] + "::new", "the parser buffer is not allocated with config.aligned_bufsize() zero bytes", b.loc())

    # ---- R6.2 ---------------------------------------------------------------------------------------------
    b, g, rows = rows_of(facts, RP + "::parse")
    st_d = facts.enum_discr("parser::request::State")
    n_rows = 0
    bad = []
    seen = set()
    for r in rows:
        if r.end != 'return' or r.ret is None:
            continue
        n_rows += 1
        ret = ir.peel(r.ret)
        done = cv(agg_field(ret, 'done'))
        pos_move = position_of_call(r, RP + "::move_input")
        pos_drive = position_of_call(r, "replace_with::replace_with_and_return")
        pos_clear = position_of_call(r, "std::vec::Vec::clear")
        if pos_move is None or pos_drive is None or pos_clear is None or not (pos_clear < pos_drive < pos_move):
            bad.append("a return path does not clear the output, drive the state machine and compact the input, in this order")
            continue
        final = None      # is the state final (Done|Fatal) after the drive?
        full = None
        full_pos = None
        for i, n in enumerate(r.nodes):
            if n.term["k"] != "switch" or i >= len(r.labels):
                continue
        for (e, lab, n) in r.conds:
            pe = ir.peel(e, casts=False)
            idx = r.nodes.index(n)
            if pe[0] == 'discr' and self_field(pe[1], 'state') and idx > pos_move:
                if case_value(lab) is not None:
                    final = facts.variant_name("parser::request::State", case_value(lab)) in ("Done", "Fatal")
                else:
                    excl = {facts.variant_name("parser::request::State", v) for v in lab[1]}
                    final = False if {"Done", "Fatal"} <= excl else None
            if pe[0] == 'bin' and pe[1] == 'Eq' and idx > pos_move:
                a, b2 = ir.peel(pe[2]), ir.peel(pe[3])
                if self_field(a, 'input_len') and b2[0] == 'call' and b2[1].endswith("::len") and self_field(b2[2][0], 'input'):
                    full = (lab[0] == 'otherwise')
                    full_pos = idx
        stuck = [(pl, val) for (pl, val, nd, s_) in r.writes if pl[2] == 'state' and variant_of(val) == 'Fatal'
                 and variant_of(agg_field(ir.peel(val), 0)) == 'StuckOnInput']
        seen.add((final, full, bool(stuck), done))
        if final is None:
            bad.append("the final-state test after the drive is missing")
        elif final:
            if stuck or done != 1:
                bad.append("a final state must be reported as done without touching the state")
        else:
            if full is None:
                bad.append("a not-done return does not compare input_len with input.len() after the compaction")
            elif full and (not stuck or done != 1):
                bad.append("full buffer and not done, but StuckOnInput is not stored / done is not reported")
            elif not full and (stuck or done != 0):
                bad.append("StuckOnInput (or done) reported although the input buffer still has room")
    if bad:
        rep.violation("R6.2", "parse/stuck-detection", "; ".join(sorted(set(bad))), b.loc())
    elif {(True, None, False, 1), (False, True, True, 1), (False, False, False, 0)} <= seen:
        rep.ok("R6.2", "parse/stuck-detection", "final state => done; else input_len == input.len() (after move_input) <=> Fatal(StuckOnInput) stored and done; otherwise not done with room left (%d paths)" % n_rows, b.loc())
    else:
        rep.undecidable("R6.2", "parse/stuck-detection", "expected the three outcome classes, saw %s" % sorted(map(str, seen)), b.loc())
    # input_buffer() is exactly the free tail
    for P, lenf in ((RP, 'input_len'), (SP, 'free_start')):
        b2, g2, rows2 = rows_of(facts, P + "::input_buffer")
        ok = False
        for r in rows2:
            if r.end == 'return' and r.ret is not None:
                x = ir.peel(r.ret)
                if x[0] == 'call' and x[1].endswith("index_mut"):
                    rng = ir.peel(x[2][1])
                    if rng[0] == 'agg' and rng[2].endswith("RangeFrom") and self_field(dict(rng[3])['start'], lenf):
                        ok = True
        if ok:
            rep.ok("R6.2", P.split("::")[-2] + "::input_buffer", "input_buffer() = buffer[%s..]" % lenf, b2.loc())
        else:
            rep.violation("R6.2", P.split("::")[-2] + "::input_buffer", "input_buffer() is not the tail of the buffer after %s" % lenf, b2.loc())

    # ---- R6.3 ---------------------------------------------------------------------------------------------
    b, g, rows = rows_of(facts, "Config::aligned_bufsize")
    outs = {}
    for r in rows:
        if r.end != 'return' or r.ret is None:
            continue
        conds = [(ir.peel(e, casts=False), lab) for (e, lab) in nonconst_conds(r)]
        small = None
        ovf = None
        for (e, lab) in conds:
            if e[0] == 'bin' and e[1] == 'Le' and self_field(e[2], 'buffer_size'):
                small = (lab[0] == 'otherwise', cv(e[3]))
            if e[0] == 'discr' and ir.peel(e[1])[0] == 'call' and ir.peel(e[1])[1].endswith("checked_add"):
                ca = ir.peel(e[1])
                if self_field(ca[2][0], 'buffer_size') and cv(ca[2][1]) == 7:
                    ovf = (case_value(lab) == 0)
        ret = ir.peel(r.ret, casts=False)
        if small and small[0]:
            outs['small'] = (small[1], cv(ret))
        elif small and ovf is True:
            outs['overflow'] = cv(ret)
        elif small and ovf is False:
            lhs = ir.peel(ret[2]) if ret[0] == 'bin' else ('x',)
            is_sum = lhs[0] == 'field' and lhs[1][0] == 'variant' and lhs[1][2] == 'Some' and ir.peel(lhs[1][1])[0] == 'call' and ir.peel(lhs[1][1])[1].endswith("checked_add")
            okm = ret[0] == 'bin' and ret[1] == 'BitAnd' and is_sum and \
                ((ir.peel(ret[3])[0] == 'un' and ir.peel(ret[3])[1] == 'Not' and cv(ir.peel(ret[3])[2]) == 7) or cv(ret[3]) == (2 ** 64 - 8))
            outs['aligned'] = okm
    want_min = SPEC["crate_documented"]["min_buffer"]
    if outs.get('small') == (want_min, want_min) and outs.get('overflow') == 2 ** 64 - 1 and outs.get('aligned') is True:
        rep.ok("R6.3", "aligned_bufsize", "buffer_size <= 24 => 24; checked_add(7) overflow => usize::MAX; otherwise (buffer_size + 7) & !7", b.loc())
    else:
        rep.violation("R6.3", "aligned_bufsize", "alignment rule is %s; expected {small: (24, 24), overflow: usize::MAX, aligned: (x+7) & !7}" % outs, b.loc())


def main(rep, tier):
    f = F.load(("async", "http"))
    rep.configs.append({"features": "async,http", "profile": "debug", "bodies": len(f.bodies)})
    check.guard(rep, "R6", run, f)
    rep.floor("R6", "rule instances", len([i for i in rep.instances if i["status"] == "ok"]), 6)
    return rep.finish(
        "Sentence 2 of the statement is decided outright as a path rule on request::Parser::parse (not done => room left, else StuckOnInput "
        "from that very call); allocation-size provenance and the shape of the alignment expression are checked structurally.",
        not_decided="sentence 1: that pairs within B-13 never cause StuckOnInput for any segmentation/chunking (arithmetic over runtime lengths); usize::MAX is not a multiple of 8 in the overflow corner (documented behaviour)")
