"""The request parser's input compaction ("move the unparsed remainder to the front"), decided on values by E8.

On the pinned tree this is the private method `move_input(rem_len)`, called once by `parse`.  A private helper is not
API: when it is written out inside `parse` the same obligations are decided there, with the remainder's length taken
from the contract of `replace_with_and_return` (the remainder is a sub-slice of `input[..input_len]`)."""
import facts as F
import regions as R

RP = "parser::request::Parser"
Lin = R.Lin


def _region_at(ctx, loc, a, b):
    (s, e) = loc
    return (ctx.eq(s, a) and ctx.eq(e, b)) or (ctx.eq(s, e) and ctx.eq(a, b))


def host(facts):
    """The body that owns the compaction: `move_input` when it exists, else the request-parser method copying inside
    `self.input`."""
    b = facts.body(RP + "::move_input", required=False)
    if b is not None and b.argc >= 1 and b.local_name(1) == "self":
        return b, False
    if b is not None:
        # the helper is an associated function of the buffer and the two lengths: decided in its caller, the helper looked through
        callers = {cb.npath: cb for (cb, bi, t, name) in F.calls_to(facts, lambda n: n == RP + "::move_input") if not cb.promoted}
        if len(callers) == 1:
            return list(callers.values())[0], True
    hosts = []
    for (cb, bi, t, name) in F.calls_to(facts, lambda n: n.endswith("copy_within")):
        if cb.npath.startswith(RP + "::") and not cb.promoted and cb not in hosts:
            hosts.append(cb)
    if len(hosts) != 1:
        raise F.MissingAnchor("no body named %s::move_input and %d request-parser bodies compacting the input" % (RP, len(hosts)))
    return hosts[0], True


def geometry(facts, contracts=None):
    """-> dict(body, hosted, interp, ends, bad=[(message, trace)])"""
    b, hosted = host(facts)
    if not hosted:
        it = R.Interp(facts, ["input_len"], len_of="input")
        it.init_regions = lambda ctx, heap, env: {"rem": (heap["input_len"] - env[2], heap["input_len"])}
        ends = it.run(b)
        rem_of = lambda e: e.args[0]
    else:
        def c_replace_with(it_, st, args, dty):
            # the closure returns State::drive's remainder, a `&'a mut [u8]` reborrowed from `&mut self.input[..input_len]`
            # (the only `'a` source in scope): a suffix of that slice
            n = it_.new_len("rem", st["ctx"])
            il = st["heap"].get("input_len")
            if isinstance(il, Lin):
                st["ctx"].add(il - n)
                st["regions"] = dict(st["regions"])
                st["regions"]["rem"] = (il - n, il)
                st["heap"]["@rem"] = n
            return ('slice', n)
        cs = dict(contracts or {})
        cs["replace_with::replace_with_and_return"] = c_replace_with

        def c_state_drive(it_, st, args, dty):
            v = c_replace_with(it_, st, args, dty)
            return ('tuple', [v, it_.opaque()])
        cs["parser::request::State::drive"] = c_state_drive
        it = R.Interp(facts, ["input_len"], len_of="input", contracts=cs, inline={RP + "::move_input"})
        ends = it.run(b)
        rem_of = lambda e: e.heap.get("@rem")
    bad = []
    for e in ends:
        ctx, h = e.ctx, e.heap
        il = h.get("input_len")
        rem = rem_of(e)
        if not (isinstance(il, Lin) and ctx.ge0(il) and ctx.le(il, Lin.sym("len(input)"))):
            bad.append(("input_len may exceed the buffer on return", e.trace))
        elif "rem" not in e.regions or rem is None:
            bad.append(("the unconsumed remainder of the drive is not tracked to the return", e.trace))
        elif not _region_at(ctx, e.regions["rem"], Lin(0), il):
            bad.append(("the unconsumed remainder is not at the front of the buffer (bytes at [%s, %s), input_len %s)" % (e.regions["rem"] + (il,)), e.trace))
        elif not ctx.eq(il, rem):
            bad.append(("input_len is not the remainder's length", e.trace))
    return {"body": b, "hosted": hosted, "interp": it, "ends": ends, "bad": bad}
