"""C18 — input stream sequencing follows the role's order exactly (R18.1–R18.5)."""
import check
import facts as F
import ir
import ieg
import paths
import dispatch
from . import c04
from .c17 import SPEC, variant_of, agg_field, cv, nonconst_conds, case_value

ROLE = "protocol::fields::Role"
RT = "protocol::fields::RecordType"
SP = "parser::stream::Parser"


def rows_of(facts, name, **kw):
    b = facts.body(name)
    g = ieg.IEG(facts, b, inline_filter=lambda x: False)
    return b, g, paths.rows(g, **kw)


def slice_elems(e):
    """Variant names of a constant `&[RecordType]` expression."""
    e = ir.peel(e)
    if e[0] == 'agg' and e[1] == 'array':
        return [variant_of(x) for (_, x) in e[3]]
    return None


def role_tables(facts):
    role_d = facts.enum_discr(ROLE)
    rt_d = facts.enum_discr(RT)
    out = {}
    for fn in ("input_streams", "output_streams"):
        b, g, rows = rows_of(facts, "%s::%s" % (ROLE, fn))
        tab = {}
        for r in rows:
            if r.end != 'return' or r.ret is None:
                continue
            el = slice_elems(r.ret)
            cs = [(ir.peel(e), lab) for (e, lab) in nonconst_conds(r)]
            if el is None:
                continue
            if not cs:
                for k in role_d:
                    tab[k] = el
            for (e, lab) in cs:
                if e[0] == 'discr' and case_value(lab) is not None:
                    tab[facts.variant_name(ROLE, case_value(lab))] = el
                elif e[0] == 'discr' and lab[0] == 'otherwise':
                    for k, v in role_d.items():
                        if v not in lab[1]:
                            tab[k] = el
        out[fn] = (b, tab)
    return out


def next_table(facts):
    """(role, current) -> next, from the decision table of next_input_stream."""
    b, g, rows = rows_of(facts, "%s::next_input_stream" % ROLE)
    role_d = facts.enum_discr(ROLE)
    rt_d = facts.enum_discr(RT)
    entries = []
    for r in rows:
        if r.end != 'return' or r.ret is None:
            continue
        cur = None      # 'None' | 'Some' ; curty: set of names
        roles = set(role_d)
        curtys = set(rt_d)
        for (e, lab) in nonconst_conds(r):
            pe = ir.peel(e)
            if pe[0] == 'call' and (pe[1].endswith("PartialEq>::eq") or pe[1].endswith("PartialEq>::ne")) and len(pe[2]) == 2 and isinstance(lab, tuple):
                # `self == Role::Filter` (derived equality of a fieldless enum) is the same test as a match arm
                vs = [variant_of(a) for a in pe[2]]
                tys = [ir.peel(a)[2].rsplit("::", 1)[0] if variant_of(a) else None for a in pe[2]]
                truth = (lab[0] == 'otherwise' or (lab[0] == 'case' and lab[1] != 0)) == pe[1].endswith("::eq")
                for v, ty in zip(vs, tys):
                    if v is None:
                        continue
                    if ty == ROLE:
                        roles = (roles & {v}) if truth else (roles - {v})
                    elif ty == RT:
                        curtys = (curtys & {v}) if truth else (curtys - {v})
                continue
            if pe[0] != 'discr':
                continue
            x = ir.peel(pe[1])
            ty = pe[2] if len(pe) > 2 else ""
            if ty == "std::option::Option":
                if case_value(lab) is not None:
                    cur = 'Some' if case_value(lab) == 1 else 'None'
                elif lab[0] == 'otherwise' and {0, 1} <= set(lab[1]):
                    cur = 'impossible'
            elif ty == ROLE:
                if case_value(lab) is not None:
                    roles &= {facts.variant_name(ROLE, case_value(lab))}
                else:
                    roles -= {facts.variant_name(ROLE, v) for v in lab[1]}
            elif ty == RT:
                if case_value(lab) is not None:
                    curtys &= {facts.variant_name(RT, case_value(lab))}
                else:
                    curtys -= {facts.variant_name(RT, v) for v in lab[1]}
        res = variant_of(r.ret)
        nxt = None if res == 'None' else variant_of(agg_field(r.ret, 0))
        entries.append((cur, roles, curtys, nxt))
    return b, entries


def next_by_table_lookup(facts, rows):
    """The other way to write next_input_stream: look the successor up in the role's own table --
    `input_streams(self).get(i).copied()` with i = 0 for no current stream and position(current) + 1 otherwise (a stream that is
    not in the table has no successor).  Agreement with the table then holds by construction.  -> None if that is what the rows do,
    else a description of what does not fit."""
    n = 0
    for r in rows:
        if r.end != 'return' or r.ret is None:
            continue
        ret = ir.peel(r.ret)
        cur_some = None
        for (e, lab) in nonconst_conds(r):
            pe = ir.peel(e)
            if pe[0] == 'discr' and ir.peel(pe[1])[0] == 'param' and ir.peel(pe[1])[2] == 'current' and case_value(lab) is not None:
                cur_some = case_value(lab) == 1
        def is_table(x):
            x = ir.peel(x)
            while x[0] == 'call' and (x[1].endswith("::iter") or x[1].endswith("into_iter") or ir.is_transparent(x[1])) and x[2]:
                x = ir.peel(x[2][0])
            return x[0] == 'call' and x[1].endswith("Role::input_streams") and ir.peel(x[2][0])[0] == 'param'
        def position_call(x):
            for y in ir.walk(x):
                if y[0] == 'call' and y[1].endswith("::position") and len(y[2]) == 2 and is_table(y[2][0]):
                    cl = ir.peel(y[2][1])
                    if cl[0] == 'agg' and cl[1] == 'closure':
                        ups = [ir.peel(u) for (_, u) in cl[3]]
                        if any(u[0] == 'field' and ir.peel(u[1])[0] == 'variant' and ir.peel(ir.peel(u[1])[1])[0] == 'param' for u in ups):
                            cb = facts.by_path.get(cl[2])
                            if cb is not None and any(blk["t"]["k"] == "call" and F.norm(blk["t"]["func"].get("path", "")).endswith("PartialEq::eq") for blk in cb.blocks) \
                                    or cb is not None and any(st["k"] == "assign" and st["rv"]["k"] == "bin" and st["rv"]["op"] == "Eq" for blk in cb.blocks for st in blk["st"]):
                                return y
            return None
        if ret[0] == 'call' and (ret[1].endswith("::copied") or ret[1].endswith("::cloned")) and ret[2]:
            gt = ir.peel(ret[2][0])
            if not (gt[0] == 'call' and gt[1].endswith("::get") and len(gt[2]) == 2 and is_table(gt[2][0])):
                return "a successor is not taken from the role's own table"
            idx = ir.peel(gt[2][1])
            if cur_some is False:
                if cv(idx) != 0:
                    return "with no current stream the successor is not the table's first entry"
            elif cur_some is True:
                if not (idx[0] == 'bin' and idx[1] in ('Add', 'AddUnchecked') and cv(idx[3]) == 1 and position_call(idx[2]) is not None):
                    return "the successor of the current stream is not at position(current) + 1 of the table"
            else:
                return "a successor is chosen without looking at the current stream"
            n += 1
        elif ret[0] == 'call' and ret[1].endswith("from_residual"):
            if position_call(ret) is None:
                return "None is returned for something other than a stream that is not in the table"
            n += 1
        elif variant_of(ret) == 'None':
            n += 1
        else:
            return "a path returns %s" % ir.show(ret)[:60]
    return None if n >= 3 else "too few paths"


def lookup_next(entries, role, cur):
    hits = set()
    for (c, roles, curtys, nxt) in entries:
        if role not in roles:
            continue
        if cur is None:
            if c in ('None', None) and (c == 'None' or True):
                if c == 'None' or c is None:
                    hits.add(nxt)
        else:
            if c in ('Some', None) and cur in curtys:
                hits.add(nxt)
    return hits


def run(rep, facts):
    rep.rule("R18.1", "Role::next_input_stream (decision table) agrees with the constant slices of Role::input_streams, with RecordType::is_input_stream and with the specification's per-role stream lists")
    rep.rule("R18.2", "set_stream: a rejected selection returns before any field write; a different stream => Stream->Skip demotion (under its guard), discard of buffered data and assignment; the same stream => nothing is touched")
    rep.rule("R18.3", "header dispatch: earlier stream => skipped, active stream with data => delivered, empty record of the active stream or any later stream => held back and reported as end; foreign ids skipped")
    rep.rule("R18.4", "the active-stream field is written only by the constructor (first stream of the role) and by set_stream after the order test")
    rep.rule("R18.5", "the async set_stream / writeable() feed the parser's verdict to expect (a rejected selection panics, it is never ignored)")

    # ---- R18.1 ---------------------------------------------------------------------------------------------
    rt = role_tables(facts)
    ib, itab = rt["input_streams"]
    ob, otab = rt["output_streams"]
    if itab == SPEC["role_input_streams"]:
        rep.ok("R18.1", "input_streams", "per-role input stream lists equal the specification %s" % itab, ib.loc())
    else:
        rep.violation("R18.1", "input_streams", "Role::input_streams is %s, specification says %s" % (itab, SPEC["role_input_streams"]), ib.loc())
    if otab == SPEC["role_output_streams"]:
        rep.ok("R18.1", "output_streams", "per-role output stream lists equal the specification", ob.loc())
    else:
        rep.violation("R18.1", "output_streams", "Role::output_streams is %s, specification says %s" % (otab, SPEC["role_output_streams"]), ob.loc())
    nb0, g0, rows0 = rows_of(facts, "%s::next_input_stream" % ROLE)
    if any(r.ret is not None and ir.peel(r.ret)[0] == 'call' and ir.peel(r.ret)[1].endswith("::copied") for r in rows0):
        why = next_by_table_lookup(facts, rows0)
        if why is None:
            rep.ok("R18.1", "next_input_stream", "the successor is looked up in the role's own table: input_streams(self).get(i), i = 0 or position(current) + 1", nb0.loc())
        else:
            rep.violation("R18.1", "next_input_stream", "table-lookup form: " + why, nb0.loc())
        entries = None
    else:
        nb, entries = next_table(facts)
    okn = True
    checked = 0
    for role, lst in (itab.items() if entries is not None else ()):
        seq = [None] + list(lst)
        for i, cur in enumerate(seq):
            want = lst[i] if i < len(lst) else None
            got = lookup_next(entries, role, cur)
            checked += 1
            if got != {want}:
                okn = False
                rep.violation("R18.1", "next_input_stream[%s,%s]" % (role, cur), "next stream after %s for %s is %s, the role's list %s says %s" % (cur, role, sorted(map(str, got)), lst, want), nb.loc())
    if okn and entries is not None:
        rep.ok("R18.1", "next_input_stream", "%d (role, current) pairs: the table follows input_streams() exactly and ends with None" % checked, nb.loc())
    for pred, key in (("is_input_stream", "input_stream_types"), ("is_output_stream", "output_stream_types"), ("is_management", "management_types")):
        b, g, rows = rows_of(facts, "%s::%s" % (RT, pred))
        yes = set()
        for r in rows:
            if r.end != 'return' or r.ret is None:
                continue
            v = ir.const_value(r.ret)
            for (e, lab) in nonconst_conds(r):
                pe = ir.peel(e)
                if pe[0] == 'discr' and case_value(lab) is not None and v == 1:
                    yes.add(facts.variant_name(RT, case_value(lab)))
        if yes == set(SPEC[key]):
            rep.ok("R18.1", pred, "true exactly for %s" % sorted(yes), b.loc())
        else:
            rep.violation("R18.1", pred, "true for %s, specification says %s" % (sorted(yes), sorted(SPEC[key])), b.loc())

    # ---- R18.2 ---------------------------------------------------------------------------------------------
    b, g, rows = rows_of(facts, SP + "::set_stream")
    n_err = n_change = n_same = 0
    for r in rows:
        if r.end != 'return' or r.ret is None:
            continue
        res = variant_of(r.ret)
        writes = [(pl, val) for (pl, val, n, s_) in r.writes if pl[0] == 'field' and ir.peel(pl[1])[0] == 'param']
        discards = [c for c in r.calls if c[0].endswith("::discard_stream") or c[0].endswith("::compress")]
        conds = [(ir.peel(e), lab) for (e, lab) in nonconst_conds(r)]
        less_test = None
        ne_test = None
        state_test = None
        some = None
        for (e, lab) in conds:
            if e[0] == 'call' and e[1].endswith("Ordering as std::cmp::PartialEq>::eq") and any(y[0] == 'call' and y[1].endswith("cmp_input_streams") for y in ir.walk(e)):
                less = any(y[0] == 'agg' and y[2].endswith("Ordering::Less") for y in ir.walk(e))
                less_test = dispatch.label_truth(lab) if less else None
                cmpc = [y for y in ir.walk(e) if y[0] == 'call' and y[1].endswith("cmp_input_streams")][0]
                a_role, a_new, a_cur = (ir.peel(x) for x in cmpc[2])
                if not (a_role[0] == 'field' and a_role[2] == 'role' and a_cur[0] == 'field' and a_cur[2] == 'stream' and ir.peel(a_cur[1])[0] == 'param'
                        and any(y[0] == 'param' for y in ir.walk(a_new))):
                    rep.violation("R18.2", "set_stream/order-test-args", "the order test compares %s" % ir.show(cmpc)[:100], b.loc())
            if e[0] == 'call' and e[1] in ("std::cmp::Ordering::is_lt", "std::cmp::Ordering::is_ge") and e[2] and \
                    ir.peel(e[2][0])[0] == 'call' and ir.peel(e[2][0])[1].endswith("cmp_input_streams") and dispatch.label_truth(lab) is not None:
                # the same test through the Ordering predicates
                less_test = dispatch.label_truth(lab) == e[1].endswith("is_lt")
                cmpc = ir.peel(e[2][0])
                a_role, a_new, a_cur = (ir.peel(x) for x in cmpc[2])
                if not (a_role[0] == 'field' and a_role[2] == 'role' and a_cur[0] == 'field' and a_cur[2] == 'stream' and ir.peel(a_cur[1])[0] == 'param'
                        and any(y[0] == 'param' for y in ir.walk(a_new))):
                    rep.violation("R18.2", "set_stream/order-test-args", "the order test compares %s" % ir.show(cmpc)[:100], b.loc())
            if e[0] == 'discr' and ir.peel(e[1])[0] == 'call' and ir.peel(e[1])[1].endswith("cmp_input_streams") and isinstance(lab, tuple):
                # the same test as a `match` on the ordering
                names = {-1: "Less", 255: "Less", 0: "Equal", 1: "Greater"}
                if lab[0] == 'case':
                    less_test = names.get(lab[1]) == "Less"
                else:
                    excl = {names.get(v) for v in lab[1]}
                    less_test = False if "Less" in excl else (True if {"Equal", "Greater"} <= excl else None)
                cmpc = ir.peel(e[1])
                a_role, a_new, a_cur = (ir.peel(x) for x in cmpc[2])
                if not (a_role[0] == 'field' and a_role[2] == 'role' and a_cur[0] == 'field' and a_cur[2] == 'stream' and ir.peel(a_cur[1])[0] == 'param'
                        and any(y[0] == 'param' for y in ir.walk(a_new))):
                    rep.violation("R18.2", "set_stream/order-test-args", "the order test compares %s" % ir.show(cmpc)[:100], b.loc())
            if e[0] == 'call' and (e[1].endswith("::ne") or e[1].endswith("::eq")) and any(y[0] == 'field' and y[2] == 'stream' for y in ir.walk(e)) and \
                    not any(y[0] == 'call' and y[1].endswith("cmp_input_streams") for y in ir.walk(e)):
                t = dispatch.label_truth(lab)
                ne_test = t if e[1].endswith("::ne") else (not t)
            if e[0] == 'discr' and ir.peel(e[1])[0] == 'field' and ir.peel(e[1])[2] == 'state':
                state_test = facts.variant_name("parser::stream::State", case_value(lab)) if case_value(lab) is not None else 'other'
            if e[0] == 'discr' and ir.peel(e[1])[0] == 'param':
                some = (case_value(lab) == 1)
        if res == 'Err':
            n_err += 1
            if writes or discards or less_test is not True:
                rep.violation("R18.2", "set_stream/reject-before-write", "a rejected selection happens after %d field write(s) / %d discard(s), or not on the `Less` edge" % (len(writes), len(discards)), b.loc())
            continue
        # accepted
        if some and less_test is not False:
            rep.violation("R18.2", "set_stream/accept-only-not-less", "Some(stream) is accepted without passing the order test", b.loc())
        if ne_test is True:
            n_change += 1
            wnames = {pl[2] for (pl, val) in writes}
            sw = [(pl, val) for (pl, val) in writes if pl[2] == 'stream']
            ok = bool(discards) and len(sw) == 1 and ir.peel(sw[0][1])[0] == 'param' and state_test is not None
            if state_test == 'Stream':
                ok = ok and 'state' in wnames
            else:
                ok = ok and 'state' not in wnames
            if not ok:
                rep.violation("R18.2", "set_stream/change", "selecting a different stream does not {test the record state, demote Stream->Skip, discard buffered data, assign} on some path (state tested: %s, writes %s, discard %s)" % (state_test, sorted(wnames), bool(discards)), b.loc())
        elif ne_test is False:
            n_same += 1
            if writes or discards:
                rep.violation("R18.2", "set_stream/same-keeps-data", "re-selecting the current stream modifies %s" % sorted(pl[2] for (pl, v) in writes), b.loc())
        else:
            rep.violation("R18.2", "set_stream/untested-change", "an accepted selection does not compare the new stream with the current one", b.loc())
    if n_err and n_change >= 2 and n_same:
        if not any(v["rule"].startswith("R18.2") for v in rep.violations):
            rep.ok("R18.2", "set_stream", "%d reject path(s) without side effects; %d change paths (demote under guard, discard, assign); %d same-stream path(s) untouched" % (n_err, n_change, n_same), b.loc())
    else:
        rep.undecidable("R18.2", "set_stream/paths", "expected reject, change and same-stream paths (got %d/%d/%d)" % (n_err, n_change, n_same), b.loc())

    # ---- R18.3 from the stream dispatch table -----------------------------------------------------------------
    sr = check.Report("tmp", "quick")
    c04.r4_1_tables(sr, facts)
    want = {"stream/stream-data", "stream/stream-end", "stream/earlier-stream", "stream/later-stream"}
    seen = set()
    for i in sr.instances:
        base = i["instance"].split("/missing")[0]
        if base in want or (i["instance"].startswith("stream/untested") and ("cmp" in i["instance"] or "len_nonzero" in i["instance"] or "input_stream" in i["instance"])):
            seen.add(base)
            if i["status"] == "ok":
                rep.ok("R18.3", i["instance"], i["detail"], i["loc"])
            else:
                rep.violation("R18.3", i["instance"], i["detail"], i["loc"])
    for w in want - seen:
        rep.undecidable("R18.3", w, "row not found in the stream dispatch table")
    # arguments of the comparison in the dispatch
    sb = dispatch.find_sites(facts).get('stream')
    if sb is not None:
        r_ = ir.Resolver(sb)
        for bi, blk in enumerate(sb.blocks):
            t = blk["t"]
            if t["k"] == "call" and F.norm(t["func"].get("path", "")).endswith("cmp_input_streams"):
                a = [ir.peel(r_.operand(x, (bi, -1))) for x in t["args"]]
                ok = a[0][0] == 'field' and a[0][2] == 'role' and dispatch.wire_field(a[1]) == 'rtype' and a[2][0] == 'field' and a[2][2] == 'stream'
                if ok:
                    rep.ok("R18.3", "stream/order-test-args", "cmp_input_streams(request.role, header type, active stream)", "%s:%d" % (t["sp"]["f"], t["sp"]["l"]))
                else:
                    rep.violation("R18.3", "stream/order-test-args", "the dispatch compares %s" % [ir.show(x)[:40] for x in a], "%s:%d" % (t["sp"]["f"], t["sp"]["l"]))

    # ---- R18.4 ---------------------------------------------------------------------------------------------
    acc = F.field_accesses(facts, SP, "stream")
    writers = sorted({b2.npath for (b2, bi, how, sp) in acc if how == "write"})
    if writers == [SP + "::set_stream"]:
        rep.ok("R18.4", "stream-field-writers", "the active-stream field is assigned only in set_stream")
    else:
        rep.violation("R18.4", "stream-field-writers", "the active-stream field is assigned in %s" % writers)
    muts = sorted({b2.npath for (b2, bi, how, sp) in acc if how.startswith("ref:ref:mut") or how.startswith("ref:rawptr")})
    if muts:
        rep.violation("R18.4", "stream-field-mut-borrows", "the active-stream field is mutably borrowed in %s" % muts)
    ctor = F.aggregates_of(facts, SP)
    okc = 0
    ctor = [c for c in ctor if not (c[0].raw.get("impl_trait") and F.norm(c[0].raw["impl_trait"]) == "std::clone::Clone")]
    for (b2, bi, si, st) in ctor:
        r_ = ir.Resolver(b2)
        fields = dict(zip(st["rv"]["fields"], st["rv"]["ops"]))
        e = ir.peel(r_.operand(fields["stream"], (bi, si)))
        if e[0] == 'call' and e[1] == ROLE + "::next_input_stream" and variant_of(e[2][1]) == 'None' and ir.peel(e[2][0])[0] == 'field' and ir.peel(e[2][0])[2] == 'role':
            okc += 1
        else:
            rep.violation("R18.4", "constructor-initial-stream[%s]" % b2.npath, "initial active stream is %s, expected role.next_input_stream(None)" % ir.show(e)[:80], b2.loc())
    if okc and okc == len(ctor):
        rep.ok("R18.4", "constructor-initial-stream", "every construction starts at request.role.next_input_stream(None)")
    rep.floor("R18.4", "stream parser construction sites", len(ctor), 1)

    # ---- R18.5 ---------------------------------------------------------------------------------------------
    if facts.has_feature("async"):
        n = 0
        for (b2, bi, t, name) in F.calls_to(facts, lambda nm: nm == SP + "::set_stream"):
            if not (b2.npath.startswith("async_io::")):
                continue
            n += 1
            d = t["dest"]["l"]
            used_by = None
            for blk in b2.blocks:
                tt = blk["t"]
                if tt["k"] == "call":
                    for a in tt["args"]:
                        p = a.get("move") or a.get("copy")
                        if p is not None and p["l"] == d and "p" not in p:
                            used_by = F.norm(tt["func"].get("path", ""))
            loc = "%s:%d" % (t["sp"]["f"], t["sp"]["l"])
            if used_by == "std::result::Result::expect":
                rep.ok("R18.5", "%s/verdict-expected" % b2.npath.split("::{closure")[0], "the SequenceError verdict goes to expect(): a rejected selection panics", loc)
            else:
                rep.violation("R18.5", "%s/verdict-expected" % b2.npath.split("::{closure")[0], "the parser's verdict goes to %s: a rejected selection would be ignored" % used_by, loc)
        rep.floor("R18.5", "async callers of set_stream", n, 3)


def run_discard_geometry(rep, facts):
    """R18.6: "data of streams other than the active one is never delivered": a stream switch empties the stream buffer through discard_stream;
    that the parsed region is empty afterwards, and that the pending protocol bytes survive, is the buffer geometry decided by E8
    (R3.10 instances of discard_stream / stream_buffer / consume_stream, re-evaluated)."""
    from . import c03
    rep.rule("R18.6", "after a stream switch nothing of the old stream is left to hand out: discard_stream leaves an empty parsed region and keeps the unparsed protocol bytes; "
                      "stream_buffer / consume_stream expose exactly the parsed region (R3.10)")
    sr = check.Report("tmp", "quick")
    c03.run_geometry(sr, facts)
    n = 0
    for i in sr.instances:
        if i["rule"] == "R3.10" and i["instance"].split("/")[0] in ("discard_stream", "stream_buffer", "consume_stream"):
            n += 1
            (rep.ok if i["status"] == "ok" else rep.violation)("R18.6", i["instance"], i["detail"], i["loc"])
    rep.floor("R18.6", "geometry instances", n, 2)


def main(rep, tier):
    f = F.load(("async", "http"))
    rep.configs.append({"features": "async,http", "profile": "debug", "bodies": len(f.bodies)})
    check.guard(rep, "R18", run, f)
    check.guard(rep, "R18.6", run_discard_geometry, f)
    rep.floor("R18", "rule instances", len([i for i in rep.instances if i["status"] == "ok"]), 14)
    import check as _c
    _c.witnesses(rep, "C18", f)
    return rep.finish(
        "Finite tables (per-role stream lists, next-stream table, stream-type predicates) compared with each other and the specification; "
        "decision table of set_stream; stream rows of the header dispatch; writers of the active-stream field; use of the verdict in the async layer.",
        not_decided="correctness of the comparison loop in cmp_input_streams (finite, but only evaluable by running it; the pinned stream_order test enumerates it)")
