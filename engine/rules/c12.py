"""C12 — transport EOF or error at any point ends the connection cleanly (R12.1–R12.7)."""
import events as E
import ir
from . import common

ENTRIES = [
    ("run", "async_io::Token::run::{closure#0}"),
    ("poll_read", "<async_io::Request as futures_util::AsyncRead>::poll_read"),
    ("poll_fill_buf", "<async_io::Request as futures_util::AsyncBufRead>::poll_fill_buf"),
    ("writeable", "async_io::Request::writeable::{closure#0}"),
    ("writer.poll_write", "<async_io::StreamWriter as futures_util::AsyncWrite>::poll_write"),
    ("writer.poll_flush", "<async_io::StreamWriter as futures_util::AsyncWrite>::poll_flush"),
]

IO_EVENTS = ('READ', 'WRITE', 'FLUSH', 'PARSE', 'HANDLER')

# enumerated tolerated errors: (function, what is compared, constant)
TOLERATED = {
    # (error kind tested, where): the functions that contain the guards are private and may be named / factored freely
    ("io", "ConnectionAborted", "run"),         # the handler's error in the connection task => ExitStatus::ABORT
    ("io", "ConnectionAborted", "close"),       # writeable()'s error inside close(): the epilogue is still owed
    ("parser", "AbortRequest", "close"),        # the drain inside close(): the abort's header is retained
}


def tolerated(n, tol):
    where = "close" if any(fr.body.npath.startswith("async_io::Request::close") for fr in n.frame.stack()) else "run"
    return (tol[0], tol[1], where) in TOLERATED


def is_io_event(ev):
    def f(n):
        e = ev.at(n)
        return e is not None and e[0] in IO_EVENTS
    return f


def read_phase(g, n):
    """'preamble' / 'in-request' by the provenance of the buffer handed to the transport read."""
    e = None
    t = n.term
    if E.is_await_poll(t) if hasattr(E, "is_await_poll") else False:
        pass
    # poll_read(self, cx, buf): buffer is argument 2 ; read(buf): argument 1 of AsyncReadExt::read
    import ieg
    if ieg.is_await_poll(t):
        fe = g.resolve(n.frame, t["args"][0], (n.bb, -1))
        for sub in ir.walk(fe):
            if sub[0] == 'call' and sub[1] == "futures_util::AsyncReadExt::read" and len(sub[2]) > 1:
                e = sub[2][1]       # pre-order: the outermost read call is the awaited one
                break
    else:
        if len(t["args"]) > 2:
            e = g.arg(n, 2)
    if e is None:
        return None
    for sub in ir.walk(e):
        if sub[0] == 'call' and sub[1] == "parser::request::Parser::input_buffer":
            return 'preamble'
        if sub[0] == 'call' and sub[1] == "parser::stream::Parser::input_buffer":
            return 'in-request'
    return None


def check_zero_tests(rep, g, ev, label):
    """R12.1 / R12.4: a transport byte count is compared with 0 before it is used; the zero edge
    returns the right error kind with no further I/O."""
    polls = {}   # (frame id, bb) -> node, for READ / WRITE(poll) events
    for n in g.all_nodes():
        e = ev.at(n)
        if e is None:
            continue
        if e[0] == 'READ' or (e[0] == 'WRITE' and e[1] in ("poll_write", "poll_write_vectored", "await_count")):
            polls[(n.frame.id, n.bb)] = n

    # facts: ('NZ', frame id, bb) = "the count produced at that site has been compared with zero (non-zero edge)"
    # must-analysis; killed on the Ready edge of that poll, generated on the non-zero edge of a zero test, on
    # error-propagation edges (no count exists there) and when the activation that owns the count returns.
    tests = {}

    # the activation in which the count dies: the poll's frame, or an ancestor if the count is returned upwards
    scope = {}
    for (fid, bb) in polls:
        fr = g.frames[fid]
        while fr.parent is not None and fr.kind in ('call', 'pollfn', 'closure', 'closurecall'):
            r = g._return_expr(fr, 0)
            if r is not None and common.mentions_site(r, fid, bb):
                fr = fr.parent
            else:
                break
        scope[(fid, bb)] = fr.id

    def effect(n, m, lab):
        gens, kills = set(), set()
        if n.term["k"] == "return":
            for site, sf in scope.items():
                if sf == n.frame.id:
                    gens.add(('NZ',) + site)
        if n.term["k"] == "switch":
            if lab == ('case', 0):
                for (pe, cn) in ev.poll_switches(n):
                    if (cn.frame.id, cn.bb) in polls:
                        kills.add(('NZ', cn.frame.id, cn.bb))
            de = ev.switch_expr(n)
            zt = common.zero_test(de, n.term.get("dty"))
            if zt is not None:
                v, c0, other = zt
                for (fid, bb) in polls:
                    if common.derives_from_site(v, fid, bb):
                        tests.setdefault((fid, bb), set()).add(n.key)
                        if ev.edge_value(lab, c0, other) == 'nonzero':
                            gens.add(('NZ', fid, bb))
            # `?` on the transport result: the Break edge carries an error, not a count
            if de is not None and de[0] == 'discr':
                x = ir.peel(de[1])
                if x[0] == 'call' and x[1].endswith("std::ops::Try>::branch") and lab == ('case', 1):
                    for (fid, bb) in polls:
                        if common.derives_from_site(x, fid, bb):
                            gens.add(('NZ', fid, bb))
        return gens, kills

    init = frozenset(('NZ', fid, bb) for (fid, bb) in polls)
    ins = common.must_dataflow(g, init, effect)

    # consumers of the count: parse(new_input), consume_output(n), arithmetic on writer fields, returns
    for n in g.all_nodes():
        if n.key not in ins:
            continue
        e = ev.at(n)
        t = n.term
        users = []
        if t["k"] == "call" and not n.noise():
            for i, a in enumerate(t["args"]):
                ae = g.resolve(n.frame, a, (n.bb, -1))
                for (fid, bb), pn in polls.items():
                    if (fid, bb) != (n.frame.id, n.bb) and common.derives_from_site(ae, fid, bb):
                        # the zero-test itself and pure plumbing are not consumers
                        name = g.callee(n) or ""
                        if name.endswith("Try>::branch") or name.endswith("::from_residual") or "checked_sub" in name:
                            continue
                        users.append((fid, bb, name))
        for (fid, bb, name) in users:
            pn = polls[(fid, bb)]
            pe = ev.at(pn)
            rule = "R12.1" if pe[0] == 'READ' else "R12.4"
            key = "%s/%s/%s-count-used-by[%s]" % (label, common.fn_of(n), pe[0].lower(), name.split("::")[-1])
            if ('NZ', fid, bb) in ins[n.key]:
                rep.ok(rule, key, "byte count compared with 0 on every path before this use", n.loc())
            else:
                rep.violation(rule, key, "transport byte count reaches %s without a zero (EOF / WriteZero) test on some path" % name, n.loc())

    # every poll has a zero test at all, and its zero edge ends the operation with the right error
    for (fid, bb), pn in sorted(polls.items()):
        pe = ev.at(pn)
        rule = "R12.1" if pe[0] == 'READ' else "R12.4"
        fn = common.fn_of(pn)
        tk = tests.get((fid, bb), set())
        if not tk:
            fn = common.fn_of(g.nodes[next(k for k in g.succ if k[0] == scope[(fid, bb)])])
            rep.violation(rule, "%s/%s/%s-zero-test" % (label, fn, pe[0].lower()),
                          "result of the transport %s is never compared with 0" % pe[0].lower(), pn.loc())
            continue
        if pe[0] == 'READ':
            phase = read_phase(g, pn)
            want = {"preamble": "ConnectionReset", "in-request": "UnexpectedEof"}.get(phase)
            if want is None:
                rep.undecidable(rule, "%s/%s/read-phase" % (label, fn), "cannot classify the read buffer's provenance", pn.loc())
                continue
        else:
            want = "WriteZero"
        for k in tk:
            sn = g.nodes[k]
            if k in ins and ('NZ', fid, bb) in ins[k]:
                # the count was already established non-zero before this comparison (e.g. a later
                # debug assertion on the same variable): not the EOF / WriteZero test
                continue
            de = ev.switch_expr(sn)
            v, c0, other = common.zero_test(de, sn.term.get("dty"))
            for (m, lab) in g.succ[k]:
                if ev.edge_value(lab, c0, other) != 'zero':
                    continue
                events, rets = common.frame_paths_to_return(g, ev, m, is_io_event(ev))
                kinds = common.error_kind_on_path(g, m)
                key = "%s/%s/%s-zero-edge" % (label, fn, pe[0].lower())
                if events:
                    rep.violation(rule, key, "I/O continues after a zero-length %s (%s)" % (pe[0].lower(), ev.at(events[0])[0]), sn.loc())
                elif not rets:
                    rep.violation(rule, key, "zero edge does not return from the operation", sn.loc())
                elif kinds != {want}:
                    rep.violation(rule, key, "zero-length %s reports %s, expected %s" % (pe[0].lower(), sorted(kinds) or "no error", want), sn.loc())
                else:
                    rep.ok(rule, key, "zero edge returns Err(%s) with no further I/O event" % want, sn.loc())
    return len(polls)


def error_type(tys):
    if "std::io::Error" in tys:
        return "io"
    if "parser::Error" in tys:
        return "parser"
    return None


def check_error_live(rep, g, ev, label):
    """R12.2/R12.3: after an Err is observed (match / `?`), no READ/WRITE/PARSE/HANDLER happens unless the
    path passed one of the enumerated tolerance guards."""
    seen_tol = set()
    tol_ok = set()

    def err_edge(n, lab):
        """Is (n, lab) the edge on which a Result is known to be Err (or a ControlFlow Break from `?`)?"""
        t = n.term
        if t["k"] != "switch" or not isinstance(lab, tuple) or lab[0] != 'case' or lab[1] != 1:
            return None
        op = t["discr"].get("move") or t["discr"].get("copy")
        if op is None or "p" in op:
            return None
        src = None
        for st in n.stmts:
            if st["k"] == "assign" and "p" not in st["place"] and st["place"]["l"] == op["l"] and st["rv"]["k"] == "discr":
                src = st["rv"]["place"]
        if src is None:
            return None
        # type of the scrutinee
        body = n.frame.body
        ty = body.locals[src["l"]]["ty"]["s"]
        for el in src.get("p", []):
            if "ty" in el:
                ty = el["ty"]
        if ty.startswith("std::result::Result<") and error_type(ty):
            return error_type(ty)
        if ty.startswith("std::ops::ControlFlow<std::result::Result<std::convert::Infallible") and error_type(ty):
            return error_type(ty)
        return None

    def tolerance(n, lab):
        """(kind, constant) if this edge is the 'tolerated' outcome of a guard on an error value."""
        t = n.term
        if t["k"] != "switch":
            return None
        de = ev.switch_expr(n)
        if de is None:
            return None
        x = ir.peel(de)
        # e.kind() == ErrorKind::K
        # (also spelled `!=` with the roles of the two edges exchanged, or negated)
        neg = False
        while x[0] == 'un' and x[1] == 'Not':
            neg = not neg
            x = ir.peel(x[2])
        if x[0] == 'call' and len(x[2]) == 2 and (x[1] in ("<std::io::ErrorKind as std::cmp::PartialEq>::eq", "<std::io::ErrorKind as std::cmp::PartialEq>::ne")
                                                  or x[1] in ("std::cmp::PartialEq::ne", "std::cmp::PartialEq::eq")):
            a, b = ir.peel(x[2][0]), ir.peel(x[2][1])
            const = None
            for y in (a, b):
                if y[0] == 'agg' and y[2].startswith("std::io::ErrorKind::"):
                    const = y[2].split("::")[-1]
            truth = isinstance(lab, tuple) and (lab[0] == 'otherwise' or (lab[0] == 'case' and lab[1] != 0))
            equal = truth if x[1].endswith("::eq") else not truth      # `ne` is PartialEq's provided method: !eq
            if neg:
                equal = not equal
            if const and isinstance(lab, tuple) and equal:
                return ("io", const)
        # match on parser::Error discriminant
        if x[0] == 'discr':
            op = t["discr"].get("move") or t["discr"].get("copy")
            src = None
            for st in n.stmts:
                if st["k"] == "assign" and "p" not in st["place"] and op and st["place"]["l"] == op["l"] and st["rv"]["k"] == "discr":
                    src = st["rv"]
            if src is not None and src.get("of") == "parser::Error" and isinstance(lab, tuple) and lab[0] == 'case':
                discr = g.facts.enum_discr("parser::Error")
                names = [k for k, v in discr.items() if v == lab[1]]
                if names:
                    return ("parser", names[0])
        return None

    def effect(n, m, lab):
        gens, kills = set(), set()
        et = err_edge(n, lab)
        if et:
            gens.add(("ERR", n.frame.id))
        tol = tolerance(n, lab)
        if tol is not None:
            fn = common.fn_of(n)
            seen_tol.add((fn, tol[0], tol[1], n.loc()))
            if tolerated(n, tol):
                kills.add(("ERR", n.frame.id))
                tol_ok.add((fn, tol[0], tol[1]))
        # leaving the activation that observed the error: its caller sees the Err in the call result
        if n.term["k"] == "return":
            kills.add(("ERR", n.frame.id))
        return gens, kills

    ins = common.may_dataflow(g, frozenset(), effect)
    n_err_edges = 0
    for n in g.all_nodes():
        for (m, lab) in g.succ[n.key]:
            if err_edge(n, lab):
                n_err_edges += 1
    bad = 0
    for n in g.all_nodes():
        e = ev.at(n)
        if e is None or e[0] not in IO_EVENTS or n.key not in ins:
            continue
        live = [x for x in ins[n.key] if x[0] == "ERR"]
        # only errors observed by this activation or one of its callers are still pending here
        stack_ids = {f.id for f in n.frame.stack()}
        live = [x for x in live if x[1] in stack_ids]
        if live:
            bad += 1
            path = common.witness_may(g, effect, n, live[0])
            steps = ["%s  bb%d  in %s%s" % (x.loc(), x.bb, common.fn_of(x), ("  " + str(ev.at(x)[:2])) if ev.at(x) and ev.at(x)[0] != 'CALL' else "") for x in path]
            dedup = []
            for st_ in steps:
                if not dedup or dedup[-1].split("  bb")[0] != st_.split("  bb")[0] or "(" in st_:
                    dedup.append(st_)
            rep.violation("R12.3", "%s/%s/io-after-error[%s]" % (label, common.fn_of(n), e[0]),
                          "a %s event is reachable after an I/O or parser error was observed and neither propagated nor tolerated" % e[0], n.loc(), dedup)
    if not bad:
        rep.ok("R12.3", "%s/no-io-after-error" % label,
               "%d Err edges (match arms and `?`): none reaches a READ/WRITE/PARSE/HANDLER event except through an enumerated tolerance guard" % n_err_edges)
    for (fn, k, c, loc) in sorted(seen_tol):
        key = "%s/%s/tolerates[%s:%s]" % (label, fn, k, c)
        # comparisons whose 'equal' edge just returns are harmless; only those that let I/O continue matter,
        # and those are exactly the ones R12.3 would flag if not enumerated
        if (fn, k, c) in tol_ok:
            rep.ok("R12.2", key, "enumerated tolerated error", loc)
    return n_err_edges


def check_dropped_results(rep, facts):
    """R12.2: no io::Result / Poll<io::Result> / Result<_, parser::Error> produced in the async layer is dropped unused."""
    count = 0
    for b in facts.bodies:
        if not (b.npath.startswith("async_io::") or b.npath.startswith("<async_io::")) or b.promoted:
            continue
        uses = {}
        for bi, blk in enumerate(b.blocks):
            if blk.get("cleanup"):
                continue

            def note(op, how):
                p = op.get("move") or op.get("copy")
                if p is not None:
                    uses.setdefault(p["l"], []).append(how)
            for st in blk["st"]:
                if st["k"] != "assign":
                    continue
                rv = st["rv"]
                if rv["k"] in ("use", "cast"):
                    note(rv["op"], "use")
                elif rv["k"] == "un":
                    note(rv["a"], "use")
                elif rv["k"] in ("ref", "discr", "rawptr"):
                    uses.setdefault(rv["place"]["l"], []).append(rv["k"])
                elif rv["k"] == "agg":
                    for o in rv["ops"]:
                        note(o, "agg")
                elif rv["k"] == "bin":
                    note(rv["a"], "bin")
                    note(rv["b"], "bin")
            t = blk["t"]
            if t["k"] == "call":
                for a in t["args"]:
                    note(a, "arg")
            elif t["k"] == "switch":
                note(t["discr"], "switch")
            elif t["k"] == "yield":
                note(t["value"], "yield")
        for bi, blk in enumerate(b.blocks):
            t = blk["t"]
            if blk.get("cleanup") or t["k"] != "call" or t.get("sp", {}).get("n"):
                continue
            d = t["dest"]
            if "p" in d:
                continue
            ty = b.locals[d["l"]]["ty"]["s"]
            et = error_type(ty) if ("std::result::Result<" in ty) else None
            if not et:
                continue
            if not (ty.startswith("std::result::Result<") or ty.startswith("std::task::Poll<std::result::Result<")):
                continue
            count += 1
            from facts import norm as _norm
            name = _norm(t["func"]["path"]) if "path" in t["func"] else "indirect"
            key = "%s/result-of[%s]" % (b.npath.split("::{closure")[0], name.split("::")[-1])
            if d["l"] == 0 or uses.get(d["l"]):
                rep.ok("R12.2", key, "result is matched, propagated with `?`, returned or passed on", "%s:%d" % (t["sp"]["f"], t["sp"]["l"]))
            else:
                rep.violation("R12.2", key, "%s-carrying result of %s is dropped without being inspected" % (et, name),
                              "%s:%d" % (t["sp"]["f"], t["sp"]["l"]))
        # Result-typed locals that are written but never read (`let _ = fallible()`)
        for li, l in enumerate(b.locals):
            ty = l["ty"]["s"]
            if not ty.startswith("std::result::Result<") or not error_type(ty):
                continue
            written = None
            for bi, blk in enumerate(b.blocks):
                if blk.get("cleanup"):
                    continue
                for st in blk["st"]:
                    if st["k"] == "assign" and "p" not in st["place"] and st["place"]["l"] == li and not st.get("sp", {}).get("n"):
                        written = st["sp"]
            if written is None or li == 0:
                continue
            count += 1
            key = "%s/result-local" % (b.npath.split("::{closure")[0])
            if uses.get(li):
                rep.ok("R12.2", key, "Result value is inspected or passed on", "%s:%d" % (written["f"], written["l"]))
            else:
                rep.violation("R12.2", key + "[unused@%s]" % b.local_name(li), "a %s-carrying Result is bound and dropped without being inspected" % error_type(ty),
                              "%s:%d" % (written["f"], written["l"]))
    return count


def check_progress(rep, g, ev, label):
    """R12.5: every cycle contains a suspension, a transport read/write, the handler, or an iterator step."""
    nodes = [n for n in g.all_nodes()]
    idx = {n.key: i for i, n in enumerate(nodes)}

    def breaker(n):
        e = ev.at(n)
        if e is not None and e[0] in ('SUSPEND', 'READ', 'WRITE', 'FLUSH', 'HANDLER', 'AWAIT_EXT'):
            return True
        if n.term["k"] == "call":
            name = g.callee(n) or ""
            tc = g.trait_call(n)
            if tc is not None and tc[0].endswith("iter::Iterator") and tc[1] == "next":
                return True
            if name.endswith("std::iter::Iterator>::next") or name.endswith("::Iterator::next"):
                return True
            # a hand-written poll function polling an inner future of another crate (the mutex's lock future): the same progress as
            # an await on it -- it completes once, or its Pending is what the caller returns
            if (tc is not None and tc[0].split("::")[-1] == "Future" and tc[1] == "poll") or name.endswith("Future>::poll"):
                if g.local_callee(n.frame, n.term["func"]) is None:
                    return True
        return False
    keep = [n for n in nodes if not breaker(n) and not n.noise()]
    keepset = {n.key for n in keep}
    # Tarjan SCC (iterative) over the remaining graph
    index = {}
    low = {}
    onst = set()
    st = []
    sccs = []
    counter = [0]
    for root in keep:
        if root.key in index:
            continue
        work = [(root, iter([m for (m, _) in g.succ[root.key] if m.key in keepset]))]
        index[root.key] = low[root.key] = counter[0]
        counter[0] += 1
        st.append(root)
        onst.add(root.key)
        while work:
            n, it = work[-1]
            adv = False
            for m in it:
                if m.key not in index:
                    index[m.key] = low[m.key] = counter[0]
                    counter[0] += 1
                    st.append(m)
                    onst.add(m.key)
                    work.append((m, iter([x for (x, _) in g.succ[m.key] if x.key in keepset])))
                    adv = True
                    break
                elif m.key in onst:
                    low[n.key] = min(low[n.key], index[m.key])
            if adv:
                continue
            work.pop()
            if work:
                p = work[-1][0]
                low[p.key] = min(low[p.key], low[n.key])
            if low[n.key] == index[n.key]:
                comp = []
                while True:
                    x = st.pop()
                    onst.discard(x.key)
                    comp.append(x)
                    if x.key == n.key:
                        break
                if len(comp) > 1 or any(m.key == n.key for (m, _) in g.succ[n.key]):
                    sccs.append(comp)
    if sccs:
        for comp in sccs:
            fns = sorted({common.fn_of(n) for n in comp})
            locs = sorted({n.loc() for n in comp})
            rep.violation("R12.5", "%s/%s/cycle-without-progress" % (label, fns[0]),
                          "a cycle of %d blocks contains no suspension, transport I/O, handler call or iterator step (possible spin)" % len(comp),
                          locs[0], locs[:12])
    else:
        rep.ok("R12.5", "%s/cycles" % label, "every cycle of the event graph (%d nodes) passes a suspension, transport I/O, the handler or an iterator step" % len(nodes))

    # Pending from a transport poll in a poll-style function is propagated as Pending with no event in between
    pend = 0
    for n in nodes:
        if n.term["k"] != "switch":
            continue
        ps = ev.poll_switch(n)
        if ps is None or ps[0] is None:
            continue
        pe = ps[0]
        if pe[0] not in ('READ', 'WRITE', 'FLUSH') or (len(pe) > 1 and pe[1] in ('await', 'await_all')):
            continue
        if n.frame.body.is_coroutine:
            continue
        for (m, lab) in g.succ[n.key]:
            if lab != ('case', 1):
                continue
            pend += 1
            events, rets = common.frame_paths_to_return(g, ev, m, is_io_event(ev))
            key = "%s/%s/pending-of[%s]" % (label, common.fn_of(n), pe[0])
            okret = rets and all((g._known(r.tag).get(0) or (None,))[0] == 1 for r in rets)
            if events:
                rep.violation("R12.5", key, "after the transport returned Pending another I/O event happens before returning", n.loc())
            elif not okret:
                rep.violation("R12.5", key, "Pending from the transport is not returned as Poll::Pending on every path", n.loc())
            else:
                rep.ok("R12.5", key, "Pending is returned as Poll::Pending with no event in between", n.loc())
    return pend


def check_compaction(rep, g, ev, label, rule="R12.6"):
    """Before every in-request transport read the stream parser's buffer was compacted since the last parse: otherwise
    consumed bytes are never reclaimed, input_buffer() shrinks to nothing and the zero-length read is mistaken for EOF."""
    def effect(n, m, lab):
        gens, kills = set(), set()
        if n.term["k"] == "call" and not n.noise() and g.callee(n) == "parser::stream::Parser::compress":
            gens.add("COMPACT")
        e = ev.at(n)
        if e is not None and e[0] == 'PARSE' and e[1] == 'str':
            kills.add("COMPACT")
        return gens, kills
    md = common.must_dataflow(g, frozenset(), effect)
    n_ = 0
    for n in g.all_nodes():
        e = ev.at(n)
        if e is None or e[0] != 'READ' or n.key not in md:
            continue
        if read_phase(g, n) != 'in-request':
            continue
        n_ += 1
        key = "%s/%s/compact-before-read" % (label, common.fn_of(n))
        if "COMPACT" in md[n.key]:
            rep.ok(rule, key, "Parser::compress() runs after the last parse on every path to this read", n.loc())
        else:
            rep.violation(rule, key, "a transport read into the stream parser's buffer is reachable without compress() since the last parse (space is never reclaimed; a full buffer yields a zero-length read reported as EOF)", n.loc())
    return n_


def run(rep, facts):
    rep.rule("R12.6", "every in-request transport read is preceded, since the last parse, by stream::Parser::compress()")
    rep.rule("R12.1", "every transport read count is compared with 0 before use; the zero edge returns ConnectionReset (preamble reads) / UnexpectedEof (in-request reads) with no further I/O")
    rep.rule("R12.2", "no io::Result / Poll<io::Result> / Result<_, parser::Error> of the async layer is dropped uninspected; tolerated errors are exactly the three enumerated ones")
    rep.rule("R12.3", "after an error was observed (Err arm or `?`), no READ/WRITE/PARSE/HANDLER event is reachable except through an enumerated tolerance guard")
    rep.rule("R12.4", "every poll_write / poll_write_vectored count is compared with 0 before use; the zero edge returns WriteZero")
    rep.rule("R12.5", "every cycle makes progress (suspension, transport I/O, handler, iterator step); a Pending from the transport is returned as Pending")
    npolls = 0
    nerr = 0
    npend = 0
    for label, entry in ENTRIES:
        g, ev = common.build(facts, entry)
        rep.stats.setdefault("graphs", {})[label] = g.stats()
        npolls += check_zero_tests(rep, g, ev, label)
        nerr += check_error_live(rep, g, ev, label)
        npend += check_progress(rep, g, ev, label)
        check_compaction(rep, g, ev, label)
    nres = check_dropped_results(rep, facts)
    # floors counted on the pinned tree
    rep.floor("R12.1", "transport polls (reads and writes) across entry points", npolls, 10)
    rep.floor("R12.3", "Err edges", nerr, 20)
    rep.floor("R12.2", "Result-typed call results in async_io", nres, 15)
    rep.floor("R12.5", "Pending edges of transport polls in poll-style functions", npend, 5)


def check_results_inspected_on_every_path(rep, facts):
    """R12.8: path-sensitive form of R12.2. A Result / Poll<Result> value carrying an io::Error or parser::Error that a call of the async layer
    produced (or that was moved out of such a value) is *pending* until it is inspected -- matched, tested, borrowed, propagated with `?`,
    returned or passed on. On no path may a pending value die: be dropped, go out of storage or be overwritten. (R12.2 only asks for an
    inspection somewhere in the function; a result kept in a local and inspected on one branch but abandoned on another passes R12.2.)"""
    rep.rule("R12.8", "on every path, an io::Error- / parser::Error-carrying Result produced in the async layer is inspected (matched, tested, borrowed, `?`, returned, passed on) "
                      "before it is dropped, goes out of storage or is overwritten")
    n_locals = 0
    for b in facts.bodies:
        if not (b.npath.startswith("async_io::") or b.npath.startswith("<async_io::")) or b.promoted:
            continue

        def cand(li):
            ty = b.locals[li]["ty"]["s"]
            return li != 0 and (ty.startswith("std::result::Result<") or ty.startswith("std::task::Poll<std::result::Result<")) and error_type(ty)
        cands = set(li for li in range(len(b.locals)) if cand(li))
        if not cands:
            continue
        found = {}

        def transfer(bi, pend, report):
            blk = b.blocks[bi]
            pend = set(pend)

            def use(op):
                pl = op.get("move") or op.get("copy")
                if pl is not None:
                    pend.discard(pl["l"])

            def die(li, how, sp):
                if li in pend:
                    pend.discard(li)
                    if report and not (sp or {}).get("n"):
                        found.setdefault((li, how), sp)
            for st in blk["st"]:
                if st["k"] == "dead":
                    die(st.get("l", st.get("place", {}).get("l") if isinstance(st.get("place"), dict) else None), "goes out of storage", st.get("sp"))
                    continue
                if st["k"] != "assign":
                    continue
                rv = st["rv"]
                gen = False
                if rv["k"] in ("use", "cast"):
                    pl = rv["op"].get("move") or rv["op"].get("copy")
                    if pl is not None and pl["l"] in cands:
                        gen = True
                    use(rv["op"])
                elif rv["k"] == "un":
                    use(rv["a"])
                elif rv["k"] in ("ref", "discr", "rawptr"):
                    pend.discard(rv["place"]["l"])
                elif rv["k"] == "agg":
                    for o in rv["ops"]:
                        use(o)
                elif rv["k"] == "bin":
                    use(rv["a"])
                    use(rv["b"])
                d = st["place"]
                if "p" not in d and d["l"] in cands:
                    die(d["l"], "is overwritten", st.get("sp"))
                    if gen:
                        pend.add(d["l"])
            t = blk["t"]
            if t["k"] == "call":
                for a in t["args"]:
                    use(a)
                d = t["dest"]
                if "p" not in d and d["l"] in cands:
                    die(d["l"], "is overwritten", t.get("sp"))
                    pend.add(d["l"])
            elif t["k"] == "switch":
                use(t["discr"])
            elif t["k"] == "yield":
                use(t["value"])
            elif t["k"] == "drop":
                if "p" not in t["place"]:
                    die(t["place"]["l"], "is dropped", t.get("sp"))
            return frozenset(pend)
        succs = [b.succs(i) for i in range(len(b.blocks))]
        IN = {0: frozenset()}
        work = [0]
        while work:
            bi = work.pop()
            out = transfer(bi, IN[bi], False)
            for s_ in succs[bi]:
                if b.blocks[s_].get("cleanup"):
                    continue
                old = IN.get(s_)
                new_ = out if old is None else (old | out)
                if new_ != old:
                    IN[s_] = new_
                    work.append(s_)
        for bi in IN:
            transfer(bi, IN[bi], True)
        fn = b.npath.split("::{closure")[0]
        for li in sorted(cands):
            defined = any((blk["t"]["k"] == "call" and "p" not in blk["t"]["dest"] and blk["t"]["dest"]["l"] == li) or
                          any(st["k"] == "assign" and "p" not in st["place"] and st["place"]["l"] == li for st in blk["st"])
                          for blk in b.blocks if not blk.get("cleanup"))
            if not defined:
                continue
            n_locals += 1
            bad = [(how, sp) for (l2, how), sp in found.items() if l2 == li]
            name = b.local_name(li)
            key = "%s/inspected-on-every-path[%s]" % (fn, name if not name.startswith("_") else "tmp")
            if bad:
                how, sp = bad[0]
                rep.violation("R12.8", key, "a %s-carrying Result %s on a path on which it was never inspected: the error is lost and the task carries on" % (error_type(b.locals[li]["ty"]["s"]), how),
                              "%s:%d" % (sp["f"], sp["l"]) if sp else b.npath)
            else:
                rep.ok("R12.8", key, "inspected before it dies on every path", b.npath)
    rep.floor("R12.8", "error-carrying Result locals in async_io", n_locals, 15)
    return n_locals


def run_parser_totality(rep, facts):
    """R12.7: "terminates without panicking" when the input stops at any byte position: the connection task hands whatever the transport
    delivered to the two parsers, so every prefix of a record stream is parser input; that the framing code never slices, splits, indexes,
    subtracts or narrows out of range on any path is R3.11 of C03 (E8), re-evaluated."""
    import check
    from . import c03
    rep.rule("R12.7", "no prefix of the incoming record stream -- which is what an EOF or error at an arbitrary byte position leaves the parsers with -- "
                      "drives the framing code of either parser out of range: every subtraction, narrowing cast, slice, split_at, copy_within and index is in range on every path (R3.11)")
    sr = check.Report("tmp", "quick")
    c03.run_arith(sr, facts)
    n = 0
    for i in sr.instances:
        if i["rule"] == "R3.11":
            n += 1
            (rep.ok if i["status"] == "ok" else rep.violation)("R12.7", i["instance"], i["detail"], i["loc"])
    rep.floor("R12.7", "framing functions", n, 8)


def main(rep, tier):
    import check
    import facts as F
    f = F.load(("async", "http"))
    rep.configs.append({"features": "async,http", "profile": "debug", "bodies": len(f.bodies)})
    check.guard(rep, "R12", run, f)
    check.guard(rep, "R12.7", run_parser_totality, f)
    check.guard(rep, "R12.8", check_results_inspected_on_every_path, f)
    return rep.finish(
        "Path rules over the interprocedural event graph of the connection task and of the poll-style APIs: EOF (zero-length read) and "
        "WriteZero checks guard every use of a transport byte count, errors are propagated or explicitly tolerated, no I/O follows an "
        "unhandled error, every cycle makes progress and Pending is propagated.",
        not_decided="panic-freedom of the async glue code itself (expect / assert in async_io) is not decided; that of the parsers' framing code is R12.7 = R3.11")
