"""C19 — CGI variable names: equality, order, hash, interning agree and ignore ASCII case (R19.1–R19.6)."""
import re

import check
import facts as F
import ir
import ieg
import paths
from .c17 import variant_of, agg_field, cv, nonconst_conds, case_value

OWN = "cgi::OwnedVarName"
VN = "cgi::VarName"
SV = "cgi::intern::StaticVarName"
FROM_COMPACT = "cgi::OwnedVarName::from_compact"


def rows_path(facts, raw_path, **kw):
    b = facts.by_path.get(raw_path)
    if b is None:
        raise F.MissingAnchor("no body " + raw_path)
    g = ieg.IEG(facts, b, inline_filter=lambda x: False)
    return b, g, paths.rows(g, max_paths=40000, **kw)


FOLDS = ("core::num::to_ascii_uppercase", "core::num::to_ascii_lowercase")


def _origin(e):
    """The parameter whose string a byte / byte-slice / iterator expression is taken from: looks through as_bytes, iter,
    into_iter, borrows, and the k-th component of an item of `zip(a, b)` (component k comes from argument k)."""
    e = ir.peel(e)
    if e[0] == 'param':
        return e[2]
    if e[0] == 'field':
        inner = ir.peel(e[1])
        # (next(zip(a, b)) as Some).0.k
        if inner[0] == 'field' and str(inner[2]) == '0' and ir.peel(inner[1])[0] == 'variant' and str(e[2]) in ('0', '1'):
            nx = ir.peel(ir.peel(inner[1])[1])
            if nx[0] == 'call' and nx[1].endswith("::next") and nx[2]:
                z = ir.peel(nx[2][0])
                while z[0] == 'call' and z[1].endswith("into_iter") and z[2]:
                    z = ir.peel(z[2][0])
                if z[0] == 'call' and z[1].endswith("::zip") and len(z[2]) == 2:
                    return _origin(z[2][int(str(e[2]))])
            return None
        return _origin(e[1])
    if e[0] == 'call' and e[2] and (e[1].endswith("::as_bytes") or e[1].endswith("::iter") or e[1].endswith("into_iter")
                                     or e[1].endswith("::bytes") or e[1].endswith("::as_ref") or e[1].endswith("::as_str") or ir.is_transparent(e[1])):
        return _origin(e[2][0])
    return None


def _cmp_loop_form(rows):
    """The hand-written form of a case-folded lexicographic comparison: walk `zip(self bytes, other bytes)`, compare the two
    bytes after the same ASCII case fold (self's first), leave the loop with that result only when it is not Equal, and
    break the tie of a common prefix by comparing the lengths (self's first)."""
    n_byte = n_tail = 0
    for r in rows:
        bytecmps = []
        for (e, lab, n) in r.conds:
            pe = ir.peel(e)
            x = noneq = None
            if pe[0] == 'discr':
                x = ir.peel(pe[1])
                noneq = (lab[0] == 'otherwise' and 0 in lab[1]) or (lab[0] == 'case' and lab[1] != 0)
            elif pe[0] == 'call' and pe[1] in ("std::cmp::Ordering::is_ne", "std::cmp::Ordering::is_eq") and pe[2] and dispatch_truth(lab) is not None:
                # `let ord = a.cmp(b); if ord.is_ne() { return ord }`
                x = ir.peel(pe[2][0])
                noneq = dispatch_truth(lab) == pe[1].endswith("is_ne")
            elif pe[0] == 'call' and pe[1].split("::")[-1] in ("ne", "eq") and "PartialEq" in pe[1] and len(pe[2]) == 2 and dispatch_truth(lab) is not None:
                # `if ord != Ordering::Equal { return ord }` / `if ord == Ordering::Equal { continue }`
                for i_ in (0, 1):
                    cv_ = ir.peel(pe[2][1 - i_])
                    is_equal = (cv_[0] == 'agg' and cv_[2].endswith("Ordering::Equal")) or ir.const_value(cv_) == 0 or \
                        (cv_[0] in ('const', 'constdef', 'promoted') and "Equal" in ir.show(cv_))
                    if is_equal:
                        x = ir.peel(pe[2][i_])
                        noneq = dispatch_truth(lab) == (pe[1].split("::")[-1] == "ne")
                        break
            if x is not None and x[0] == 'call' and x[1].endswith("::cmp") and len(x[2]) == 2 and all(ir.peel(a)[0] == 'call' and ir.peel(a)[1] in FOLDS for a in x[2]):
                bytecmps.append((x, ('otherwise', (0,)) if noneq else ('case', 0)))
        is_byte_ret = False
        if r.end == 'return':
            if r.ret is None:
                return "a path returns an unresolved value"
            x = ir.peel(r.ret)
            if not (x[0] == 'call' and x[1].endswith("::cmp") and len(x[2]) == 2):
                return "a path returns %s" % ir.show(x)[:80]
            a, b = ir.peel(x[2][0]), ir.peel(x[2][1])
            if a[0] == 'call' and a[1] in FOLDS:
                if not (b[0] == 'call' and b[1] == a[1]):
                    return "the two bytes are not folded by the same function"
                if (_origin(a[2][0]), _origin(b[2][0])) != ('self', 'other'):
                    return "the folded bytes compared are not self's against other's"
                if not bytecmps or bytecmps[-1][0] != x or not (bytecmps[-1][1][0] == 'otherwise' and 0 in bytecmps[-1][1][1] or
                                                               (bytecmps[-1][1][0] == 'case' and bytecmps[-1][1][1] != 0)):
                    return "a byte comparison result is returned without testing that it is not Equal"
                is_byte_ret = True
                n_byte += 1
            elif a[0] == 'call' and a[1].endswith("::len") and b[0] == 'call' and b[1].endswith("::len"):
                if (_origin(a[2][0]), _origin(b[2][0])) != ('self', 'other'):
                    return "the length tie-break does not compare self's length with other's"
                n_tail += 1
            else:
                return "a path returns %s" % ir.show(x)[:80]
        # the walk continues only past Equal bytes
        cont = bytecmps[:-1] if is_byte_ret else bytecmps
        for (x, lab) in cont:
            if lab != ('case', 0):
                return "the loop continues after a byte comparison that is not Equal"
        for (x, lab) in bytecmps:
            a, b = ir.peel(x[2][0]), ir.peel(x[2][1])
            if a[1] != b[1] or (_origin(a[2][0]), _origin(b[2][0])) != ('self', 'other'):
                return "a byte comparison does not fold self's and other's byte alike"
    if not n_byte or not n_tail:
        return "no folded byte comparison / length tie-break found"
    return None


def dispatch_truth(lab):
    if isinstance(lab, tuple):
        if lab[0] == 'otherwise':
            return True
        if lab[0] == 'case':
            return lab[1] != 0
    return None


def is_as_var(e, who):
    e = ir.peel(e)
    return e[0] == 'call' and e[1] in (OWN + "::as_var", "<cgi::OwnedVarName as std::borrow::Borrow>::borrow") and ir.peel(e[2][0])[0] == 'param' and ir.peel(e[2][0])[2] == who


def base_buffer(e):
    e = ir.peel(e)
    while True:
        if e[0] == 'call' and (e[1].endswith("::index") or e[1].endswith("::index_mut")) and e[2]:
            e = ir.peel(e[2][0])
        elif e[0] in ('index', 'slice'):
            e = ir.peel(e[1])
        else:
            return e


def run(rep, facts):
    rep.rule("R19.1", "<OwnedVarName as Hash>::hash does nothing but <VarName as Hash>::hash(self.as_var(), state); as_var / Borrow<VarName> are VarName::new(self.as_ref())")
    rep.rule("R19.2", "OwnedVarName eq / cmp take the interned fast path only for Static x Static; every other combination delegates to VarName")
    rep.rule("R19.3", "ASCII-fold family: VarName::eq is eq_ignore_ascii_case; cmp compares to_ascii_uppercase of both sides; in hash every buffer given to Hasher::write was upper-cased after input bytes were last copied into it")
    rep.rule("R19.4", "the interned string table is injective and all [A-Z0-9_], so derived == and string order on variants coincide with the folded comparisons")
    rep.rule("R19.7", "the parse table of the interned names is the inverse of their string table: FromStr accepts exactly the canonical spelling of each variant (no aliases)")
    rep.rule("R19.5", "normalising constructors (String, Box<str>, Cow::Owned, &HeaderName, from_mut_str) reach construction only through the upper-casing path; from_compact folds before it parses")
    rep.rule("R19.6", "header mapping: prefix \"HTTP_\", split on '-', joined with '_'")

    # ---- R19.1 ---------------------------------------------------------------------------------------------
    b, g, rows = rows_path(facts, "<cgi::OwnedVarName as std::hash::Hash>::hash")
    rr = [r for r in rows if r.end == 'return']
    ok = len(rr) >= 1
    for r in rr:
        hashes = [c for c in r.calls if "Hash" in c[0] or "Hasher" in c[0] or c[0].endswith("::hash")]
        if len(hashes) != 1 or hashes[0][0] != "<cgi::VarName as std::hash::Hash>::hash" or not is_as_var(hashes[0][1][0], 'self') or ir.peel(hashes[0][1][1])[0] != 'param':
            ok = False
    if ok:
        rep.ok("R19.1", "owned-hash-delegates", "the only hashing call is <VarName as Hash>::hash(self.as_var(), state) on every path", b.loc())
    else:
        rep.violation("R19.1", "owned-hash-delegates", "the owned name's hash does more than / something other than delegating to the borrowed view's hash (different write sequence => equal names may hash differently)", b.loc())
    # as_var / Borrow<VarName>::borrow: one of them builds the view of self.as_ref(), the other may delegate to it (either way round)
    kinds = {}
    locs = {}
    for raw, nm in ((OWN + "::as_var", "as_var"), ("<cgi::OwnedVarName as std::borrow::Borrow<cgi::VarName>>::borrow", "borrow")):
        b2, g2, rows2 = rows_path(facts, raw)
        locs[nm] = b2.loc()
        kind = None
        for r in rows2:
            if r.end == 'return' and r.ret is not None:
                calls = [y for y in ir.walk(r.ret) if y[0] == 'call']
                direct = any(y[1].endswith("AsRef>::as_ref") and ir.peel(y[2][0])[0] == 'param' for y in calls)
                other = "Borrow>::borrow" if nm == "as_var" else "::as_var"
                deleg = any(y[1].endswith(other) and y[2] and ir.peel(y[2][0])[0] == 'param' for y in calls)
                kind = 'direct' if direct else ('delegates' if deleg else None)
        kinds[nm] = kind
    for nm in ("as_var", "borrow"):
        if kinds[nm] is not None and 'direct' in kinds.values():
            rep.ok("R19.1", nm, "view of the same string (%s)" % ("VarName view of self.as_ref()" if kinds[nm] == 'direct' else "delegates to the other accessor"), locs[nm])
        else:
            rep.violation("R19.1", nm, "%s does not return the VarName view of self.as_ref()" % nm, locs[nm])

    # ---- R19.2 ---------------------------------------------------------------------------------------------
    for raw, meth, fast in (("<cgi::OwnedVarName as std::cmp::PartialEq>::eq", "eq", "<cgi::intern::StaticVarName as std::cmp::PartialEq>::eq"),
                            ("<cgi::OwnedVarName as std::cmp::Ord>::cmp", "cmp", "<cgi::intern::StaticVarName as std::cmp::Ord>::cmp")):
        b, g, rows = rows_path(facts, raw)
        bad = []
        n_fast = n_slow = 0
        for r in rows:
            if r.end != 'return' or r.ret is None:
                continue
            st = {}
            for (e, lab) in nonconst_conds(r):
                pe = ir.peel(e)
                if pe[0] == 'discr':
                    x = ir.peel(pe[1])
                    if x[0] == 'field' and ir.peel(x[1])[0] == 'param':
                        who = ir.peel(x[1])[2]
                        st[who] = facts.variant_name("cgi::VarNameInner", case_value(lab)) if case_value(lab) is not None else 'Custom'
            ret = ir.peel(r.ret)

            def interned(a):
                a = ir.peel(a)
                return a[0] == 'field' and a[1][0] == 'variant' and a[1][2] == 'Static'
            # (`lhs == rhs` on two `&StaticVarName` goes through std's by-reference forwarding impl of the same comparison)
            if ret[0] == 'call' and (ret[1] == fast or (ret[1] == "std::cmp::impls::" + meth and len(ret[2]) == 2 and interned(ret[2][0]) and interned(ret[2][1]))):
                n_fast += 1
                if not (st.get('self') == 'Static' and st.get('other') == 'Static'):
                    bad.append("fast path taken for %s" % st)
                a0, a1 = ir.peel(ret[2][0]), ir.peel(ret[2][1])
                if not (a0[0] == 'field' and a0[1][0] == 'variant' and a0[1][2] == 'Static' and a1[0] == 'field' and a1[1][0] == 'variant' and a1[1][2] == 'Static'):
                    bad.append("fast path does not compare the two interned variants")
            elif ret[0] == 'call' and is_as_var(ret[2][0], 'self') and is_as_var(ret[2][1], 'other'):
                n_slow += 1
                if st.get('self') == 'Static' and st.get('other') == 'Static':
                    pass
            else:
                bad.append("a path returns %s" % ir.show(ret)[:80])
        if bad or not n_fast or not n_slow:
            rep.violation("R19.2", "owned-" + meth, "; ".join(sorted(set(bad))) or "fast/slow paths missing", b.loc())
        else:
            rep.ok("R19.2", "owned-" + meth, "Static x Static => interned %s; otherwise self.as_var().%s(other.as_var())" % (meth, meth), b.loc())

    # ---- R19.3 ---------------------------------------------------------------------------------------------
    b, g, rows = rows_path(facts, "<cgi::VarName as std::cmp::PartialEq>::eq")
    ok = False
    for r in rows:
        if r.end == 'return' and r.ret is not None:
            x = ir.peel(r.ret)
            ok = x[0] == 'call' and x[1].endswith("eq_ignore_ascii_case") and {ir.peel(ir.peel(a)[1])[2] if ir.peel(a)[0] == 'field' else None for a in x[2]} == {'self', 'other'}
    (rep.ok if ok else rep.violation)("R19.3", "varname-eq", "self.0.eq_ignore_ascii_case(&other.0)" if ok else "VarName::eq is not eq_ignore_ascii_case of the two strings", b.loc())
    b, g, rows = rows_path(facts, "<cgi::VarName as std::cmp::Ord>::cmp")
    ok = False
    for r in rows:
        if r.end == 'return' and r.ret is not None:
            x = ir.peel(r.ret)
            if x[0] == 'call' and x[1].endswith("::cmp") and len(x[2]) == 2:
                sides = []
                for a in x[2]:
                    m = [y for y in ir.walk(a) if y[0] == 'call' and y[1].endswith("::map")]
                    f_ = [y for y in ir.walk(a) if y[0] == 'fn' and y[1].endswith("to_ascii_uppercase")]
                    who = [ir.peel(y[1])[2] for y in ir.walk(a) if y[0] == 'field' and ir.peel(y[1])[0] == 'param']
                    sides.append((bool(m), bool(f_), tuple(who)))
                ok = all(s[0] and s[1] for s in sides) and {s[2] for s in sides} == {('self',), ('other',)}
    why = "VarName::cmp does not fold both sides with to_ascii_uppercase"
    form = "bytes().map(to_ascii_uppercase) on both sides, then lexicographic cmp"
    if not ok:
        b, g, rows2 = rows_path(facts, "<cgi::VarName as std::cmp::Ord>::cmp", max_visits=2)
        err = _cmp_loop_form(rows2)
        if err is None:
            ok = True
            form = "explicit loop over zip(self bytes, other bytes): same ASCII fold on both bytes, leaves on the first unequal pair, ties broken by length"
        elif any(r.end == 'loop' for r in rows2):
            why += "; as an explicit loop: " + err
    (rep.ok if ok else rep.violation)("R19.3", "varname-cmp", form if ok else why, b.loc())
    # hash: taint rule
    b, g, rows = rows_path(facts, "<cgi::VarName as std::hash::Hash>::hash", max_visits=3)
    nw = 0
    bad = []
    for r in rows:
        if r.end != 'return':
            continue
        clean = set()
        tainted = set()
        for (nm, args, n) in r.calls:
            if nm == "core::slice::copy_from_slice":
                dst = base_buffer(args[0])
                if any(y[0] == 'field' and ir.peel(y[1])[0] == 'param' for y in ir.walk(args[1])):
                    tainted.add(dst)
                    clean.discard(dst)
            elif nm.endswith("make_ascii_uppercase"):
                bf = base_buffer(args[0])
                clean.add(bf)
                tainted.discard(bf)
            elif nm == "std::hash::Hasher::write":
                nw += 1
                bf = base_buffer(args[1])
                from_input = any(y[0] == 'call' and (y[1].endswith("::next") or y[1].endswith("chunks_exact") or y[1].endswith("remainder")) for y in ir.walk(bf)) \
                    or any(y[0] == 'field' and ir.peel(y[1])[0] == 'param' for y in ir.walk(bf))
                if bf in tainted or (from_input and bf not in clean):
                    bad.append("Hasher::write receives input bytes that were not upper-cased (%s)" % ir.show(bf)[:60])
            elif nm.startswith("std::hash::Hasher::") or nm.endswith("Hash>::hash"):
                bad.append("hash state fed through %s" % nm)
    if bad:
        rep.violation("R19.3", "varname-hash-folds", "; ".join(sorted(set(bad))), b.loc())
    elif nw >= 3:
        rep.ok("R19.3", "varname-hash-folds", "every buffer handed to Hasher::write (%d write events over all explored paths) was upper-cased after the input was copied in, or holds no input bytes" % nw, b.loc())
    else:
        rep.undecidable("R19.3", "varname-hash-folds", "too few Hasher::write events explored (%d)" % nw, b.loc())

    # ---- R19.4 ---------------------------------------------------------------------------------------------
    tabs = []
    for raw in ("cgi::intern::<impl std::convert::From<cgi::intern::StaticVarName> for &'static str>::from",
                "cgi::intern::<impl std::convert::From<&'_derivative_strum cgi::intern::StaticVarName> for &'static str>::from"):
        bb = facts.by_path.get(raw)
        if bb is None:
            cands = [x for x in facts.bodies if x.path.startswith("cgi::intern::<impl std::convert::From<") and "StaticVarName" in x.path and x.path.endswith("for &'static str>::from")]
            rep.undecidable("R19.4", "table-body", "interned string table not found under %s (candidates %s)" % (raw, [c.path for c in cands]))
            continue
        tab = {}
        r_ = ir.Resolver(bb)
        sw = [(bi, blk["t"]) for bi, blk in enumerate(bb.blocks) if blk["t"]["k"] == "switch"]
        for (bi, t) in sw:
            for v, tgt in t["targets"]:
                # the arm assigns `_0 = const "<NAME>"`
                blk = bb.blocks[tgt]
                hops = 0
                while not any(st["k"] == "assign" and st["place"]["l"] == 0 for st in blk["st"]) and blk["t"]["k"] == "goto" and hops < 4:
                    blk = bb.blocks[blk["t"]["target"]]
                    hops += 1
                for st in blk["st"]:
                    if st["k"] == "assign" and st["place"]["l"] == 0 and st["rv"]["k"] == "use" and "const" in st["rv"]["op"]:
                        cvv = ir.const_value(ir.const_expr(st["rv"]["op"]["const"]))
                        if isinstance(cvv, bytes):
                            tab[facts.variant_name(SV, int(v))] = cvv.decode("ascii", "replace")
        tabs.append((bb, tab))
    nvar = len(facts.enum_discr(SV))
    for (bb, tab) in tabs:
        vals = list(tab.values())
        okc = all(re.fullmatch(r"[A-Z0-9_]+", s) for s in vals)
        inj = len(set(vals)) == len(vals)
        names_eq = all(k == v for k, v in tab.items())
        if len(tab) == nvar and okc and inj and names_eq:
            rep.ok("R19.4", "interned-table[%s]" % ("by-ref" if "&'_" in bb.path else "by-value"), "%d variants, strings all [A-Z0-9_], pairwise distinct and equal to the variant names" % nvar, bb.loc())
        else:
            badn = [k for k, v in tab.items() if not re.fullmatch(r"[A-Z0-9_]+", v) or k != v][:5]
            rep.violation("R19.4", "interned-table", "%d/%d variants extracted; non-canonical or duplicate spellings: %s" % (len(tab), nvar, badn), bb.loc())
    # ---- R19.7: the parse table is the inverse of the display table ---------------------------------------------------------------
    # (the interning constructors go through FromStr: a spelling it accepts for a variant reads back as that variant's canonical string, so
    #  every accepted spelling must be that string -- an alias makes two names that differ by more than case equal, and one name unequal
    #  to its own other-case spelling)
    phf = [x for x in facts.bodies if x.path.startswith("<cgi::intern::StaticVarName as std::str::FromStr>::from_str::") and x.promoted]
    pairs = []
    for pb in phf:
        last = None
        for blk in pb.blocks:
            for st in blk["st"]:
                if st.get("k") != "assign":
                    continue
                rv = st["rv"]
                if rv.get("k") == "use" and "const" in rv.get("op", {}):
                    cvv = ir.const_value(ir.const_expr(rv["op"]["const"]))
                    if isinstance(cvv, bytes):
                        last = cvv.decode("ascii", "replace")
                elif rv.get("k") == "agg" and rv.get("ak") == "adt" and F.norm(rv.get("adt", "")) == SV and last is not None:
                    pairs.append((last, rv.get("vn")))
                    last = None
    disp = tabs[0][1] if tabs else {}
    if not pairs:
        rep.undecidable("R19.7", "parse-table", "the generated FromStr table of StaticVarName was not found (expected the entries of a phf map)")
    else:
        extra = sorted((s_, v_) for (s_, v_) in pairs if disp.get(v_) != s_)
        missing = sorted(set(disp) - {v_ for (s_, v_) in pairs})
        if extra or missing or len(pairs) != nvar:
            rep.violation("R19.7", "parse-table", "the spellings FromStr accepts are not exactly the canonical strings: %d entries for %d variants; accepted for a variant whose "
                          "canonical string differs: %s; variants without an entry: %s" % (len(pairs), nvar, extra[:4], missing[:4]), phf[0].loc() if phf else None)
        else:
            rep.ok("R19.7", "parse-table", "FromStr accepts exactly the %d canonical strings, each for its own variant" % len(pairs), phf[0].loc())
    # Ord for StaticVarName compares the strings
    b, g, rows = rows_path(facts, "<cgi::intern::StaticVarName as std::cmp::Ord>::cmp")
    ok = False
    for r in rows:
        if r.end == 'return' and r.ret is not None:
            x = ir.peel(r.ret)
            # either generated conversion to the canonical string (AsRef<str> / From<StaticVarName> for &'static str; both tables are checked above)
            def to_str(a):
                return any(y[0] == 'call' and (y[1].endswith("AsRef>::as_ref") or y[1].endswith("::into") or y[1].endswith("::from"))
                           and y[2] and ir.peel(y[2][0])[0] in ('param', 'deref') for y in ir.walk(a))
            ok = x[0] == 'call' and x[1].endswith("::cmp") and len(x[2]) == 2 and all(to_str(a) for a in x[2]) and \
                {p_[2] for a in x[2] for p_ in ir.walk(a) if p_[0] == 'param'} == {'self', 'other'}
    (rep.ok if ok else rep.violation)("R19.4", "static-ord", "interned names are ordered by their strings" if ok else "StaticVarName::cmp does not compare the canonical strings", b.loc())

    # ---- R19.5 ---------------------------------------------------------------------------------------------
    b, g, rows = rows_path(facts, FROM_COMPACT)
    ok = True
    n = 0
    for r in rows:
        if r.end != 'return':
            continue
        n += 1
        names = [c[0] for c in r.calls]
        up = [i for i, x in enumerate(names) if x.endswith("make_ascii_uppercase")]
        ps = [i for i, x in enumerate(names) if x.endswith("::parse")]
        if not up or not ps or up[0] > ps[0]:
            ok = False
    (rep.ok if ok and n else rep.violation)("R19.5", "from_compact", "make_ascii_uppercase precedes parse() on all %d paths" % n if ok else "from_compact does not upper-case before looking the name up", b.loc())
    # the lookup key is the name itself: what is parsed is the whole (folded) string that the Custom representation would store
    whole = True
    seen_parse = 0
    for r in rows:
        for c in r.calls:
            if not c[0].endswith("::parse") and not c[0].endswith("FromStr>::from_str") and not c[0].endswith("TryFrom<&str>>::try_from"):
                continue
            seen_parse += 1
            x = ir.peel(c[1][0]) if c[1] else None
            hops = 0
            while x is not None and x[0] == 'call' and hops < 6 and x[2] and x[1].split("::")[-1] in ("deref", "deref_mut", "as_str", "as_mut_str", "as_ref", "as_mut", "borrow", "borrow_mut"):
                x = ir.peel(x[2][0])
                hops += 1
            if x is None or x[0] != 'param':
                whole = False
    if seen_parse:
        (rep.ok if whole else rep.violation)("R19.5", "from_compact/lookup-key", "the interning lookup parses the whole folded name" if whole else
                                             "the interning lookup parses a string derived from the name (trimmed, sliced, split ...), not the name itself: a name that only "
                                             "resembles a well-known one is interned and reads back as a different string than the other constructors and VarName see", b.loc())
    ctor_sites = F.aggregates_of(facts, OWN)
    allowed_direct = {
        FROM_COMPACT: "folds first",
        "<cgi::OwnedVarName as std::convert::From<cgi::intern::StaticVarName>>::from": "interned (canonical by R19.4)",
        "<cgi::OwnedVarName as std::convert::From<&str>>::from": "non-normalising constructor (documented: keeps the spelling; comparisons fold)",
        "<cgi::OwnedVarName as std::clone::Clone>::clone": "copy",
    }
    for (bb, bi, si, st) in ctor_sites:
        if bb.path in allowed_direct:
            rep.ok("R19.5", "constructs[%s]" % bb.npath.split("::")[-2][-30:] + bb.path[-20:], allowed_direct[bb.path], bb.loc())
        else:
            rep.violation("R19.5", "constructs[%s]" % bb.path, "OwnedVarName is constructed directly outside the enumerated constructors", bb.loc())
    delegates = {
        "<cgi::OwnedVarName as std::convert::From<std::string::String>>::from": FROM_COMPACT,
        "<cgi::OwnedVarName as std::convert::From<std::boxed::Box<str>>>::from": FROM_COMPACT,
        "<cgi::OwnedVarName as std::convert::From<&http::HeaderName>>::from": FROM_COMPACT,
    }
    for raw, tgt in delegates.items():
        bb = facts.by_path.get(raw)
        if bb is None:
            if "http" in raw and not facts.has_feature("http"):
                continue
            rep.undecidable("R19.5", "delegates[%s]" % raw, "constructor not found")
            continue
        gg = ieg.IEG(facts, bb, inline_filter=lambda x: False)
        okd = True
        nn = 0
        for r in paths.rows(gg, max_visits=2):
            if r.end == 'return' and r.ret is not None:
                nn += 1
                x = ir.peel(r.ret)
                if not (x[0] == 'call' and x[1] == tgt):
                    okd = False
        (rep.ok if okd and nn else rep.violation)("R19.5", "delegates[%s]" % raw.split("From<")[1].split(">")[0], "returns from_compact(..)" if okd else "does not go through from_compact", bb.loc())
    # from_mut_str: make_ascii_uppercase(name) then the &str constructor on the same string
    b, g, rows = rows_path(facts, OWN + "::from_mut_str")
    ok = False
    for r in rows:
        if r.end == 'return':
            names = [c[0] for c in r.calls]
            up = [i for i, x in enumerate(names) if x.endswith("make_ascii_uppercase")]
            ok = bool(up) and up[0] == min(i for i, x in enumerate(names) if not x.endswith("deref") and not x.endswith("deref_mut")) if names else False
    (rep.ok if ok else rep.violation)("R19.5", "from_mut_str", "upper-cases in place before converting" if ok else "from_mut_str does not upper-case first", b.loc())
    # Cow: Owned -> String path, Borrowed -> &str path
    b, g, rows = rows_path(facts, "<cgi::OwnedVarName as std::convert::From<std::borrow::Cow<'a, str>>>::from")
    into_types = set()
    for blk in b.blocks:
        t = blk["t"]
        if t["k"] == "call" and (F.norm(t["func"].get("path", "")).endswith("Into::into") or F.norm(t["func"].get("path", "")).endswith("From::from")) and t["args"]:
            # `x.into()` and `Self::from(x)` are the same conversion: what matters is the type that is converted
            pl = t["args"][0].get("move") or t["args"][0].get("copy")
            if pl is not None and "p" not in pl:
                into_types.add(b.locals[pl["l"]]["ty"]["s"])
            elif t["func"].get("args"):
                into_types.add(t["func"]["args"][0]["s"])
    if into_types == {"std::string::String", "&str"}:
        rep.ok("R19.5", "from-cow", "Owned(String) => String constructor (normalising); Borrowed(&str) => &str constructor", b.loc())
    else:
        rep.violation("R19.5", "from-cow", "Cow arms convert %s" % sorted(into_types), b.loc())

    # ---- R19.6 ---------------------------------------------------------------------------------------------
    if facts.has_feature("http"):
        b, g, rows = rows_path(facts, "<cgi::OwnedVarName as std::convert::From<&http::HeaderName>>::from", max_visits=3)
        consts = set()
        seps = set()
        pushes = set()
        def lit(a):
            v = ir.const_value(a)
            if isinstance(v, bytes):
                return v
            a = ir.peel(a)
            c = facts.consts.get(a[1]) if a[0] == 'constdef' else None
            if c and c.get("ptrs") and len(c["ptrs"]) == 1:
                return bytes(c["ptrs"][0][1])       # a named `const PREFIX: &str`
            return None
        for r in rows:
            started = False     # has anything been put into the variable name yet?
            for (nm, args, n) in r.calls:
                if nm.endswith("CompactString::const_new"):
                    v = lit(args[0])
                    if isinstance(v, bytes):
                        consts.add(v)
                        started = True
                if nm.endswith("CompactString::push_str") and len(args) > 1:
                    v = lit(args[1])
                    if not started and isinstance(v, bytes):
                        consts.add(v)       # an empty string sized up front, then the prefix pushed first
                    started = True
                if nm.endswith("CompactString::push") or nm.endswith("::extend"):
                    started = True
                if nm.endswith("::split") and len(args) > 1:
                    v = ir.const_value(args[1])
                    seps.add(v)
                if nm.endswith("CompactString::push") and len(args) > 1:
                    pushes.add(ir.const_value(args[1]))
        # the same mapping written per character: var.extend(name.chars().map(|c| if c == '-' { '_' } else { c }))
        charmap = False
        for r in rows:
            for (nm, args, n) in r.calls:
                if nm.endswith("::map") and len(args) == 2 and any(y[0] == 'call' and y[1].endswith("::chars") for y in ir.walk(args[0])):
                    cl = ir.peel(args[1])
                    cb = facts.by_path.get(cl[2]) if cl[0] == 'agg' and cl[1] == 'closure' else None
                    if cb is None:
                        continue
                    cg = ieg.IEG(facts, cb, inline_filter=lambda x: False)
                    tab = {}
                    for q in paths.rows(cg):
                        if q.end != 'return' or q.ret is None:
                            continue
                        cs = [(ir.peel(e, casts=False), lab) for (e, lab, nd) in q.conds if ir.const_value(e) is None]
                        if len(cs) != 1 or cs[0][0][0] != 'bin' or cs[0][0][1] not in ('Eq', 'Ne'):
                            tab = None
                            break
                        e_, lab = cs[0]
                        ops = [ir.peel(e_[2]), ir.peel(e_[3])]
                        cv_ = [ir.const_value(o) for o in ops]
                        if not (ord('-') in cv_ and any(o[0] == 'param' for o in ops)):
                            tab = None
                            break
                        eq = (dispatch_truth(lab) == (e_[1] == 'Eq'))
                        rv = ir.peel(q.ret)
                        tab[eq] = ir.const_value(rv) if ir.const_value(rv) is not None else ('param' if rv[0] == 'param' else '?')
                    if tab == {True: ord('_'), False: 'param'}:
                        charmap = True
        extends = any(nm.endswith("::extend") for r in rows for (nm, args, n) in r.calls)
        if consts == {b"HTTP_"} and charmap and extends and not seps and not pushes:
            rep.ok("R19.6", "header-mapping", "\"HTTP_\" + name.chars().map('-' => '_', other => itself) (then from_compact upper-cases)", b.loc())
        elif consts == {b"HTTP_"} and seps == {ord('-')} and pushes == {ord('_')}:
            rep.ok("R19.6", "header-mapping", "\"HTTP_\" + name.split('-') joined with '_' (then from_compact upper-cases)", b.loc())
        else:
            rep.violation("R19.6", "header-mapping", "prefix %s, split on %s, joined with %s; expected HTTP_, '-', '_'" % (consts, seps, pushes), b.loc())


def main(rep, tier):
    f = F.load(("async", "http"))
    rep.configs.append({"features": "async,http", "profile": "debug", "bodies": len(f.bodies)})
    check.guard(rep, "R19", run, f)
    rep.floor("R19", "rule instances", len([i for i in rep.instances if i["status"] == "ok"]), 16)
    return rep.finish(
        "Delegation and fold-family rules: owned names hash/compare through the borrowed view (fast paths only for two interned names), "
        "all three relations use the ASCII-uppercase fold, hashed bytes are post-fold, the interned table is canonical and injective, "
        "normalising constructors go through the folding path.",
        not_decided="prefix-freeness arithmetic of the 16-byte chunked hashing; totality / antisymmetry of the order as computed facts")
