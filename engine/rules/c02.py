"""C02 — input stream extraction delivers exactly the stream's bytes, once, in order (structural clauses R2.1–R2.6)."""
import check
import facts as F
import ir
import ieg
import paths
import dispatch
from . import common, c04, c18
from .c17 import variant_of, agg_field, cv, nonconst_conds, case_value
from .c05 import rows_of, self_field

SP = "parser::stream::Parser"
ST = "parser::stream::State"


def strip0(e):
    """(X).0 of a checked arithmetic tuple -> the bin expression; casts stripped."""
    e = ir.peel(e)
    if e[0] == 'field' and str(e[2]) == '0' and ir.peel(e[1])[0] == 'bin':
        return ir.peel(e[1])
    return e


def added_amount(val, field):
    """If val == self.<field> (+|-) X, return (op, X)."""
    b = strip0(val)
    if b[0] == 'bin' and (b[1].startswith('Add') or b[1].startswith('Sub')):
        a0 = ir.peel(b[2])
        if a0[0] == 'field' and a0[2] == field:
            return ('+' if b[1].startswith('Add') else '-', ir.peel(b[3]))
    return None


def payload_step_bodies(facts):
    """The payload step: the body (other than the header dispatch) that writes `res.stream` / copies into the parsed region."""
    out = []
    for b in facts.bodies:
        if b.promoted or not b.npath.startswith(SP + "::"):
            continue
        for blk in b.blocks:
            for st in blk["st"]:
                if st["k"] == "assign" and any(el.get("n") == "stream" and F.norm(el.get("of", "")) == "parser::stream::Status" for el in st["place"].get("p", [])):
                    if b not in out:
                        out.append(b)
    return out


def run(rep, facts):
    rep.rule("R2.1", "the delivering state (State::Stream) is entered at exactly one dispatch row: active stream, own request id, non-empty record; it is constructed nowhere else")
    rep.rule("R2.2", "bytes are written to the caller's buffer or to the parsed region only while the record state is Stream")
    rep.rule("R2.3", "same-quantity accounting in the delivering arm: the amount added to Status.stream (and to gap_start when buffering) is the very value that advances raw_start and decreases payload_rem")
    rep.rule("R2.4", "the empty record of the active stream and the first record of a later stream are held back (no cursor or state change) and reported as end-of-stream")
    rep.rule("R2.5", "selecting a different stream demotes Stream->Skip and discards buffered data (R18.2); parse() asserts an empty stream buffer before delivering into a caller buffer")
    rep.rule("R2.6", "within one parse() call all records deliver through the same advancing caller-buffer cursor (the payload step gets `&mut dest` of parse's own parameter, not a fresh reborrow per record)")

    # ---- R2.1 / R2.4 from the dispatch table ------------------------------------------------------------------
    sr = check.Report("tmp", "quick")
    c04.r4_1_tables(sr, facts)
    for i in sr.instances:
        inst = i["instance"]
        if inst in ("stream/stream-data",):
            (rep.ok if i["status"] == "ok" else rep.violation)("R2.1", inst, i["detail"], i["loc"])
        if inst in ("stream/stream-end", "stream/later-stream", "stream/earlier-stream"):
            (rep.ok if i["status"] == "ok" else rep.violation)("R2.4", inst, i["detail"], i["loc"])
        if i["status"] != "ok" and inst.startswith("stream/") and ("untested" in inst or "missing" in inst):
            rep.violation("R2.1", inst, i["detail"], i["loc"])
    sites = dispatch.find_sites(facts)
    disp = sites.get('stream')
    ctor = [(b.npath, st["rv"]["vn"]) for (b, bi, si, st) in F.aggregates_of(facts, ST)
            if not (b.raw.get("impl_trait") and F.norm(b.raw["impl_trait"]) == "std::clone::Clone")]
    stream_sites = sorted({o for (p, v) in ctor if v == "Stream" for o in common.owners(facts, p)})
    if disp is not None and stream_sites == [disp.npath]:
        rep.ok("R2.1", "stream-state-construction", "State::Stream is constructed only in the header dispatch", disp.loc())
    else:
        rep.violation("R2.1", "stream-state-construction", "State::Stream is constructed in %s" % stream_sites)

    # ---- R2.2 / R2.3 on the payload step -----------------------------------------------------------------------
    steps = payload_step_bodies(facts)
    steps = [b for b in steps if disp is None or b is not disp]
    if len(steps) != 1:
        rep.undecidable("R2.3", "payload-step", "%d bodies write Status.stream; expected the payload step only" % len(steps))
        return
    pb = steps[0]
    g = ieg.IEG(facts, pb, inline_filter=lambda x: x.npath.startswith(SP + "::") and facts.fns.get(x.npath, {}).get("vis") != "pub")
    rows = paths.rows(g, max_paths=40000)
    st_d = facts.enum_discr(ST)
    n_stream_dest = n_stream_buf = 0
    bad22 = []
    bad23 = []
    for r in rows:
        if r.end != 'return':
            continue
        state = None
        for (e, lab) in nonconst_conds(r):
            pe = ir.peel(e)
            if pe[0] == 'discr' and ir.peel(pe[1])[0] == 'field' and ir.peel(pe[1])[2] == 'state':
                state = facts.variant_name(ST, case_value(lab)) if case_value(lab) is not None else 'other'
        w = {}
        for (pl, val, n, s_) in r.writes:
            if pl[0] == 'field':
                base = ir.peel(pl[1])
                who = base[2] if base[0] == 'param' else ir.show(base)[:12]
                w[(who, str(pl[2]))] = val
        copies = [c for c in r.calls if c[0].endswith("copy_within")]
        dwrites = [c for c in r.calls if c[0].endswith("::write") and len(c[1]) == 2]
        delivers = status_write(r, 'stream') is not None or copies or dwrites or ("self", "gap_start") in w
        if state != 'Stream':
            if delivers:
                bad22.append("stream bytes are delivered / Status.stream changes in record state %s" % state)
            continue
        # delivering arm
        rs = added_amount(w.get(("self", "raw_start"), ('x',)), 'raw_start')
        pr = added_amount(w.get(("self", "payload_rem"), ('x',)), 'payload_rem')
        sm = added_amount(status_write(r, 'stream') or ('x',), 'stream')
        if not rs or not pr or not sm or rs[0] != '+' or pr[0] != '-' or sm[0] != '+':
            bad23.append("the delivering arm does not update {Status.stream +=, raw_start +=, payload_rem -=}")
            continue
        amt = rs[1]
        if ir.peel(pr[1]) != amt or sm[1] != amt:
            bad23.append("the amounts differ: Status.stream += %s, raw_start += %s, payload_rem -= %s" % (ir.show(sm[1])[:40], ir.show(amt)[:40], ir.show(pr[1])[:40]))
            continue
        if dwrites:
            n_stream_dest += 1
            wcall = ir.peel(dwrites[0][1][0]), ir.peel(dwrites[0][1][1])
            # amount = result of writing the payload slice into the caller's buffer
            ok = any(y[0] == 'call' and y[1].endswith("::write") for y in ir.walk(amt))
            src = wcall[1]
            rng = [y for y in ir.walk(src) if y[0] == 'agg' and y[2].endswith("Range")]
            src_ok = bool(rng) and self_field(dict(rng[0][3])['start'], 'raw_start') and any(y[0] == 'field' and y[2] == 'buffer' for y in ir.walk(src))
            if not ok or not src_ok or copies or ("self", "gap_start") in w:
                bad23.append("caller-buffer delivery: amount is not the count written from buffer[raw_start..] into dest")
        else:
            n_stream_buf += 1
            gs = added_amount(w.get(("self", "gap_start"), ('x',)), 'gap_start')
            okc = len(copies) == 1
            if okc:
                c = copies[0]
                rng = ir.peel(c[1][1])
                dst = ir.peel(c[1][2])
                okc = rng[0] == 'agg' and self_field(dict(rng[3])['start'], 'raw_start') and self_field(dst, 'gap_start')
                end = strip0(dict(rng[3])['end']) if rng[0] == 'agg' else ('x',)
                okc = okc and end[0] == 'bin' and end[1].startswith('Add') and self_field(end[2], 'raw_start') and ir.peel(end[3]) == amt
            if not gs or gs[0] != '+' or gs[1] != amt or not okc:
                bad23.append("buffered delivery: copy_within(raw_start..raw_start+n, gap_start) / gap_start += n do not use the same n as the accounting")
        # the payload slice length is bounded by payload_rem
        if not any(y[0] == 'call' and y[1].endswith("::min") and any(z[0] == 'field' and z[2] == 'payload_rem' for z in ir.walk(y)) for y in ir.walk(amt) if True) and not dwrites:
            bad23.append("the delivered amount is not bounded by min(payload_rem, available)")
    if bad22:
        rep.violation("R2.2", "payload-step/deliver-only-in-stream", "; ".join(sorted(set(bad22))), pb.loc())
    else:
        rep.ok("R2.2", "payload-step/deliver-only-in-stream", "writes to the caller's buffer, the parsed region, gap_start and Status.stream occur only on the state == Stream arm", pb.loc())
    if bad23:
        rep.violation("R2.3", "payload-step/same-amount", "; ".join(sorted(set(bad23))), pb.loc())
    elif n_stream_dest and n_stream_buf:
        rep.ok("R2.3", "payload-step/same-amount", "caller-buffer (%d paths) and buffered (%d paths) delivery: one value n feeds Status.stream += n, raw_start += n, payload_rem -= n (and gap_start += n, copy_within of exactly n bytes)" % (n_stream_dest, n_stream_buf), pb.loc())
    else:
        rep.undecidable("R2.3", "payload-step/same-amount", "delivering paths not found (dest %d, buffered %d)" % (n_stream_dest, n_stream_buf), pb.loc())

    # ---- R2.5 ---------------------------------------------------------------------------------------------
    sr = check.Report("tmp", "quick")
    c18.run(sr, facts)
    for i in sr.instances:
        if i["rule"].startswith("R18.2"):
            (rep.ok if i["status"] == "ok" else rep.violation)("R2.5", i["instance"], i["detail"], i["loc"])
    b, g2, rows2 = rows_of(facts, SP + "::parse")
    ok = True
    n = 0
    for r in rows2:
        if r.end != 'return':
            continue
        n += 1
        guard = False
        for (e, lab) in nonconst_conds(r):
            pe = ir.peel(e, casts=False)
            if pe[0] == 'bin' and pe[1] == 'Eq' and self_field(pe[2], 'parsed_start') and self_field(pe[3], 'gap_start'):
                guard = True
            if pe[0] == 'call' and pe[1].endswith("Option::is_none") and ir.peel(pe[2][0])[0] == 'param':
                guard = guard or (isinstance(lab, tuple) and lab[0] == 'otherwise')
        if not guard:
            ok = False
    (rep.ok if ok and n else rep.violation)("R2.5", "parse/dest-needs-empty-buffer", "every return path passed `dest.is_none() || parsed_start == gap_start`" if ok else "parse() can deliver into a caller buffer while older bytes are still buffered (reordering)", b.loc())

    # ---- R2.6 ---------------------------------------------------------------------------------------------
    r_ = ir.Resolver(b, keep_refs=True)
    found = False
    for bi, blk in enumerate(b.blocks):
        t = blk["t"]
        if t["k"] == "call" and "path" in t["func"] and F.norm(t["func"]["path"]) == pb.npath:
            found = True
            # which argument carries the caller buffer: the one whose type mentions Option<&mut [u8]>
            okarg = False
            for a in t["args"]:
                e = r_.operand(a, (bi, -1))
                # &mut dest  (a reference to parse's own parameter local), possibly reborrowed
                x = e
                refs = 0
                while x[0] in ('ref', 'deref'):
                    refs += 1 if x[0] == 'ref' else 0
                    x = x[1]
                if x[0] == 'param' and x[2] == 'dest' and refs >= 1:
                    okarg = True
                # or a reference to a private struct that was built *before* the loop around `dest` (the cursor then lives in that struct)
                if x[0] == 'agg' and x[1] == 'adt' and refs >= 1 and any(ir.peel(v)[0] == 'param' and ir.peel(v)[2] == 'dest' for (_, v) in x[3]):
                    adt = x[2].rsplit("::", 1)[0]
                    loops = in_loop_blocks(b)
                    sites = [bj for bj, blk2 in enumerate(b.blocks) for st2 in blk2["st"]
                             if st2["k"] == "assign" and st2["rv"]["k"] == "agg" and F.norm(st2["rv"].get("adt", "")) == adt]
                    if sites and not any(bj in loops for bj in sites):
                        okarg = True
            loc = "%s:%d" % (t["sp"]["f"], t["sp"]["l"])
            (rep.ok if okarg else rep.violation)("R2.6", "parse/one-cursor", "the payload step receives `&mut dest` (parse's own parameter): the write cursor persists across records" if okarg else
                                                 "the payload step is handed a fresh reborrow / copy of the caller buffer per record: later records would overwrite earlier ones", loc)
    if not found:
        rep.undecidable("R2.6", "parse/one-cursor", "parse() does not call the payload step directly", b.loc())
    # and the payload step writes through that reference (advancing the slice in place)
    def writes_through(body, pidx, depth=0):
        """does `body` call <&mut [u8] as Write>::write on a receiver rooted (through derefs / fields / variants) at its
        parameter `pidx` -- directly, or in a helper (new relative to the pinned tree) that it hands that reference to?"""
        rr = ir.Resolver(body, keep_refs=True)
        for bi, blk in enumerate(body.blocks):
            t = blk["t"]
            if t["k"] != "call" or "path" not in t["func"]:
                continue
            nm = F.norm(t["func"].get("res", {}).get("path") or t["func"]["path"])
            for ai, a in enumerate(t["args"]):
                x = rr.operand(a, (bi, -1))
                derefs = 0
                while x[0] in ('ref', 'deref', 'field', 'variant'):
                    derefs += 1 if x[0] == 'deref' else 0
                    x = x[1]
                if not (x[0] == 'param' and x[1] == pidx):
                    continue
                if nm.endswith("::write") and len(t["args"]) == 2 and ai == 0 and derefs >= 1:
                    return True
                if depth < 3 and facts.is_new_helper(nm):
                    for hb in facts.by_npath.get(nm, []):
                        if writes_through(hb, ai + 1, depth + 1):
                            return True
        return False
    okw = any(writes_through(pb, k) for k in range(2, pb.argc + 1))      # whichever parameter of the payload step carries the caller's buffer
    (rep.ok if okw else rep.violation)("R2.6", "payload-step/writes-through-cursor", "buf.write(payload) goes through the reference into the caller's Option<&mut [u8]> (the slice advances in place)" if okw else
                                       "the payload step writes through a by-value copy of the caller buffer", pb.loc())


def status_write(r, field):
    """Value stored on this path into `<something of type stream::Status>.<field>`, identified by the owner type of the
    projection (not by the name of the variable or parameter that holds the Status), or None."""
    out = None
    for (pl, val, n, st) in r.writes:
        for el in st["place"].get("p", []):
            if "f" in el and str(el.get("n", el["f"])) == field and F.norm(el.get("of", "")) == "parser::stream::Status":
                out = val
    return out


def in_loop_blocks(body):
    """Blocks that lie on a cycle of the body's control-flow graph."""
    n = len(body.blocks)
    succ = {b: [x for x in body.succs(b)] for b in range(n)}
    index, low, onst, stack, out, cnt = {}, {}, set(), [], set(), [0]
    import sys
    sys.setrecursionlimit(10000)

    def sc(v):
        index[v] = low[v] = cnt[0]
        cnt[0] += 1
        stack.append(v)
        onst.add(v)
        for w in succ[v]:
            if w not in index:
                sc(w)
                low[v] = min(low[v], low[w])
            elif w in onst:
                low[v] = min(low[v], index[w])
        if low[v] == index[v]:
            comp = []
            while True:
                w = stack.pop()
                onst.discard(w)
                comp.append(w)
                if w == v:
                    break
            if len(comp) > 1 or v in succ[v]:
                out.update(comp)
    for v in range(n):
        if v not in index:
            sc(v)
    return out


def run_buffer_geometry(rep, facts):
    """R2.7: bytes that were extracted into the internal stream buffer, and protocol bytes not parsed yet, survive compaction and partial
    consumption (E8 geometry of compress / consume_stream / discard_stream / stream_buffer, rules of C03 re-evaluated)."""
    from . import c03
    rep.rule("R2.7", "buffer geometry of the stream parser (R3.10): compress / consume_stream / discard_stream / stream_buffer / input_buffer keep every live region "
                     "where the cursors say; a partially consumed stream buffer followed by compress() loses neither stream bytes nor pending protocol bytes")
    sr = check.Report("tmp", "quick")
    c03.run_geometry(sr, facts)
    n = 0
    for i in sr.instances:
        if i["rule"] == "R3.10" and not i["instance"].startswith("move_input") and "floor" not in i["instance"]:
            n += 1
            (rep.ok if i["status"] == "ok" else rep.violation)("R2.7", i["instance"], i["detail"], i["loc"])
    rep.floor("R2.7", "geometry postconditions", n, 4)


def run_async_delivery(rep, facts):
    """R2.8: what the parser delivered into a caller's buffer must also be *reported* to the caller: in the async read interfaces nothing that can
    return Pending / Err may run between a productive parse and returning its count, and every transport byte count is committed (rules of C09)."""
    if not facts.has_feature("async"):
        return
    from . import c09
    rep.rule("R2.8", "bytes the stream parser delivered reach the reader exactly once through the async interfaces: no early exit between a productive parse and "
                     "returning its count (R9.3), transport counts committed before return (R9.7)")
    sr = check.Report("tmp", "quick")
    c09.run(sr, facts)
    n = 0
    for i in sr.instances:
        if i["rule"] in ("R9.3", "R9.7"):
            n += 1
            (rep.ok if i["status"] == "ok" else rep.violation)("R2.8", i["instance"], i["detail"], i["loc"])
    rep.floor("R2.8", "async delivery rules", n, 4)


def run_errors_from_headers_only(rep, facts):
    """R2.9: "for every well-formed sequence of input-stream records ... regardless of ... read chunking, of whether data is delivered into caller
    buffers of any size or into the internal buffer, and of when the caller consumes or compacts that buffer": whether stream::Parser::parse fails
    may depend on what the records say, never on the schedule. Every error parse() can return is therefore produced where a record header is
    decoded and dispatched (those rows are decided by R2.1 / R2.4 and the tables of C03 / C04 / C11); the rest of parse() -- the loop, the
    payload step, any helper it calls that does not dispatch on a header -- sees only cursors, counters and buffer sizes, and constructs no error."""
    from facts import norm
    rep.rule("R2.9", "stream::Parser::parse fails only where a record header is dispatched: no other function it runs (the loop itself, the payload step, helpers) constructs "
                     "a parser error or an Err result -- buffer occupancy, destination size and call schedule never decide success")
    entry = facts.body("parser::stream::Parser::parse")
    dsites = set(b.npath for b in dispatch.find_sites(facts).values())
    seen = {}
    work = [entry]
    while work:
        b = work.pop()
        if b.npath in seen:
            continue
        seen[b.npath] = b
        for blk in b.blocks:
            t = blk["t"]
            if blk.get("cleanup") or t["k"] != "call" or "path" not in t["func"]:
                continue
            callee = norm(t["func"]["path"])
            if not (callee.startswith("parser::") or callee.startswith("<parser::")) or callee.startswith("parser::request::"):
                continue
            for cb in facts.by_npath.get(callee, []):
                if not cb.promoted:
                    work.append(cb)
        for cb in facts.bodies:
            if cb.npath.startswith(b.npath + "::{closure") and not cb.promoted:
                work.append(cb)
    n = 0
    for np_, b in sorted(seen.items()):
        if np_.split("::{closure")[0] in dsites:
            continue
        if any("protocol::RecordHeader" in b.locals[i_]["ty"]["s"] for i_ in range(1, min(b.argc, len(b.locals) - 1) + 1)):
            continue        # a helper that is handed the decoded header (the dispatch `match` extracted into a function): its errors are what the header says
        n += 1
        bad = None
        for bi, blk in enumerate(b.blocks):
            if blk.get("cleanup"):
                continue
            for st in blk["st"]:
                if st["k"] != "assign" or (st.get("sp") or {}).get("n"):
                    continue
                rv = st["rv"]
                if rv["k"] == "agg" and rv.get("ak") == "adt":
                    a = norm(rv["adt"])
                    if a == "std::result::Result" and rv.get("vi") == 1 and rv.get("ops"):
                        # `Err(e) => return Err(e)`: handing on the error of a callee is propagation, not construction
                        src = ir.Resolver(b).operand(rv["ops"][0], (bi, blk["st"].index(st)))
                        if any(x[0] == 'variant' and x[2] == 'Err' for x in ir.walk(src)):
                            continue
                    if a == "parser::Error" or (a == "std::result::Result" and rv.get("vi") == 1 and "parser::Error" in b.locals[st["place"]["l"]]["ty"]["s"]):
                        bad = bad or st
                elif rv["k"] == "use" and "const" in rv["op"] and "parser::Error" in str(rv["op"].get("ty", "")) and "p" not in st["place"]:
                    tys = b.locals[st["place"]["l"]]["ty"]["s"]
                    if tys.startswith("parser::Error") or tys.startswith("std::result::Result<"):
                        bad = bad or st
        key = "%s/no-error-constructed" % np_.replace("parser::stream::", "")
        if bad is not None:
            sp = bad.get("sp") or {}
            rep.violation("R2.9", key, "a function the stream parser runs outside the header dispatch constructs a parser error: parse() can fail on a well-formed record sequence "
                          "depending on buffer occupancy / destination size / call order", "%s:%s" % (sp.get("f"), sp.get("l")))
        else:
            rep.ok("R2.9", key, "constructs no parser error", b.loc())
    rep.floor("R2.9", "non-dispatch functions reachable from stream::Parser::parse", n, 2)


def main(rep, tier):
    f = F.load(("async", "http"))
    rep.configs.append({"features": "async,http", "profile": "debug", "bodies": len(f.bodies)})
    check.guard(rep, "R2", run, f)
    check.guard(rep, "R2.7", run_buffer_geometry, f)
    check.guard(rep, "R2.8", run_async_delivery, f)
    check.guard(rep, "R2.9", run_errors_from_headers_only, f)
    rep.floor("R2", "rule instances", len([i for i in rep.instances if i["status"] == "ok"]), 10)
    return rep.finish(
        "Necessary structural conditions of exact delivery: where the delivering state is entered and left, that bytes move only in that "
        "state, that one quantity drives all counters of the delivering arm, that end-of-stream headers are held back without consuming, "
        "that one advancing cursor serves all records of a call, that the buffer-moving functions keep every live region where the cursors say (R2.7), "
        "and that delivered bytes are also reported through the async read interfaces (R2.8).",
        not_decided="byte-exactness of the delivered stream as a whole under all fill / consume / compress schedules (the per-function buffer geometry is decided: R2.7 = R3.10)")
