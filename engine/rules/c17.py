"""C17 — record headers, fixed bodies and generated replies encode exactly as specified (R17.1–R17.8)."""
import json
import os
import re

import facts as F
import ir
import ieg
import paths

SPEC = json.load(open(os.path.join(F.VERIF, "spec", "fastcgi.json")))


def table(facts, name, inline=None, max_visits=1):
    b = facts.body(name)
    g = ieg.IEG(facts, b, inline_filter=inline or (lambda x: False))
    return b, g, paths.rows(g, max_visits=max_visits)


def dedupe(rows, keyf):
    seen = {}
    for r in rows:
        k = keyf(r)
        if k not in seen:
            seen[k] = r
    return list(seen.values())


def nonconst_conds(row):
    out = []
    after_dbg = False
    for (e, lab, n) in row.conds:
        sp = (getattr(n, "term", None) or {}).get("sp") or {}
        dbg = any(m.split("::")[-1] in ("debug_assert", "debug_assert_eq", "debug_assert_ne") for m in sp.get("m", []))
        if ir.const_value(e) is not None:
            after_dbg = after_dbg or dbg        # `if cfg!(debug_assertions)` of a debug assertion: its test comes next
            continue
        if dbg or after_dbg:
            after_dbg = False
            continue        # the test of a debug assertion: on the edge that goes on it holds and decides nothing
        out.append((e, lab))
    return out


def case_value(lab):
    if isinstance(lab, tuple) and lab[0] == 'case':
        return lab[1]
    return None


def variant_of(e):
    """Name of the enum variant an aggregate expression constructs ('X::Y::Variant' -> 'Variant')."""
    e = ir.peel(e)
    if e[0] == 'agg' and e[1] == 'adt':
        return e[2].split("::")[-1]
    return None


def agg_field(e, name):
    e = ir.peel(e)
    if e[0] == 'agg':
        for (n, x) in e[3]:
            if str(n) == str(name):
                return x
    return None


def cv(e):
    """Constant value of an expression modulo casts."""
    if e is None:
        return None
    return ir.const_value(ir.peel(e))


def const_by_suffix(facts, suffix, ty):
    for n, c in facts.consts.items():
        if n.endswith(suffix) and c.get("ty") == ty:
            return c
    return None


# ---------------------------------------------------------------------------------------------------

def r17_1_tables(rep, facts):
    for adt, spec_key in (("protocol::fields::RecordType", "record_types"), ("protocol::fields::Role", "roles"),
                          ("protocol::fields::ProtocolStatus", "protocol_status"), ("protocol::fields::Version", "version")):
        got = facts.enum_discr(adt)
        want = SPEC[spec_key]
        if got == want:
            rep.ok("R17.1", "enum[%s]" % adt.split("::")[-1], "discriminants equal the specification table %s" % want)
        else:
            rep.violation("R17.1", "enum[%s]" % adt.split("::")[-1], "discriminants %s differ from the specification %s" % (got, want))
    consts = {
        "protocol::RecordHeader::LEN": SPEC["header_len"],
        "protocol::body::BeginRequest::LEN": SPEC["body_len"],
        "protocol::body::EndRequest::LEN": SPEC["body_len"],
        "protocol::body::UnknownType::LEN": SPEC["body_len"],
        "protocol::FCGI_NULL_REQUEST_ID": SPEC["null_request_id"],
        "protocol::body::EPILOGUE_LEN": SPEC["crate_documented"]["epilogue_len"],
        "protocol::vars::ProtocolVariables::RESPONSE_LEN": SPEC["crate_documented"]["response_len"],
    }
    for name, want in consts.items():
        got = facts.const_int(name)
        if got == want:
            rep.ok("R17.1", "const[%s]" % name.split("::", 1)[-1], "= %d" % want)
        else:
            rep.violation("R17.1", "const[%s]" % name.split("::", 1)[-1], "is %d, specification / documentation says %d" % (got, want))
    # bitflags: KeepConn and the protocol variable names
    kc = const_by_suffix(facts, "::KeepConn", "protocol::fields::RequestFlags")
    if kc is None or kc.get("k") != "int" or int(kc["v"]) != SPEC["request_flags"]["KeepConn"]:
        rep.violation("R17.1", "flag[KeepConn]", "RequestFlags::KeepConn is %s, specification says 1" % (kc and kc.get("v")))
    else:
        rep.ok("R17.1", "flag[KeepConn]", "bit value 1")
    bits = {}
    for v in SPEC["variables"]:
        c = const_by_suffix(facts, "::" + v, "protocol::vars::ProtocolVariables")
        if c is None or c.get("k") != "int":
            rep.violation("R17.1", "variable[%s]" % v, "no ProtocolVariables flag named %s" % v)
        else:
            bits[v] = int(c["v"])
    if len(bits) == len(SPEC["variables"]):
        bs = list(bits.values())
        if len(set(bs)) == len(bs) and all(b and (b & (b - 1)) == 0 for b in bs):
            rep.ok("R17.1", "variables", "the three queryable variables are distinct single-bit flags %s" % bits)
        else:
            rep.violation("R17.1", "variables", "variable flags overlap or are not single bits: %s" % bits)
    # the name table used by iter_names / from_name (bitflags FLAGS constant: names behind pointers)
    strs = set()
    for n, c in facts.consts.items():
        if "vars" in n and n.endswith("::FLAGS"):
            for (off, b) in c.get("ptrs", []):
                if b:
                    strs.add(bytes(b).decode("ascii", "replace"))
    if strs:
        joined = " ".join(sorted(strs))
        if all(v in joined for v in SPEC["variables"]):
            rep.ok("R17.1", "variable-names", "the flag name table spells %s" % SPEC["variables"])
        else:
            rep.violation("R17.1", "variable-names", "name table %s does not contain the specified names" % sorted(strs))


def r17_1_from_repr(rep, facts):
    """from_repr (strum) is the identity on discriminants; TryFrom wraps it and reports the offending value."""
    for adt, err in (("protocol::fields::RecordType", "UnknownRecordType"), ("protocol::fields::Role", "UnknownRole"),
                     ("protocol::fields::ProtocolStatus", "UnknownStatus"), ("protocol::fields::Version", "UnknownVersion")):
        short = adt.split("::")[-1]
        discr = facts.enum_discr(adt)
        try:
            b, g, rows = table(facts, adt + "::from_repr")
        except F.MissingAnchor as e:
            rep.undecidable("R17.1", "from_repr[%s]" % short, str(e))
            continue
        got = {}
        none_rows = 0
        for r in rows:
            if r.end != 'return' or r.ret is None:
                continue
            v = variant_of(r.ret)
            if v == 'None':
                none_rows += 1
                continue
            inner = agg_field(r.ret, 0)
            vn = variant_of(inner) if inner is not None else None
            # the last equality that was true on this path names the constant compared with
            consts = [ir.peel(x) for (e, lab) in nonconst_conds(r) for x in ir.walk(e) if ir.peel(x)[0] == 'constdef']
            trues = []
            for (e, lab) in nonconst_conds(r):
                pe = ir.peel(e)
                if pe[0] == 'bin' and pe[1] == 'Eq' and isinstance(lab, tuple) and lab[0] == 'otherwise':
                    cs = [ir.peel(x) for x in (pe[2], pe[3]) if ir.peel(x)[0] == 'constdef']
                    if cs:
                        trues.append(cs[0])
            if vn and trues:
                got[vn] = trues[-1][3]
            elif vn and not trues:
                # switchInt directly on the value
                vals = [case_value(lab) for (e, lab) in nonconst_conds(r) if case_value(lab) is not None]
                if vals:
                    got[vn] = vals[-1]
        if got == discr and none_rows >= 1:
            rep.ok("R17.1", "from_repr[%s]" % short, "decodes exactly %s, everything else is None" % got, b.loc())
        else:
            rep.violation("R17.1", "from_repr[%s]" % short, "decode table %s differs from the discriminants %s" % (got, discr), b.loc())
        # TryFrom: Err(UnknownX(v)) carries the input; built from from_repr(v)
        tname = "<%s as std::convert::TryFrom>::try_from" % adt
        tb = facts.body(tname)
        r = ir.Resolver(tb)
        calls = [F.norm(blk["t"]["func"].get("path", "")) for blk in tb.blocks if blk["t"]["k"] == "call"]
        errs = [st for blk in tb.blocks for st in blk["st"] if st["k"] == "assign" and st["rv"]["k"] == "agg" and st["rv"].get("adt") == "protocol::Error"]
        ok = (adt + "::from_repr") in calls and len(errs) == 1 and errs[0]["rv"]["vn"] == err
        if ok:
            bi = next(i for i, blk in enumerate(tb.blocks) if errs[0] in blk["st"])
            pay = ir.peel(r.operand(errs[0]["rv"]["ops"][0], (bi, tb.blocks[bi]["st"].index(errs[0]))))
            ok = pay[0] == 'param'
        if ok:
            rep.ok("R17.1", "try_from[%s]" % short, "from_repr(v).ok_or(%s(v))" % err, tb.loc())
        else:
            rep.violation("R17.1", "try_from[%s]" % short, "TryFrom does not decode through from_repr and report %s(input)" % err, tb.loc())


def r17_2_exit_status(rep, facts):
    b, g, rows = table(facts, "<protocol::body::EndRequest as std::convert::From>::from")
    est = facts.enum_discr("ExitStatus")
    got = {}
    for r in rows:
        if r.end != 'return' or r.ret is None:
            continue
        vals = [case_value(lab) for (e, lab) in nonconst_conds(r) if case_value(lab) is not None]
        if not vals:
            continue
        name = facts.variant_name("ExitStatus", vals[-1])
        ps = variant_of(agg_field(r.ret, "protocol_status"))
        a = ir.peel(agg_field(r.ret, "app_status"))
        if ir.const_value(a) is not None:
            av = ir.const_value(a)
        elif a[0] == 'field' and a[1][0] == 'variant' and a[1][2] == name:
            av = "payload"
        else:
            av = ir.show(a)
        got[name] = {"protocol_status": ps, "app_status": av}
    want = SPEC["exit_status_table"]
    if got == want and set(est) == set(want):
        rep.ok("R17.2", "exit-status-table", "ExitStatus -> EndRequest table equals the documented one: %s" % got, b.loc())
    else:
        rep.violation("R17.2", "exit-status-table", "table %s differs from the documented %s" % (got, want), b.loc())
    ab = facts.consts.get("ExitStatus::ABORT")
    want_b = SPEC["crate_documented"]["abort_status_bytes"].encode()
    if ab is None or "bytes" not in ab:
        rep.undecidable("R17.2", "abort-constant", "ExitStatus::ABORT has no byte image")
    else:
        raw = bytes(ab["bytes"])
        # repr(u8) enum with a u32 payload: tag byte 0 (Complete) and the little-endian payload at offset 4
        payload = int.from_bytes(raw[4:8], "little")
        if raw[0] == est["Complete"] and payload == int.from_bytes(want_b, "big"):
            rep.ok("R17.2", "abort-constant", "ExitStatus::ABORT == Complete(0x%08x) == b\"ABRT\" big-endian" % payload)
        else:
            rep.violation("R17.2", "abort-constant", "ExitStatus::ABORT is tag %d payload 0x%08x; documented Complete(b\"ABRT\")" % (raw[0], payload))


def r17_3_to_record(rep, facts):
    for struct, rtype in (("UnknownType", "Unknown"), ("BeginRequest", "BeginRequest"), ("EndRequest", "EndRequest")):
        name = "protocol::body::%s::to_record" % struct
        b, g, rows = table(facts, name)
        rows = [r for r in rows if r.end == 'return']
        if len(rows) != 1:
            rep.undecidable("R17.3", "to_record[%s]" % struct, "%d success paths, expected a straight line" % len(rows), b.loc())
            continue
        r = rows[0]
        copies = r.called("core::slice::copy_from_slice")
        okh = okb = False
        order = []
        for (nm, args, n) in copies:
            dst, src = ir.peel(args[0]), ir.peel(args[1])
            rng = [x for x in ir.walk(dst) if x[0] == 'agg' and x[2].startswith("std::ops::Range")]
            sp_ = ir.peel(dst[1]) if dst[0] == 'field' else None
            if not rng and sp_ is not None and sp_[0] == 'call' and sp_[1].split("::")[-1] in ("split_at_mut", "split_at_mut_checked") and len(sp_[2]) == 2 \
                    and ir.peel(sp_[2][0])[0] in ('local', 'agg', 'const') and str(dst[2]) in ('0', '1'):
                # `let (h, b) = buf.split_at_mut(LEN)`: h is buf[..LEN], b is buf[LEN..]
                rk = "RangeTo" if str(dst[2]) == '0' else "RangeFrom"
                bound = {"end": sp_[2][1], "start": sp_[2][1]}
            elif not rng:
                continue
            else:
                rk = rng[0][2].split("::")[-1]
                bound = dict(rng[0][3])
            if rk == "RangeTo" and cv(bound.get("end")) == SPEC["header_len"]:
                h = [x for x in ir.walk(src) if x[0] == 'agg' and x[2] == "protocol::RecordHeader::RecordHeader"]
                if h and ir.peel(src)[0] == 'call' and ir.peel(src)[1] == "protocol::RecordHeader::to_bytes":
                    hd = dict(h[0][3])
                    okh = (variant_of(hd["version"]) == "V1" and variant_of(hd["rtype"]) == rtype
                           and cv(hd["content_length"]) == SPEC["body_len"]
                           and cv(hd["padding_length"]) == 0
                           and ir.peel(hd["request_id"])[0] == 'param')
                    order.append('head')
            elif rk == "RangeFrom" and cv(bound.get("start")) == SPEC["header_len"]:
                s2 = ir.peel(src)
                if s2[0] == 'call' and s2[1] == "protocol::body::%s::to_bytes" % struct and ir.peel(s2[2][0])[0] == 'param':
                    okb = True
                    order.append('body')
        if okh and okb and order == ['head', 'body'] and len(copies) == 2:
            rep.ok("R17.3", "to_record[%s]" % struct, "header {V1, %s, id parameter, content_length 8, padding 0} in bytes 0..8, body in bytes 8..16" % rtype, b.loc())
        else:
            rep.violation("R17.3", "to_record[%s]" % struct, "whole-record encoder does not place a {V1, %s, id, 8, 0} header before its own body (header ok=%s, body ok=%s, copies=%d)" % (rtype, okh, okb, len(copies)), b.loc())


def layout_of_encoder(facts, name):
    """field -> (lo, hi) from a to_bytes body."""
    b, g, rows = table(facts, name)
    rows = [r for r in rows if r.end == 'return']
    if len(rows) != 1:
        return None, b
    r = rows[0]
    lay = {}

    def src_field(e):
        e = ir.peel(e)
        while e[0] == 'call' and e[2]:
            e = ir.peel(e[2][0])
        if e[0] == 'field' and ir.peel(e[1])[0] == 'param':
            return e[2]
        return None
    for (pl, val, n, st) in r.writes:
        if pl[0] == 'index' and isinstance(pl[2], tuple):
            i = ir.const_value(pl[2])
            f = src_field(val)
            if i is not None and f:
                lay[f] = (i, i + 1)
    # the encoder may also build the array in one literal: element i is byte i
    ret = ir.peel(r.ret) if r.ret is not None else None
    if ret is not None and ret[0] == 'agg' and ret[1] == 'array' and not lay:
        multi = {}
        for i, (_, el) in enumerate(ret[3]):
            e = ir.peel(el)
            if e[0] == 'index' and isinstance(e[2], tuple) and ir.const_value(e[2]) is not None:
                base = ir.peel(e[1])
                if base[0] == 'call' and base[1] == "core::num::to_be_bytes":
                    f = src_field(base[2][0])
                    if f:
                        multi.setdefault(f, []).append((i, ir.const_value(e[2])))
                        continue
            f = src_field(e)
            if f:
                lay[f] = (i, i + 1)
        for f, pairs in multi.items():
            pos = [p_ for p_, _ in pairs]
            ks = [k_ for _, k_ in pairs]
            if ks == list(range(len(ks))) and pos == list(range(pos[0], pos[0] + len(pos))):
                lay[f] = (pos[0], pos[-1] + 1)
            else:
                lay[f] = ("byte order", tuple(ks))
    for (nm, args, n) in r.called("core::slice::copy_from_slice"):
        dst, src = ir.peel(args[0]), ir.peel(args[1])
        rng = [x for x in ir.walk(dst) if x[0] == 'agg' and x[2].startswith("std::ops::Range")]
        be = [x for x in ir.walk(src) if x[0] == 'call' and x[1] == "core::num::to_be_bytes"]
        if rng and be:
            bound = dict(rng[0][3])
            lo = ir.const_value(bound.get("start")) if "start" in bound else 0
            hi = ir.const_value(bound.get("end"))
            f = src_field(be[0][2][0])
            if f and hi is not None:
                lay[f] = (lo, hi)
    return lay, b


def layout_of_decoder(facts, name, struct):
    """field -> (lo, hi) from a from_bytes body (success row)."""
    b, g, rows = table(facts, name)
    best = None
    for r in rows:
        if r.end == 'return' and r.ret is not None:
            aggs = [x for x in ir.walk(r.ret) if x[0] == 'agg' and x[2].endswith("::%s::%s" % (struct, struct))]
            if aggs:
                best = aggs[0]
    if best is None:
        return None, b
    lay = {}
    for (fname, fe) in best[3]:
        idx = []
        be = False
        for x in ir.walk(fe):
            if x[0] == 'index' and isinstance(x[2], tuple) and ir.const_value(x[2]) is not None and ir.peel(x[1])[0] == 'param':
                idx.append(ir.const_value(x[2]))
            if x[0] == 'call' and x[1] == "core::num::from_be_bytes":
                be = True
                arr = ir.peel(x[2][0])
                if arr[0] == 'agg':
                    order = [ir.const_value(ir.peel(y)[2]) for (_, y) in arr[3] if ir.peel(y)[0] == 'index']
                    if order != sorted(order) or order != list(range(order[0], order[0] + len(order))):
                        lay[fname] = ("byte order", tuple(order))
                        idx = []
                        break
        if idx:
            lay[fname] = (min(idx), max(idx) + 1)
            if len(idx) > 1 and not be:
                return None, b
    return lay, b


def r17_7_layouts(rep, facts):
    for struct, path in (("RecordHeader", "protocol::RecordHeader"), ("BeginRequest", "protocol::body::BeginRequest"),
                         ("EndRequest", "protocol::body::EndRequest"), ("UnknownType", "protocol::body::UnknownType")):
        want = {k: tuple(v) for k, v in SPEC["layouts"][struct].items()}
        enc, eb = layout_of_encoder(facts, path + "::to_bytes")
        dec, db = layout_of_decoder(facts, path + "::from_bytes", struct)
        if enc is None or dec is None:
            rep.undecidable("R17.7", "layout[%s]" % struct, "cannot extract the byte layout (encoder %s, decoder %s)" % (enc is not None, dec is not None), eb.loc())
            continue
        if enc == want and dec == want:
            rep.ok("R17.7", "layout[%s]" % struct, "encoder and decoder agree with the specification layout %s (multi-byte fields big-endian)" % want, eb.loc())
        else:
            rep.violation("R17.7", "layout[%s]" % struct, "layout mismatch: encoder %s, decoder %s, specification %s" % (enc, dec, want), eb.loc())


def _mod8(e, r, pname):
    """Congruence-domain value of expression e when the content length is congruent to r modulo 8: ('val', k) = exactly k (a small
    non-negative integer), ('res', k) = some integer congruent to k modulo 8, None = not expressible.  Sound for the wrapping and the
    exact machine arithmetic alike, because 8 divides every power of two the integer types wrap at."""
    e = ir.peel(e, casts=True)
    k = e[0]
    c = ir.const_value(e)
    if isinstance(c, int) and not isinstance(c, bool):
        return ('val', c) if 0 <= c < 1 << 20 else ('res', c % 8)
    if k == 'param':
        return ('res', r) if e[2] == pname else None
    if k == 'cast':
        return _mod8(e[1], r, pname)
    if k == 'field' and ir.peel(e[1])[0] == 'bin':
        return _mod8(e[1], r, pname)          # `.0` of a checked operation's (value, overflowed) pair
    if k == 'bin':
        op = e[1].replace("WithOverflow", "").replace("Unchecked", "")
        if op == 'Sub':
            # next_multiple_of(x, 8) - x is exactly the distance to the next multiple of 8: (8 - x % 8) % 8
            up = ir.peel(e[2], casts=True)
            if up[0] == 'call' and up[1].split("::")[-1] == 'next_multiple_of' and len(up[2]) == 2 and ir.const_value(ir.peel(up[2][1], casts=True)) == 8 \
                    and ir.peel(up[2][0], casts=True) == ir.peel(e[3], casts=True):
                x = _mod8(up[2][0], r, pname)
                return ('val', (-x[1]) % 8) if x is not None else None
        a, b = _mod8(e[2], r, pname), _mod8(e[3], r, pname)
        if a is None or b is None:
            return None
        if op == 'Rem' and b == ('val', 8):
            return ('val', a[1] % 8)
        if op == 'BitAnd' and (b == ('val', 7) or a == ('val', 7)):
            return ('val', (a[1] if b == ('val', 7) else b[1]) % 8)
        if op in ('Add', 'Sub', 'Mul'):
            v = a[1] + b[1] if op == 'Add' else a[1] - b[1] if op == 'Sub' else a[1] * b[1]
            if a[0] == 'val' and b[0] == 'val':
                return ('val', v) if v >= 0 else None
            return ('res', v % 8)
        return None
    if k == 'call' and e[2]:
        short = e[1].split("::")[-1]
        args = [_mod8(a, r, pname) for a in e[2]]
        if any(a is None for a in args):
            return None
        if short == 'wrapping_neg' and len(args) == 1:
            return ('res', (-args[0][1]) % 8)
        if short in ('wrapping_add', 'wrapping_sub', 'wrapping_mul') and len(args) == 2:
            v = args[0][1] + args[1][1] if short.endswith('add') else args[0][1] - args[1][1] if short.endswith('sub') else args[0][1] * args[1][1]
            return ('res', v % 8)
        if short in ('from', 'into') and len(args) == 1:
            return args[0]
        if short == 'next_multiple_of' and len(args) == 2 and args[1][0] == 'val' and args[1][1] > 0 and args[1][1] % 8 == 0:
            return ('res', 0)
    return None


def r17_6_set_lengths(rep, facts):
    """Decided in the congruence domain modulo 8 (eight residue classes of the content length): on every path that is feasible for the
    class, the stored padding is exactly (8 - r) % 8 -- whatever formula computes it (branch on r, `8 - r`, `wrapping_neg() % 8`, a mask)."""
    b, g, rows = table(facts, "protocol::RecordHeader::set_lengths")
    rows = [r for r in rows if r.end == 'return']
    pname = None
    bad = []
    for r in rows:
        w = {pl[2]: val for (pl, val, n, st) in r.writes if pl[0] == 'field'}
        cl = ir.peel(w.get("content_length"), casts=True) if w.get("content_length") is not None else None
        if cl is None or cl[0] != 'param' or "padding_length" not in w:
            bad.append("a return path does not store the argument as content_length and a padding_length")
            continue
        pname = cl[2]
    n_checked = 0
    if not bad and pname is not None:
        for res in range(8):
            feasible = 0
            for r in rows:
                ok_path = True
                for (e, lab) in nonconst_conds(r):
                    pe = ir.peel(e, casts=True)
                    truth = None
                    if pe[0] == 'bin' and pe[1] in ('Eq', 'Ne', 'Lt', 'Le', 'Gt', 'Ge'):
                        a, c = _mod8(pe[2], res, pname), _mod8(pe[3], res, pname)
                        if a and c and a[0] == 'val' and c[0] == 'val':
                            truth = {'Eq': a[1] == c[1], 'Ne': a[1] != c[1], 'Lt': a[1] < c[1], 'Le': a[1] <= c[1], 'Gt': a[1] > c[1], 'Ge': a[1] >= c[1]}[pe[1]]
                            taken = (lab[1] != 0) if lab[0] == 'case' else (True if lab[0] == 'otherwise' and 0 in lab[1] else None)
                    else:
                        a = _mod8(pe, res, pname)
                        if a and a[0] == 'val' and isinstance(lab, tuple):
                            # switchInt directly on a small value (e.g. `match content_length % 8 { 0 => .., n => .. }`)
                            truth = True
                            taken = (lab[1] == a[1]) if lab[0] == 'case' else (a[1] not in lab[1])
                    if truth is None:
                        continue            # a test the domain cannot evaluate: the path stays possible
                    if taken is not None and taken != truth:
                        ok_path = False
                        break
                if not ok_path:
                    continue
                feasible += 1
                w = {pl[2]: val for (pl, val, n, st) in r.writes if pl[0] == 'field'}
                v = _mod8(w["padding_length"], res, pname)
                want = (8 - res) % 8
                if v is None:
                    bad.append("the padding stored for content_length = %d (mod 8) is not expressible modulo 8: %s" % (res, ir.show(w["padding_length"])[:70]))
                elif v[0] != 'val':
                    bad.append("the padding stored for content_length = %d (mod 8) is only known modulo 8 (it may be 8 or more)" % res)
                elif v[1] != want:
                    bad.append("content_length = %d (mod 8) gets padding %d, expected %d" % (res, v[1], want))
                else:
                    n_checked += 1
            if not feasible:
                bad.append("no return path is feasible for content_length = %d (mod 8)" % res)
    if not bad and n_checked >= 8:
        rep.ok("R17.6", "set_lengths", "content_length <- argument; for each residue r = content_length %% 8 every feasible path stores padding (8 - r) %% 8 "
               "(congruence domain modulo 8, %d path/class pairs); hence padding < 8 and content+padding is a multiple of 8" % n_checked, b.loc())
    else:
        rep.violation("R17.6", "set_lengths", "padding rule is not {r == 0 => 0, r > 0 => 8 - r} with r = content_length %% 8: %s" % "; ".join(sorted(set(bad))[:3]), b.loc())


def r17_8_version_first(rep, facts):
    b, g, rows = table(facts, "protocol::RecordHeader::from_bytes")
    ver = "<protocol::fields::Version as std::convert::TryFrom>::try_from"
    rty = "<protocol::fields::RecordType as std::convert::TryFrom>::try_from"
    ok = True
    n = 0
    for r in rows:
        names = [c[0] for c in r.calls]
        if rty in names:
            n += 1
            if ver not in names or names.index(ver) > names.index(rty):
                ok = False
            # the version result must have been tested (its Err returned) before the type is decoded
            vi = names.index(ver) if ver in names else -1
            tested = any(any(x[0] == 'call' and x[1] == ver for x in ir.walk(e)) for (e, lab, nd) in r.conds)
            if not tested:
                ok = False
    if ok and n:
        rep.ok("R17.8", "version-checked-first", "on all %d paths that decode the record type, the version was decoded and its error returned first" % n, b.loc())
    else:
        rep.violation("R17.8", "version-checked-first", "the record type is decoded before the version has been validated", b.loc())
    # decode arguments: version from byte 0, type from byte 1
    for r in rows:
        for (nm, args, nd) in r.calls:
            if nm in (ver, rty):
                a = ir.peel(args[0])
                want = 0 if nm == ver else 1
                if not (a[0] == 'index' and ir.const_value(a[2]) == want):
                    rep.violation("R17.8", "decode-byte[%s]" % nm.split("::")[2], "decoded from %s, expected data[%d]" % (ir.show(a), want), b.loc())
                    return


def r17_4_epilogue(rep, facts):
    b, g, rows = table(facts, "protocol::body::make_request_epilogue", max_visits=3)
    good = 0
    iterated = 0
    # written generically over `S: Into<EndRequest>`: fine as long as every caller passes an ExitStatus (its From impl is R17.2's table)
    callers = F.calls_to(facts, lambda n: n == "protocol::body::make_request_epilogue")
    generic_status_ok = bool(callers) and all(
        any(str(a.get("s", "")).endswith("ExitStatus") for a in t_["func"].get("args", []) if isinstance(a, dict)) for (cb, cbi, t_, nm_) in callers)
    for r in rows:
        if r.end != 'return':
            continue
        ext = [c for c in r.calls if c[0].endswith("extend_from_slice")]
        if not ext:
            rep.violation("R17.4", "epilogue-language", "a path returns an epilogue without an EndRequest record", b.loc())
            return
        last = ir.peel(ext[-1][1][1])
        okl = (last[0] == 'call' and last[1] == "protocol::body::EndRequest::to_record"
               and ir.peel(last[2][1])[0] == 'param'
               and any(x[0] == 'call' and (x[1] == "<protocol::body::EndRequest as std::convert::From>::from" or (x[1].endswith("Into>::into") or x[1].endswith("Into::into")) and generic_status_ok)
                       and ir.peel(x[2][0])[0] == 'param' for x in ir.walk(last[2][0])))
        okh = True
        for c in ext[:-1]:
            d = ir.peel(c[1][1])
            hdr = [x for x in ir.walk(d) if x[0] == 'call' and x[1] == "protocol::RecordHeader::new"]
            direct = (d[0] == 'call' and d[1] == "protocol::RecordHeader::to_bytes" and hdr and ir.peel(hdr[0][2][1])[0] == 'param'
                      and any(y[0] == 'call' and 'Iterator' in y[1] and y[1].endswith("::next") for y in ir.walk(hdr[0][2][0])))
            # or: the headers are produced lazily, `streams.iter().map(|&s| RecordHeader::new(s, id).to_bytes())`, and appended one by one
            mapped = False
            nxt = [y for y in ir.walk(d) if y[0] == 'call' and 'Iterator' in y[1] and y[1].endswith("::next")]
            cls = [y for y in ir.walk(d) if y[0] == 'agg' and y[1] == 'closure']
            if not direct and nxt and len(cls) == 1 and any(y[0] == 'call' and y[1].endswith("::map") for y in ir.walk(d)):
                cb = facts.by_path.get(cls[0][2])
                if cb is not None:
                    cg = ieg.IEG(facts, cb, inline_filter=lambda x: False)
                    crs = [r2 for r2 in paths.rows(cg) if r2.end == 'return' and r2.ret is not None]
                    def hdr_of_item(e2):
                        e2 = ir.peel(e2)
                        if not (e2[0] == 'call' and e2[1] == "protocol::RecordHeader::to_bytes"):
                            return False
                        h2 = ir.peel(e2[2][0])
                        return (h2[0] == 'call' and h2[1] == "protocol::RecordHeader::new"
                                and any(z[0] == 'param' and z[1] == 2 for z in ir.walk(h2[2][0]))       # the item handed to the closure
                                and ir.peel(h2[2][1])[0] in ('upvar', 'field'))                         # the captured request id
                    mapped = bool(crs) and all(hdr_of_item(r2.ret) for r2 in crs)
                    # the captured id is the function's id parameter
                    ups = [ir.peel(v) for (_, v) in cls[0][3]]
                    mapped = mapped and any(u[0] == 'param' for u in ups)
            patched = False
            if not direct and not mapped and d[0] == 'call' and d[1] == "protocol::RecordHeader::to_bytes" and hdr and ir.peel(hdr[0][2][1])[0] == 'param':
                # one header built before the loop (with the id parameter) whose record type is overwritten per stream: the last write of a
                # local's `rtype` field before this append, on this path, stores the current item of the `streams` iterator
                pos = r.nodes.index(c[2]) if c[2] in r.nodes else None
                last_w = None
                for (pl, val, nd, s_) in r.writes:
                    if pl[0] == 'field' and pl[2] == 'rtype' and ir.peel(pl[1])[0] != 'param' and nd in r.nodes and pos is not None and r.nodes.index(nd) <= pos:
                        last_w = val
                if last_w is not None and any(y[0] == 'call' and 'Iterator' in y[1] and y[1].endswith("::next") for y in ir.walk(last_w)):
                    patched = True
            if not (direct or mapped or patched):
                okh = False
        # the EndRequest and the stream headers must use the same id parameter
        ids = set()
        for x in ir.walk(last):
            pass
        if okl and okh:
            good += 1
            iterated += 1 if len(ext) > 1 else 0
        else:
            rep.violation("R17.4", "epilogue-language", "epilogue is not (empty stream header from `streams`, id)* followed by EndRequest::from(status).to_record(id)", b.loc())
            return
    if good and not iterated:
        rep.undecidable("R17.4", "epilogue-language", "no path with a stream header was explored", b.loc())
    elif good:
        rep.ok("R17.4", "epilogue-language", "every path appends (RecordHeader::new(stream_i, id).to_bytes())* then EndRequest::from(status).to_record(id), nothing else", b.loc())
    else:
        rep.undecidable("R17.4", "epilogue-language", "no returning path found", b.loc())
    # RecordHeader::new: V1, lengths 0
    nb, ng, nrows = table(facts, "protocol::RecordHeader::new")
    for r in nrows:
        if r.end == 'return' and r.ret is not None:
            d = dict(ir.peel(r.ret)[3]) if ir.peel(r.ret)[0] == 'agg' else {}
            if (variant_of(d.get("version", ('x',))) == "V1" and ir.const_value(d.get("content_length", ('x',))) == 0
                    and ir.const_value(d.get("padding_length", ('x',))) == 0 and ir.peel(d["rtype"])[0] == 'param' and ir.peel(d["request_id"])[0] == 'param'):
                rep.ok("R17.4", "header-new", "RecordHeader::new = {V1, rtype, id, 0, 0}: an empty record of the stream", nb.loc())
            else:
                rep.violation("R17.4", "header-new", "RecordHeader::new builds %s" % ir.show(r.ret)[:120], nb.loc())


def r17_5_response(rep, facts):
    """write_response: header placeholder appended at `start = out.len()`, one nv::write per requested flag with the
    configured limit / constant "0", padding appended once, header patched in place; RESPONSE_LEN covers the maximum."""
    name = "protocol::vars::ProtocolVariables::write_response"
    b = facts.body(name)

    def direct_names(bb):
        return [F.norm(blk["t"]["func"]["res"]["path"] if blk["t"]["func"].get("res") else blk["t"]["func"].get("path", ""))
                for blk in bb.blocks if blk["t"]["k"] == "call" and "func" in blk["t"]]
    if not any(n_ in direct_names(b) for n_ in ("protocol::nv::write", "protocol::RecordHeader::new", "protocol::RecordHeader::set_lengths",
                                                "protocol::RecordHeader::padding_bytes", "protocol::RecordHeader::to_bytes")):
        # a thin (e.g. generic-to-dyn) wrapper around a helper that is new relative to the pinned tree: the rules apply to where the work is done
        import dispatch as _d0
        wanted = {"protocol::nv::write", "protocol::RecordHeader::new", "protocol::RecordHeader::set_lengths", "protocol::RecordHeader::padding_bytes", "protocol::RecordHeader::to_bytes"}
        cands = [cb for nm_ in direct_names(b) if facts.is_new_helper(nm_) for cb in facts.by_npath.get(nm_, [])
                 if wanted <= (set(direct_names(cb)) | set(_d0.effective_calls(facts, cb))) and "protocol::nv::write" in direct_names(cb)]
        if len(cands) == 1:
            b = cands[0]
    g = ieg.IEG(facts, b, inline_filter=lambda x: False)
    r = ir.Resolver(b)
    calls = [(bi, blk["t"]) for bi, blk in enumerate(b.blocks) if blk["t"]["k"] == "call" and not blk["t"].get("sp", {}).get("n")]
    names = [F.norm(t["func"]["res"]["path"] if t["func"].get("res") else t["func"].get("path", "")) for (_, t) in calls]
    need = ["protocol::nv::write", "protocol::RecordHeader::new", "protocol::RecordHeader::set_lengths",
            "protocol::RecordHeader::padding_bytes", "protocol::RecordHeader::to_bytes"]
    import dispatch as _d
    names = list(names) + sorted(_d.effective_calls(facts, b))      # also through helpers introduced later
    miss = [n for n in need if n not in names]
    if miss:
        rep.violation("R17.5", "write_response/structure", "write_response no longer calls %s" % miss, b.loc())
        return
    # header type and id
    for (bi, t) in calls:
        nm = F.norm(t["func"]["res"]["path"] if t["func"].get("res") else t["func"].get("path", ""))
        if nm == "protocol::RecordHeader::new":
            a0 = ir.peel(r.operand(t["args"][0], (bi, -1)))
            a1 = ir.peel(r.operand(t["args"][1], (bi, -1)))
            if variant_of(a0) == "GetValuesResult" and ir.const_value(a1) == 0:
                rep.ok("R17.5", "write_response/header", "GetValuesResult with the null request id", "%s:%d" % (t["sp"]["f"], t["sp"]["l"]))
            else:
                rep.violation("R17.5", "write_response/header", "reply header is (%s, %s); expected (GetValuesResult, 0)" % (ir.show(a0), ir.show(a1)), "%s:%d" % (t["sp"]["f"], t["sp"]["l"]))
    # which flag gets which value: table of the match on the flag bits
    ev_rows = paths.rows(g, max_paths=20000)
    # every subset -- the empty one included -- gets one record: each return path builds, sizes and stores the header
    must_pass = ("protocol::RecordHeader::new", "protocol::RecordHeader::set_lengths", "protocol::RecordHeader::to_bytes")
    n_ret = 0
    short = None
    for row in ev_rows:
        if row.end != 'return':
            continue
        n_ret += 1
        on_path = {c[0] for c in row.calls}
        if not all(m_ in on_path for m_ in must_pass):
            short = sorted(set(must_pass) - on_path)
    if short is not None:
        rep.violation("R17.5", "write_response/every-path-one-record", "a return path of write_response emits no complete record (it skips %s): every subset of the "
                      "variables, the empty one included, is answered by one GetValuesResult" % [x.split("::")[-1] for x in short], b.loc())
    elif n_ret:
        rep.ok("R17.5", "write_response/every-path-one-record", "all %d return paths build the header, set its lengths and store it" % n_ret, b.loc())
    # the header that is stored is the one set_lengths sized: its length fields are not written in any other way
    lw = None
    for cb_ in [b] + [x for x in facts.bodies if x.npath.startswith(b.npath + "::{closure") and not x.promoted]:
        for blk_ in cb_.blocks:
            if blk_.get("cleanup"):
                continue
            for st_ in blk_["st"]:
                if st_["k"] != "assign" or (st_.get("sp") or {}).get("n"):
                    continue
                for el in st_["place"].get("p", []):
                    if el.get("n") in ("content_length", "padding_length") and F.norm(el.get("of", "")) == "protocol::RecordHeader":
                        lw = lw or (el.get("n"), st_.get("sp") or {})
    if lw is not None:
        rep.violation("R17.5", "write_response/header-as-sized", "write_response assigns %s of the reply header itself: the stored header is no longer the (content, padding) pair "
                      "set_lengths computed, so content + padding need not be a multiple of 8 or need not match the bytes appended" % lw[0], "%s:%s" % (lw[1].get("f"), lw[1].get("l")))
    else:
        rep.ok("R17.5", "write_response/header-as-sized", "the reply header's length fields are written by set_lengths only", b.loc())
    flag_vals = {}
    def _bit(v):
        c = const_by_suffix(facts, "::" + v, "protocol::vars::ProtocolVariables")
        return int(c["v"]) if c and c.get("k") == "int" else None
    mc, mr, mp = _bit("FCGI_MAX_CONNS"), _bit("FCGI_MAX_REQS"), _bit("FCGI_MPXS_CONNS")
    for row in ev_rows:
        wr = row.called("protocol::nv::write")
        if not wr:
            continue
        val = agg_field(ir.peel(wr[0][1][0]), 1)
        kind = None
        for x in ir.walk(val):
            if x[0] == 'field' and x[2] == 'max_conns':
                kind = 'max_conns'
            if x[0] == 'call' and x[1].endswith("const_new"):
                kind = 'zero'
        # the flag value tested on this path
        for (e, lab, nd) in row.conds:
            cv = case_value(lab)
            if cv is not None and any(y[0] == 'call' and y[1].endswith("::bits") for y in ir.walk(e)):
                flag_vals.setdefault(cv, set()).add(kind)
    # value sources over all paths (helpers introduced later are looked through by the path engine)
    srcs = set()
    wloc = b.loc()
    for row in ev_rows:
        for wr_ in row.called("protocol::nv::write"):
            vals = agg_field(ir.peel(wr_[1][0]), 1)
            wloc = wr_[2].loc()
            for x in ir.walk(vals) if vals is not None else []:
                if x[0] == 'field' and x[2] == 'max_conns':
                    srcs.add('max_conns')
                if x[0] == 'call' and x[1].endswith("const_new"):
                    cv_ = ir.const_value(x[2][0]) if x[2] else None
                    srcs.add('const:%s' % (cv_.decode() if isinstance(cv_, bytes) else cv_))
                elif isinstance(ir.const_value(x), bytes) and not any(y[0] == 'call' and y[1].endswith("const_new") for y in ir.walk(vals)):
                    srcs.add('const:%s' % ir.const_value(x).decode("ascii", "replace"))     # a plain `"0"` literal
                if x[0] == 'agg' and x[1] == 'closure':
                    # a value computed lazily (`cache.get_or_insert_with(|| config.max_conns.to_compact_string())`): what the closure reads
                    cb_ = facts.by_path.get(x[2])
                    if cb_ is not None and any(el.get("n") == "max_conns" for blk_ in cb_.blocks for st_ in blk_["st"] if st_.get("k") == "assign"
                                               for pl_ in ([st_["rv"].get("place")] if isinstance(st_["rv"].get("place"), dict) else [])
                                               for el in pl_.get("p", [])):
                        srcs.add('max_conns')
    if srcs == {'max_conns', 'const:0'}:
        rep.ok("R17.5", "write_response/values", "values are config.max_conns (both limits) or the constant \"0\" (multiplexing)", wloc)
    else:
        rep.violation("R17.5", "write_response/values", "value sources are %s; expected config.max_conns and \"0\"" % sorted(srcs), wloc)
    want = {mc: {'max_conns'}, mr: {'max_conns'}, mp: {'zero'}}
    if flag_vals and all(flag_vals.get(k) == v for k, v in want.items()):
        rep.ok("R17.5", "write_response/value-table", "MAX_CONNS, MAX_REQS -> config.max_conns; MPXS_CONNS -> \"0\"", b.loc())
    elif flag_vals:
        rep.violation("R17.5", "write_response/value-table", "flag -> value table is %s, expected %s" % (flag_vals, want), b.loc())
    else:
        rep.note("write_response: value table per flag not extracted (match lowered differently); value sources checked instead")
    # RESPONSE_LEN >= 8 + roundup8(sum(2 + |name| + max value length)) with usize::MAX in decimal = 20 digits
    total = 0
    for v in SPEC["variables"]:
        vmax = 1 if v == "FCGI_MPXS_CONNS" else 20
        total += 2 + len(v) + vmax
    bound = 8 + ((total + 7) // 8) * 8
    rl = facts.const_int("protocol::vars::ProtocolVariables::RESPONSE_LEN")
    if rl >= bound:
        rep.ok("R17.5", "response-len-bound", "RESPONSE_LEN = %d >= 8 + roundup8(%d) = %d (all three variables, 20-digit limits)" % (rl, total, bound))
    else:
        rep.violation("R17.5", "response-len-bound", "RESPONSE_LEN = %d is below the maximal reply size %d" % (rl, bound))
    # appended after existing contents: `start` is out.len() read before the first mutation, result = out.len() - start
    first_mut = None
    start_site = None
    for (bi, t) in calls:
        nm = F.norm(t["func"]["res"]["path"] if t["func"].get("res") else t["func"].get("path", ""))
        if start_site is None and (nm.endswith("::len") or nm.endswith("Deref>::deref")):
            start_site = bi
        if first_mut is None and nm.endswith("extend_from_slice"):
            first_mut = bi
    dom_ok = start_site is not None and first_mut is not None and start_site in _dominators(b).get(first_mut, set())
    if dom_ok:
        rep.ok("R17.5", "write_response/appends", "the start offset is read before the first append; the reply is appended after existing contents", b.loc())
    else:
        rep.violation("R17.5", "write_response/appends", "the start offset is not taken before the first append", b.loc())


def _dominators(b):
    n = len(b.blocks)
    preds = b.preds()
    reach = sorted(b.reachable(0))
    dom = {i: set(reach) for i in reach}
    dom[0] = {0}
    changed = True
    while changed:
        changed = False
        for i in reach:
            if i == 0:
                continue
            ps = [p for p in preds[i] if p in dom]
            new = set(reach)
            for p in ps:
                new &= dom[p]
            new |= {i}
            if new != dom[i]:
                dom[i] = new
                changed = True
    return dom


def run(rep, facts):
    rep.rule("R17.1", "enum discriminants, wire constants, flag bits and the strum/TryFrom decode tables equal the FastCGI specification table (spec/fastcgi.json)")
    rep.rule("R17.2", "From<ExitStatus> for EndRequest equals the documented table; ExitStatus::ABORT == Complete(b\"ABRT\")")
    rep.rule("R17.3", "each to_record builds {V1, own type, id parameter, content_length 8, padding 0} and places header bytes 0..8 before body bytes 8..16")
    rep.rule("R17.4", "make_request_epilogue emits (empty stream header)* EndRequest(status, id) and nothing else; RecordHeader::new = {V1, type, id, 0, 0}")
    rep.rule("R17.5", "write_response: GetValuesResult with id 0, values from config.max_conns / \"0\", appended after existing contents; RESPONSE_LEN covers the maximal reply")
    rep.rule("R17.6", "set_lengths: padding = 0 if content%8 == 0 else 8 - content%8")
    rep.rule("R17.7", "byte layout: to_bytes and from_bytes of the four wire structs agree with each other and with the specification layout (big-endian)")
    rep.rule("R17.10", "the integer conversions the wire layouts go through are the identity on the encoded value: enum -> integer is the discriminant, RequestFlags <-> u8 keep every bit (bits() / from_bits_retain)")
    rep.rule("R17.8", "RecordHeader::from_bytes validates the version (byte 0) before decoding the record type (byte 1)")
    import check
    for fn in (r17_1_tables, r17_1_from_repr, r17_2_exit_status, r17_3_to_record, r17_4_epilogue, r17_5_response,
               r17_6_set_lengths, r17_7_layouts, r17_8_version_first, r17_9_epilogue_streams, r17_10_wire_conversions):
        check.guard(rep, fn.__name__.split("_")[0].upper().replace("R17", "R17.") + fn.__name__.split("_")[1], fn, facts)


def r17_10_wire_conversions(rep, facts):
    """R17.10: the conversions the byte layouts go through (R17.7 treats `u8::from(field)` / `X::from(byte)` as atoms) are the identity on the
    wire value: enum -> integer is the discriminant cast, RequestFlags -> u8 is `bits()` of the whole set, u8 -> RequestFlags retains every bit."""
    n = 0
    for b in facts.bodies:
        if b.promoted or "convert::From<" not in b.path or not b.loc().startswith("src/protocol/fields"):
            continue
        m = re.search(r"impl std::convert::From<protocol::fields::(\w+)> for (u8|u16)>::from$", b.path)
        back = b.path == "<protocol::fields::RequestFlags as std::convert::From<u8>>::from"
        if not m and not back:
            continue
        g = ieg.IEG(facts, b, inline_filter=lambda x: False)
        rows = [r for r in paths.rows(g) if r.end == 'return']
        what = (m.group(1) + " -> " + m.group(2)) if m else "u8 -> RequestFlags"
        n += 1
        ok = bool(rows)
        form = None
        for r in rows:
            e = ir.peel(r.ret) if r.ret is not None else ('?',)
            if nonconst_conds(r):
                ok = False
            if m and e[0] == 'discr' and ir.peel(e[1])[0] == 'param':
                form = "the discriminant"
            elif m and e[0] == 'call' and e[1].startswith("protocol::fields::") and e[1].endswith("::bits") and len(e[2]) == 1 and ir.peel(e[2][0])[0] == 'param':
                form = "bits() of the whole set"
            elif back and e[0] == 'call' and e[1].endswith("::from_bits_retain") and len(e[2]) == 1 and ir.peel(e[2][0])[0] == 'param':
                form = "from_bits_retain(byte)"
            else:
                ok = False
                form = ir.show(e)[:80]
        if ok:
            rep.ok("R17.10", "conversion[%s]" % what, "returns %s" % form, b.loc())
        else:
            rep.violation("R17.10", "conversion[%s]" % what, "the wire conversion is not the identity on the encoded value (returns %s): a decoded value would not re-encode to the bytes it came from" % form, b.loc())
    rep.floor("R17.10", "wire conversions", n, 6)


def r17_9_epilogue_streams(rep, facts):
    """R17.9: "one empty record per output stream": the only caller of make_request_epilogue (Request::close) picks the stream list from the
    writeable flag; the list is the role's output streams only if that flag is read after close() made the request writeable
    (instance of R7.3, re-evaluated)."""
    if not facts.has_feature("async"):
        return
    import check
    from . import c07
    rep.rule("R17.9", "the end-of-request sequence sent by Request::close lists the role's output streams: the writeable flag that selects the list is read only after "
                      "close() awaited writeable() (R7.3) -- read earlier, a Filter closed before its last input stream gets a bare EndRequest")
    sr = check.Report("tmp", "quick")
    c07.run(sr, facts)
    n = 0
    for i in sr.instances:
        if i["rule"] == "R7.3" and i["instance"].startswith("close/writeable-read"):
            n += 1
            (rep.ok if i["status"] == "ok" else rep.violation)("R17.9", i["instance"], i["detail"], i["loc"])
    rep.floor("R17.9", "reads of the writeable flag in close()", n, 1)


def main(rep, tier):
    f = F.load(("async", "http"))
    rep.configs.append({"features": "async,http", "profile": "debug", "bodies": len(f.bodies)})
    run(rep, f)
    rep.floor("R17", "rule instances", len([i for i in rep.instances if i["status"] == "ok"]), 30)
    return rep.finish(
        "Constant/table agreement against a hand-written specification table, plus decision tables and byte-layout maps extracted "
        "from the encoders/decoders by path enumeration with term substitution (no evaluation); the epilogue's stream list is chosen after the request became writeable (R17.9).",
        not_decided="round-trip equality over all field values, reserved-byte behaviour, the arithmetic inside nv::write / number formatting")
