"""C11 — a client abort ends exactly the aborted request; the connection stays usable (R11.1–R11.6).

A chain of table / ordering facts, each a link of the statement. Links that are rows of tables owned by
other properties are re-evaluated here (same extraction code) and reported under C11's rule ids."""
import check
import facts as F
import ir
import ieg
import paths
import events as E
import dispatch
from . import common, c04, c07, c12
from .c17 import variant_of, agg_field, cv, SPEC


def sub_report(fn, facts, *args):
    r = check.Report("tmp", "quick")
    fn(r, facts, *args)
    return r


def io_error_table(facts):
    """parser::Error variant -> io::ErrorKind chosen by From<parser::Error> for io::Error."""
    b = None
    for cand in facts.bodies:
        if cand.raw.get("impl_trait") and F.norm(cand.raw["impl_trait"]) == "std::convert::From" and F.norm(cand.raw.get("impl_self", {}).get("s", "")) == "std::io::Error" \
                and cand.npath.endswith("::from") and "parser::Error" in facts.fns.get(cand.npath, {}).get("sig", ""):
            b = cand
    if b is None:
        raise F.MissingAnchor("no From<parser::Error> for io::Error")
    g = ieg.IEG(facts, b, inline_filter=lambda x: False)
    tab = {}
    for r in paths.rows(g):
        if r.end != 'return':
            continue
        kinds = set()
        for n in r.nodes:
            for st in n.stmts:
                if st["k"] == "assign" and st["rv"]["k"] == "agg" and st["rv"].get("adt") == "std::io::ErrorKind":
                    kinds.add(st["rv"]["vn"])
        vals = []
        for (e, lab, n) in r.conds:
            pe = ir.peel(e)
            if pe[0] == 'discr' and len(pe) > 2 and pe[2] == "parser::Error":
                vals.append(lab)
        if not vals or len(kinds) != 1:
            continue
        lab = vals[-1]
        names = []
        if lab[0] == 'case':
            names = [facts.variant_name("parser::Error", lab[1])]
        else:
            names = [k for k, v in facts.enum_discr("parser::Error").items() if v not in lab[1]]
        for nm in names:
            tab[nm] = kinds.copy().pop()
    return b, tab


DOCUMENTED_IO_TABLE = {
    "AbortRequest": "ConnectionAborted",
    "UnknownVersion": "InvalidData", "InvalidRequestLen": "InvalidData", "NullRequest": "InvalidData", "Protocol": "InvalidData",
    "Paniced": "Other", "StuckOnInput": "Other", "Interrupted": "Other",
}


def run(rep, facts):
    rep.rule("R11.1", "Params state, AbortRequest for the request id: exactly one EndRequest{RequestComplete, 0} for that id, back to the initial header state (no Request survives, so no handler call); other ids: skipped")
    rep.rule("R11.2", "stream parser, AbortRequest for the request id: Err(AbortRequest) with the header retained (no state change); other ids: skipped")
    rep.rule("R11.3", "From<parser::Error> for io::Error maps AbortRequest to ConnectionAborted (whole table equals the documented one)")
    rep.rule("R11.4", "run(): ConnectionAborted from the handler selects ExitStatus::ABORT and still calls close(); ABORT == Complete(b\"ABRT\")")
    rep.rule("R11.5", "close() tolerates exactly ConnectionAborted from writeable(); record_boundary tolerates exactly Err(AbortRequest) from parse and consults the record-boundary predicate after every parse before it reads again")
    rep.rule("R11.6", "the next request parser skips a stale AbortRequest record without replying (the retained header is harmless)")

    # ---- R11.1 / R11.2 / R11.6 from the dispatch tables ----------------------------------------------------
    sr = sub_report(c04.r4_1_tables, facts)
    picked = {"params/abort": "R11.1", "params/abort-foreign": "R11.1", "stream/abort": "R11.2", "stream/abort-foreign": "R11.2"}
    seen = set()
    for i in sr.instances:
        for leaf, rid in picked.items():
            if i["instance"].startswith(leaf) and (i["instance"] == leaf or i["instance"].startswith(leaf + "/")):
                seen.add(leaf)
                if i["status"] == "ok":
                    rep.ok(rid, leaf, i["detail"], i["loc"])
                else:
                    rep.violation(rid, leaf, i["detail"], i["loc"])
    # any failure of table extraction itself is a failure here too
    for i in sr.instances:
        if i["status"] != "ok" and ("undecidable" in i["rule"] or "untested" in i["instance"] or "missing" in i["instance"]) and "abort" in i["instance"]:
            rep.violation("R11.1", i["instance"], i["detail"], i["loc"])
    for leaf in picked:
        if leaf not in seen:
            rep.undecidable(picked[leaf], leaf, "the dispatch table has no row for this case")
    # R11.6: header site row that covers AbortRequest
    sites = dispatch.find_sites(facts)
    hb = sites.get('header')
    if hb is None:
        rep.undecidable("R11.6", "header-site", "no initial-state dispatch site")
    else:
        g, rows = dispatch.site_rows(facts, hb)
        rt = facts.enum_discr("protocol::fields::RecordType")
        cover = []
        for d in rows:
            a = d.atoms
            if a.get('decode') != 'ok':
                continue
            r_ = a.get('rtype', '')
            if r_ == 'AbortRequest' or (r_.startswith('other(not') and 'AbortRequest' not in r_):
                cover.append(d)
        if not cover:
            rep.undecidable("R11.6", "header/abort-row", "no row of the initial state covers AbortRequest", hb.loc())
        for d in cover:
            got = c04.outcome_request(d, 'header')
            if d.replies or got.get('kind') != 'skip' or got.get('payload') != 'content_length' or got.get('padding') != 'padding_length' or got.get('next') != 'same':
                rep.violation("R11.6", "header/abort-row", "a stale AbortRequest is not simply skipped by the next request parser (%s, replies %s)" % (got, d.replies), hb.loc())
            else:
                rep.ok("R11.6", "header/abort-row", "AbortRequest in the initial state: no reply, record skipped, state unchanged", hb.loc())

    # ---- R11.3 ----------------------------------------------------------------------------------------------
    b, tab = io_error_table(facts)
    allv = set(facts.enum_discr("parser::Error"))
    if tab == DOCUMENTED_IO_TABLE and set(tab) == allv:
        rep.ok("R11.3", "io-error-table", "total table equals the documented one: %s" % tab, b.loc())
    else:
        rep.violation("R11.3", "io-error-table", "parser::Error -> io::ErrorKind is %s; documented %s" % (tab, DOCUMENTED_IO_TABLE), b.loc())

    # ---- R11.4 ----------------------------------------------------------------------------------------------
    sr = sub_report(c07.run, facts)
    for i in sr.instances:
        if i["instance"] in ("run/close-status", "run/abort-constant-sites", "run/close-after-one-handler-call"):
            if i["status"] == "ok":
                rep.ok("R11.4", i["instance"], i["detail"], i["loc"])
            else:
                rep.violation("R11.4", i["instance"], i["detail"], i["loc"])
    ab = facts.consts.get("ExitStatus::ABORT")
    if ab and "bytes" in ab and int.from_bytes(bytes(ab["bytes"])[4:8], "little") == int.from_bytes(b"ABRT", "big") and ab["bytes"][0] == 0:
        rep.ok("R11.4", "abort-constant", "ExitStatus::ABORT == Complete(0x41425254)")
    else:
        rep.violation("R11.4", "abort-constant", "ExitStatus::ABORT is not Complete(b\"ABRT\")")
    # the ABORT arm is guarded by kind() == ConnectionAborted on the handler's error
    g, ev = common.build(facts, "async_io::Token::run::{closure#0}")
    guard_ok = False
    for n in g.all_nodes():
        for si, st in enumerate(n.stmts):
            if st["k"] == "assign" and st["rv"]["k"] == "use" and "const" in st["rv"]["op"] and st["rv"]["op"]["const"].get("def", "").endswith("ExitStatus::ABORT"):
                # walk back to the nearest switch on <ErrorKind as PartialEq>::eq
                seen_n = set()
                work = [n]
                while work and not guard_ok:
                    x = work.pop()
                    if x.key in seen_n:
                        continue
                    seen_n.add(x.key)
                    for (p, lab) in g.pred.get(x.key, []):
                        if p.term["k"] == "switch" and not p.noise():
                            de = ir.peel(ev.switch_expr(p))
                            neg_ = False
                            while de[0] == 'un' and de[1] == 'Not':
                                neg_ = not neg_
                                de = ir.peel(de[2])
                            is_ne = de[0] == 'call' and de[1] in ("<std::io::ErrorKind as std::cmp::PartialEq>::ne", "std::cmp::PartialEq::ne")
                            if is_ne != neg_ and isinstance(lab, tuple):
                                # `!=` (or a negation): the equal outcome is the other edge
                                lab = ('otherwise', (0,)) if lab == ('case', 0) else ('case', 0)
                            if de[0] == 'call' and (de[1] == "<std::io::ErrorKind as std::cmp::PartialEq>::eq" or is_ne):
                                # one operand is the constant kind, the other kind() of the handler's own error
                                for (c_, v_) in ((de[2][0], de[2][1]), (de[2][1], de[2][0])):
                                    cc = ir.peel(c_)
                                    if not (cc[0] == 'agg' and cc[2].startswith("std::io::ErrorKind::")):
                                        continue
                                    vv = ir.peel(v_)
                                    hk = vv[0] == 'call' and vv[1].endswith("::kind") and any(
                                        y[0] == 'call' and y[1].endswith("FnMut::call_mut") for y in ir.walk(vv))
                                    if cc[2].split("::")[-1] == "ConnectionAborted" and hk and isinstance(lab, tuple) and lab[0] == 'otherwise':
                                        guard_ok = True
                            continue
                        work.append(p)
    if guard_ok:
        rep.ok("R11.4", "run/abort-arm-guard", "ExitStatus::ABORT is selected on the true edge of handler_error.kind() == ConnectionAborted")
    else:
        rep.violation("R11.4", "run/abort-arm-guard", "ExitStatus::ABORT is not selected exactly under kind() == ConnectionAborted of the handler's error")

    # ---- R11.5 ----------------------------------------------------------------------------------------------
    sr = check.Report("tmp", "quick")
    n_err = c12.check_error_live(sr, g, ev, "run")
    tol = {i["instance"]: i for i in sr.instances if i["rule"] == "R12.2" and "tolerates" in i["instance"]}
    want = ["io:ConnectionAborted", "io:ConnectionAborted", "parser:AbortRequest"]
    # (in run: the handler's ConnectionAborted; in close: writeable()'s ConnectionAborted and the drain's AbortRequest;
    #  compared by error kind, the private helpers that contain them may be named and factored freely)
    if sorted(t.split("tolerates[", 1)[1].rstrip("]") for t in tol) == want:
        rep.ok("R11.5", "tolerated-errors", "exactly the three enumerated tolerance guards exist: %s" % sorted(t.split("/", 1)[1] for t in tol))
    else:
        rep.violation("R11.5", "tolerated-errors", "tolerance guards are %s; expected %s" % (sorted(tol), sorted(want)))
    for i in sr.instances:
        if i["status"] != "ok":
            rep.violation("R11.5", i["instance"], i["detail"], i["loc"])
    # close(): the tolerated error comes from writeable(); record_boundary: from parse()
    # record_boundary consults the boundary predicate after every parse before reading again
    def eff(n, m, lab):
        gens, kills = set(), set()
        if n.term["k"] == "call" and not n.noise():
            nm = g.callee(n)
            if nm == "parser::stream::Parser::is_record_boundary":
                gens.add("BCHK")
        e = ev.at(n)
        if e is not None and e[0] == 'PARSE':
            kills.add("BCHK")
        return gens, kills
    md = common.must_dataflow(g, frozenset(), eff)
    nreads = 0
    for n in g.all_nodes():
        e = ev.at(n)
        stack = [fr.body.npath for fr in n.frame.stack()]
        # the drain: transport reads issued by close() itself, not by the writeable() it awaits first (both public)
        if e is not None and e[0] == 'READ' and any(x.startswith("async_io::Request::close") for x in stack) \
                and not any(x.startswith("async_io::Request::writeable") for x in stack):
            nreads += 1
            if "BCHK" in md.get(n.key, frozenset()):
                rep.ok("R11.5", "record_boundary/boundary-consulted", "is_record_boundary() is consulted after the last parse on every path to this read (an abort stops at a record boundary, so the drain ends)", n.loc())
            else:
                rep.violation("R11.5", "record_boundary/boundary-consulted", "after a parse (possibly the tolerated AbortRequest) the drain loop can read again without asking whether a record boundary was reached", n.loc())
    rep.floor("R11.5", "transport reads inside close() (the record-boundary drain)", nreads, 1)
    # stream parser: Err(AbortRequest) is produced only by the header dispatch (i.e. at a record boundary)
    sites_abort = [o for (b2, bi, si, st) in F.aggregates_of(facts, "parser::Error") if st["rv"]["vn"] == "AbortRequest" and b2.npath.startswith("parser::stream")
                   for o in common.owners(facts, b2.npath)]
    sb = sites.get('stream')
    if sb is not None and set(sites_abort) == {sb.npath}:
        rep.ok("R11.2", "stream/abort-origin", "Error::AbortRequest is constructed only in the header dispatch of the stream parser (reached only at a record boundary)", sb.loc())
    else:
        rep.violation("R11.2", "stream/abort-origin", "Error::AbortRequest is constructed in %s" % sorted(set(sites_abort)))


def run_reply_survives(rep, facts):
    """R11.7: the reply to a mid-Params abort is parser output; it reaches the wire only if the async layer flushes the request
    parser's output before converting the parser (the conversion clears it) -- rule R8.2 of C08, re-evaluated."""
    from . import c08
    rep.rule("R11.7", "the request parser's reply buffer (which holds the EndRequest answering a mid-Params abort) is flushed on every path before "
                      "into_stream_parser / into_request_parser (R8.2)")
    sr = check.Report("tmp", "quick")
    c08.run(sr, facts)
    n = 0
    for i in sr.instances:
        if i["rule"] == "R8.2" or (i["rule"].startswith("R8.2")):
            n += 1
            (rep.ok if i["status"] == "ok" else rep.violation)("R11.7", i["instance"], i["detail"], i["loc"])
    rep.floor("R11.7", "parser conversions checked", n, 2)



def run_skip_arith(rep, facts, rid, why):
    """R11.8: an abort record may carry any body and padding; whether and how far it is skipped is decided by into_skip / SkipState::drive, whose arithmetic must not wrap or panic for any lengths (R3.11 re-evaluated)."""
    import check as _check
    from . import c03
    rep.rule(rid, why)
    sr = _check.Report("tmp", "quick")
    c03.run_arith(sr, facts)
    n = 0
    for i in sr.instances:
        inst = i["instance"]
        if i["rule"] == "R3.11" and (inst.startswith("into_skip") or inst.startswith("SkipState::drive")):
            n += 1
            (rep.ok if i["status"] == "ok" else rep.violation)(rid, inst, i["detail"], i["loc"])
    rep.floor(rid, "skip arithmetic instances", n, 2)

def main(rep, tier):
    f = F.load(("async", "http"))
    rep.configs.append({"features": "async,http", "profile": "debug", "bodies": len(f.bodies)})
    check.guard(rep, "R11", run, f)
    check.guard(rep, "R11.7", run_reply_survives, f)
    check.guard(rep, "R11.8", lambda r_, f_: run_skip_arith(r_, f_, "R11.8", "the body and padding of an abort record (any lengths up to 65535 + 255) are skipped exactly: the skip decision and the skip arithmetic cannot overflow or truncate (R3.11 for into_skip and SkipState::drive)"), f)
    rep.floor("R11", "links", len([i for i in rep.instances if i["status"] == "ok"]), 12)
    return rep.finish(
        "The abort chain as table rows and ordering facts: parser dispatch rows for AbortRequest (both parsers, all three states), the "
        "error conversion table, the ABORT status selection and close() in run(), the enumerated tolerated errors, termination "
        "condition of the record-boundary drain, and harmlessness of the retained header.",
        not_decided="'input delivered before the error is a prefix of what the client sent' is a C02-level value property and is not decided")
