"""C16 — name-value codec: decoder stops for good, splits only complete pairs, zero-copy; encoder count (R16.1–R16.5)."""
import check
import facts as F
import ir
import ieg
import paths
from .c17 import variant_of, agg_field, cv, nonconst_conds, case_value
from .c20 import lin, add, norm_lin, length_of

NEXT = "<protocol::nv::NVIter as std::iter::Iterator>::next"
READ = "protocol::varint::VarInt::read"


def run(rep, facts):
    rep.rule("R16.1", "every path of NVIter::next that returns None leaves self.data untouched (the iterator stops for good and into_inner() hands back the undecoded suffix)")
    rep.rule("R16.2", "a pair is split off only under data.len() >= total_len, where total_len = (bytes consumed by the two length prefixes) + name_len + val_len computed with checked_add; the split is head | name | value of exactly those lengths")
    rep.rule("R16.3", "one generic Iterator impl serves both slice kinds; the two Bytes impls are siblings (index / split_at vs index_mut / split_at_mut)")
    rep.rule("R16.4", "nv::write: lengths validated through VarInt::try_from (InvalidInput otherwise); only VarInt::write and write_all touch the writer; returned count == bytes written")
    rep.rule("R16.5", "size_hint upper bound is data.len() / 2 (a pair occupies at least 2 bytes)")

    b = facts.body(NEXT)
    g = ieg.IEG(facts, b, inline_filter=lambda x: False)
    rows = paths.rows(g)
    n_none = n_some = 0
    bad = []
    for r in rows:
        if r.end != 'return' or r.ret is None:
            continue
        ret = ir.peel(r.ret)
        is_some = variant_of(ret) == 'Some'
        datw = [(pl, val) for (pl, val, n, s_) in r.writes if pl[0] == 'field' and pl[2] == 'data']
        repl = [c for c in r.calls if "replace_with" in c[0]]
        if not is_some:
            n_none += 1
            if datw or repl:
                bad.append("a None path modifies self.data")
            continue
        n_some += 1
        # guard
        guard = False
        for (e, lab) in nonconst_conds(r):
            # the fact total_len <= data.len() holds on this path, however the test is spelled
            fact = ir.cmp_fact(e, lab)
            if fact is not None and fact[0] == 'le':
                r_, l_ = ir.peel(fact[1]), ir.peel(fact[2])
                if l_[0] == 'call' and l_[1].endswith("::len") and any(y[0] == 'field' and y[2] == 'data' for y in ir.walk(l_)) and \
                        any(y[0] == 'call' and y[1].endswith("checked_add") for y in ir.walk(r_)):
                    guard = True
                    tl = r_
        if not guard:
            bad.append("the split is not guarded by data.len() >= total_len")
            continue
        adds = [y for y in ir.walk(tl) if y[0] == 'call' and y[1].endswith("checked_add")]
        if len(adds) < 2:
            bad.append("total_len is not head_len.checked_add(name_len)?.checked_add(val_len)?")
        if len(repl) != 1 or not any(y[0] == 'field' and y[2] == 'data' for y in ir.walk(repl[0][1][0])):
            bad.append("the pair is not split off self.data in one step")
        # shape of the returned pair: advance_by(head).split_at(name_len)
        sp = [y for y in ir.walk(ret) if y[0] == 'call' and y[1].endswith("Bytes::split_at")]
        adv = [y for y in ir.walk(ret) if y[0] == 'call' and y[1].endswith("Bytes::advance_by")]
        if not sp or not adv:
            bad.append("the yielded pair is not carved as advance_by(head_len).split_at(name_len) out of the split-off prefix")
    # the closure that performs the split: b.split_at(total_len)
    cl = [bb for bb in facts.bodies if bb.kind == "Closure" and bb.npath.startswith(NEXT + "::")]
    okc = False
    for cb in cl:
        cg = ieg.IEG(facts, cb, inline_filter=lambda x: False)
        for r in paths.rows(cg):
            if r.end == 'return' and r.ret is not None:
                x = ir.peel(r.ret)
                if x[0] == 'call' and x[1].endswith("Bytes::split_at") and ir.peel(x[2][0])[0] == 'param' and ir.peel(x[2][1])[0] in ('upvar', 'field', 'param'):
                    okc = True
    if not okc:
        bad.append("the split closure is not |b| b.split_at(total_len)")
    # head_len = data.len() - cur.len() with `cur` the cursor both reads advanced; no unchecked + or * on decoded lengths
    def analyse_reads(body, is_data):
        r0 = ir.Resolver(body, opaque_mut_borrowed=True)
        cursors = set()
        nreads = 0
        read_blocks = []
        for bi, blk in enumerate(body.blocks):
            t = blk["t"]
            cal = F.norm(t["func"].get("path", "")) if t["k"] == "call" else None
            is_read = cal == READ
            if cal and not is_read and facts.is_new_helper(cal) and t["args"]:
                # a reader helper introduced later: reads one prefix through the cursor it is given (its first parameter)
                for hb in facts.by_npath.get(cal, []):
                    hr = ir.Resolver(hb, opaque_mut_borrowed=True)
                    hreads = [(hbi, ht) for hbi, hblk in enumerate(hb.blocks) for ht in [hblk["t"]]
                              if ht["k"] == "call" and F.norm(ht["func"].get("path", "")) == READ]
                    if len(hreads) == 1 and ir.peel(hr.operand(hreads[0][1]["args"][0], (hreads[0][0], -1)))[0] == 'param':
                        is_read = True
            if is_read:
                nreads += 1
                read_blocks.append(bi)
                e = ir.peel(r0.operand(t["args"][0], (bi, -1)))
                if e[0] == 'local':
                    cursors.add(e[1])
        head_ok = False
        from .c17 import _dominators
        dom = _dominators(body)

        def len_site(x):
            return x[3][1] if len(x) > 3 and isinstance(x[3], tuple) and len(x[3]) > 1 and isinstance(x[3][1], int) else None
        arith = []
        for bi, blk in enumerate(body.blocks):
            for si, st in enumerate(blk["st"]):
                if st["k"] != "assign" or st["rv"]["k"] != "bin":
                    continue
                op = st["rv"]["op"]
                if op.startswith("Sub"):
                    a = ir.peel(r0.operand(st["rv"]["a"], (bi, si)))
                    c = ir.peel(r0.operand(st["rv"]["b"], (bi, si)))
                    c_is_cursor = c[0] == 'call' and c[1].endswith("::len") and ir.peel(c[2][0])[0] == 'local' and ir.peel(c[2][0])[1] in cursors
                    if a[0] == 'call' and a[1].endswith("::len") and is_data(a) and c_is_cursor:
                        head_ok = True
                    # `let data_len = cur.len();` taken from the cursor itself *before* the two reads (it still spans all of the data there),
                    # minus its length after them: the first length is measured in a block that comes before both reads, the second after
                    if c_is_cursor and a[0] == 'call' and a[1].endswith("::len") and ir.peel(a[2][0])[0] == 'local' and ir.peel(a[2][0])[1] in cursors \
                            and len(read_blocks) >= 2 and len_site(a) is not None and len_site(c) is not None:
                        sa, sc = len_site(a), len_site(c)
                        if all(sa in dom.get(rb_, ()) and sa != rb_ for rb_ in read_blocks) and all(rb_ in dom.get(sc, ()) and rb_ != sc for rb_ in read_blocks):
                            head_ok = True
                if op.startswith("Add") or op.startswith("Mul") or op.startswith("Shl"):
                    arith.append("%s@%d" % (op, st["sp"]["l"]))
        return nreads, cursors, head_ok, arith

    nreads, cursors, head_ok, arith = analyse_reads(b, lambda a: any(y[0] == 'field' and y[2] == 'data' for y in ir.walk(a)))
    if nreads == 0:
        # the prefixes are decoded by a helper introduced later that receives (a view of) self.data: the same obligations there
        rb = ir.Resolver(b)
        for bi, blk in enumerate(b.blocks):
            t = blk["t"]
            cal = F.norm(t["func"].get("path", "")) if t["k"] == "call" else None
            if not cal or not facts.is_new_helper(cal):
                continue
            for ai, a in enumerate(t["args"]):
                ae = rb.operand(a, (bi, -1))
                if any(y[0] == 'field' and y[2] == 'data' for y in ir.walk(ae)):
                    for hb in facts.by_npath.get(cal, []):
                        n2, c2, h2, a2 = analyse_reads(hb, lambda x, _i=ai + 1: any(y[0] == 'param' and y[1] == _i for y in ir.walk(x)))
                        if n2:
                            nreads, cursors, head_ok, arith = n2, c2, h2, arith + a2
    if nreads != 2 or len(cursors) != 1:
        bad.append("the two length prefixes are not read through one advancing cursor (%d reads, %d cursors)" % (nreads, len(cursors)))
    if not head_ok:
        bad.append("head_len is not data.len() - cursor.len() (the bytes the length prefixes actually occupied)")
    if arith:
        bad.append("unchecked arithmetic on decoded lengths: %s" % arith)
    if bad:
        rep.violation("R16.2" if not any("None path" in x for x in bad) else "R16.1", "next", "; ".join(sorted(set(bad))), b.loc())
    if n_none >= 5 and not any("None path" in x for x in bad):
        rep.ok("R16.1", "next/none-paths", "all %d None paths (short prefix, oversized length, overflow, incomplete pair) leave self.data untouched" % n_none, b.loc())
    elif n_none < 5:
        rep.undecidable("R16.1", "next/none-paths", "only %d None paths found" % n_none, b.loc())
    if n_some and not bad:
        rep.ok("R16.2", "next/split", "split only under data.len() >= head_len + name_len + val_len (checked), head_len = bytes consumed by the cursor; pair = prefix.advance_by(head_len).split_at(name_len)", b.loc())

    # ---- R16.3 ---------------------------------------------------------------------------------------------
    its = [i for i in facts.impls if F.norm(i.get("trait", "")) == "std::iter::Iterator" and F.norm(i["self"]["s"]).startswith("protocol::nv::NVIter")]
    if len(its) == 1 and its[0]["self"].get("params"):
        rep.ok("R16.3", "single-generic-impl", "impl<T: Bytes> Iterator for NVIter<T>: shared and mutable variants run the same code", "%s:%d" % (its[0]["span"]["f"], its[0]["span"]["l"]))
    else:
        rep.violation("R16.3", "single-generic-impl", "%d Iterator impls for NVIter (specialised variants could disagree)" % len(its))
    bimpls = [i for i in facts.impls if F.norm(i.get("trait", "")) == "ext::Bytes"]
    shapes = {}
    for i in bimpls:
        for it in i["items"]:
            bb = facts.by_path.get(it)
            if bb is None:
                continue
            gg = ieg.IEG(facts, bb, inline_filter=lambda x: False)
            for r in paths.rows(gg):
                if r.end == 'return' and r.ret is not None:
                    x = ir.peel(r.ret)
                    name = it.split("::")[-1]
                    if x[0] == 'call':
                        fn = x[1].split("::")[-1]
                        args_ok = ir.peel(x[2][0])[0] == 'param'
                        rng = ir.peel(x[2][1]) if len(x[2]) > 1 else None
                        if name == "advance_by":
                            args_ok = args_ok and rng is not None and rng[0] == 'agg' and rng[2].endswith("RangeFrom") and ir.peel(dict(rng[3])['start'])[0] == 'param'
                        else:
                            args_ok = args_ok and rng is not None and rng[0] == 'param'
                        shapes.setdefault(name, set()).add((fn.replace("_mut", ""), args_ok))
    if len(bimpls) == 2 and shapes.get("advance_by") == {("index", True)} and shapes.get("split_at") == {("split_at", True)}:
        rep.ok("R16.3", "bytes-siblings", "both Bytes impls: advance_by(n) = self[n..], split_at(mid) = slice split at mid")
    else:
        rep.violation("R16.3", "bytes-siblings", "the two Bytes impls do not have the same shape: %s" % shapes)

    # ---- R16.4 ---------------------------------------------------------------------------------------------
    wb = facts.body("protocol::nv::write")
    wg = ieg.IEG(facts, wb, inline_filter=lambda x: False)
    rows = paths.rows(wg, max_visits=3, max_paths=30000)
    oks = [r for r in rows if r.end == 'return' and r.ret is not None and variant_of(r.ret) == 'Ok']
    badw = []
    for r in rows:
        for (nm, args, n) in r.calls:
            if nm.startswith("std::io::Write::") and nm != "std::io::Write::write_all":
                badw.append("writer used through %s" % nm)
        if r.end == 'return' and r.ret is not None and variant_of(r.ret) == 'Err':
            e = ir.peel(agg_field(r.ret, 0))
            if e[0] == 'call' and e[1] == "std::io::Error::new":
                if variant_of(e[2][0]) != 'InvalidInput':
                    badw.append("oversized length reported as %s" % variant_of(e[2][0]))
    full = 0
    for r in oks:
        vw = r.called("protocol::varint::VarInt::write")
        wa = r.called("std::io::Write::write_all")
        if len(vw) != 2 or len(wa) != 2:
            continue
        full += 1
        for c in vw:
            src = ir.peel(c[1][0])
            if not any(y[0] == 'call' and y[1].endswith("TryFrom>::try_from") for y in ir.walk(src)):
                badw.append("a length is encoded without VarInt::try_from validation")
        datas = [ir.peel(c[1][1]) for c in wa]
        if not (datas[0][0] == 'field' and str(datas[0][2]) == '0' and datas[1][0] == 'field' and str(datas[1][2]) == '1'):
            badw.append("name and value are not written in this order")
        total = {}
        for c in vw:
            # the prefix write reports its own length (C15/O6): one atom per call expression
            total = add(total, {('atom', ('call', c[0], c[1], None)): 1})
        for c in wa:
            total = add(total, length_of(c[1][1]))
        cnt = lin(agg_field(r.ret, 0))
        # normalise: atoms of VarInt::write results appear in `cnt` as payloads of `?` on that call
        def canon(d):
            out = {}
            for k, v in d.items():
                if k != () and k[0] == 'atom':
                    calls = [y for y in ir.walk(k[1]) if y[0] == 'call' and y[1] == "protocol::varint::VarInt::write"]
                    if calls:
                        k = ('vw', calls[0][2])
                out[k] = out.get(k, 0) + v
            return {k: v for k, v in out.items() if v}
        if canon(total) != canon(cnt):
            badw.append("returned count differs from prefix bytes + name.len() + value.len()")
    if (badw or not full) and any("Iterator" in c[0] and c[0].split("::")[-1] in ("try_fold", "fold", "try_for_each", "for_each")
                                  for r in rows for c in r.calls):
        # the prefixes are written inside a fold over `[name.len(), value.len()]`: decided by abstract interpretation (E8) instead
        why = r16_4_fold_form(facts, wb)
        if why is None:
            rep.ok("R16.4", "write", "fold form: on every Ok path the writer sees VarInt::write(name.len()), VarInt::write(value.len()), write_all(name), "
                   "write_all(value) in this order, the lengths come through VarInt::try_from (InvalidInput on failure), and the count is both prefix counts + name.len() + value.len() (E8)", wb.loc())
            badw = None
        else:
            badw = list(badw) + ["fold form: " + why]
    if badw is None:
        pass
    elif badw:
        rep.violation("R16.4", "write", "; ".join(sorted(set(badw))), wb.loc())
    elif full:
        rep.ok("R16.4", "write", "lengths via VarInt::try_from (InvalidInput on failure); prefix, prefix, name, value written with VarInt::write / write_all; count = both prefix counts + name.len() + value.len()", wb.loc())
    else:
        rep.undecidable("R16.4", "write", "no complete successful path explored", wb.loc())

    # ---- R16.5 ---------------------------------------------------------------------------------------------
    sb = facts.body("<protocol::nv::NVIter as std::iter::Iterator>::size_hint")
    sg = ieg.IEG(facts, sb, inline_filter=lambda x: False)
    ok = False
    for r in paths.rows(sg):
        if r.end == 'return' and r.ret is not None:
            t = ir.peel(r.ret)
            if t[0] == 'agg' and t[1] == 'tuple':
                lo, hi = ir.peel(t[3][0][1]), ir.peel(t[3][1][1])
                inner = ir.peel(agg_field(hi, 0)) if variant_of(hi) == 'Some' else None
                if cv(lo) == 0 and inner is not None and inner[0] == 'bin' and inner[1] == 'Div' and cv(inner[3]) == 2 and \
                        any(y[0] == 'field' and y[2] == 'data' for y in ir.walk(inner[2])):
                    ok = True
    if ok:
        rep.ok("R16.5", "size_hint", "(0, Some(data.len() / 2))", sb.loc())
    else:
        rep.violation("R16.5", "size_hint", "size_hint is not (0, Some(data.len() / 2))", sb.loc())


def r16_4_fold_form(facts, wb):
    """nv::write with its two prefix writes inside a fold over an array literal, decided by E8 (regions.py): closures are looked into, the
    fold is run element by element, VarInt::try_from / VarInt::write / write_all are contracts that fork into Ok / Err and log an event.
    Returns None when R16.4 holds, else the reason."""
    import regions as R
    Lin = R.Lin

    def c_try_from(it, st, args, dty):
        x = args[0] if args and isinstance(args[0], Lin) else None
        return [(('enum', 0, (('newtype', x) if x is not None else it.opaque(),)), [], "try_from is Ok"),
                (('enum', 1, (('tferr',),)), [], "try_from is Err")]

    def c_vwrite(it, st, args, dty):
        v = args[0] if args else None
        st["events"].append(("vwrite", v[1] if isinstance(v, tuple) and v[0] == 'newtype' else None))
        n = it.new_len("prefix", st["ctx"])
        return [(('enum', 0, (n,)), [], "VarInt::write is Ok"), (('enum', 1, (it.opaque(),)), [], "VarInt::write is Err")]

    def c_write_all(it, st, args, dty):
        st["events"].append(("write_all", it.slice_len(args[1], st["ctx"]) if len(args) > 1 else None))
        return [(('enum', 0, (('tuple', []),)), [], "write_all is Ok"), (('enum', 1, (it.opaque(),)), [], "write_all is Err")]

    def c_io_error_new(it, st, args, dty):
        st["events"].append(("ioerr", args[0] if args else None, args[1] if len(args) > 1 else None))
        return ('ioerr',)

    def c_other_write(it, st, args, dty):
        st["events"].append(("other-writer-call",))
        return it.opaque()
    contracts = {"std::io::Write::write_all": c_write_all, "protocol::varint::VarInt::write": c_vwrite, "std::io::Error::new": c_io_error_new}
    for k in ("<protocol::varint::VarInt as std::convert::TryFrom>::try_from", "std::convert::TryFrom::try_from",
              "<protocol::varint::VarInt as std::convert::TryFrom<usize>>::try_from"):
        contracts[k] = c_try_from
    for k in ("std::io::Write::write", "std::io::Write::write_vectored", "std::io::Write::flush", "std::io::Write::write_fmt", "std::io::Write::by_ref"):
        contracts[k] = c_other_write
    lens = {}

    def init(ctx, heap, env):
        it_ = holder["it"]
        lens["name"], lens["value"] = it_.new_len("len(name)", ctx), it_.new_len("len(value)", ctx)
        env[1] = ('tuple', [('slice', lens["name"]), ('slice', lens["value"])])
        return {}
    holder = {}
    it = R.Interp(facts, [], contracts=contracts)
    it.init_regions = init
    holder["it"] = it
    try:
        ends = it.run(wb, self_value=None)
    except RuntimeError as e:
        return "not interpretable (%s)" % e
    n_ok = 0
    for e in ends:
        ret = e.ret
        if not (isinstance(ret, tuple) and ret[0] == 'enum'):
            return "a path returns a value the interpretation cannot classify"
        evs = [x for x in e.events if x[0] in ("vwrite", "write_all", "other-writer-call", "ioerr")]
        if any(x[0] == "other-writer-call" for x in evs):
            return "the writer is used through something other than VarInt::write / write_all"
        if ret[1] == 1:
            # failure: a rejected length must surface as InvalidInput built from the conversion error
            pay = ret[2][0] if ret[2] else None
            if pay == ('tferr',):
                return "a length rejected by VarInt::try_from is returned without being wrapped in io::Error::new(InvalidInput, ..)"
            continue
        n_ok += 1
        w = [x for x in evs if x[0] in ("vwrite", "write_all")]
        want = [("vwrite", lens["name"]), ("vwrite", lens["value"]), ("write_all", lens["name"]), ("write_all", lens["value"])]
        if len(w) != 4 or any(a[0] != b[0] or not isinstance(a[1], Lin) or not e.ctx.eq(a[1], b[1]) for a, b in zip(w, want)):
            return "a successful path does not write prefix(name.len()), prefix(value.len()), name, value in this order (saw %s)" % [(x[0], str(x[1])) for x in w]
        total = ret[2][0] if ret[2] else None
        pre = [t_ for t_ in (total.t if isinstance(total, Lin) else {}) if str(t_).startswith("prefix")]
        if not isinstance(total, Lin) or len(pre) != 2 or not e.ctx.eq(total, Lin.sym(pre[0]) + Lin.sym(pre[1]) + lens["name"] + lens["value"]):
            return "the returned count is not both prefix counts + name.len() + value.len() (%s)" % total
    # the error kind of the wrapped conversion failure: every io::Error::new in write and its closures is built with InvalidInput
    n_new = 0
    for b in facts.bodies:
        if b.promoted or not (b is wb or b.path.startswith(wb.path + "::{closure")):
            continue
        rs = ir.Resolver(b)
        for bi, blk in enumerate(b.blocks):
            t = blk["t"]
            if t["k"] == "call" and F.norm((t["func"].get("res") or t["func"]).get("path", "")) == "std::io::Error::new":
                n_new += 1
                kind = variant_of(rs.operand(t["args"][0], (bi, -1)))
                if kind != 'InvalidInput':
                    return "an oversized length is reported as %s" % kind
    if not n_new:
        return "no io::Error::new(InvalidInput, ..) wraps the conversion failure"
    if not n_ok:
        return "no successful path interpreted"
    return None


def run_prefix_codec(rep, facts):
    """R16.6: the two length prefixes of a pair are written by VarInt::write and its return value enters the reported total (R16.4); the
    prefix is decodable, and the total is "exactly the bytes written", only if VarInt::write emits the whole encoding through write_all
    and returns its length (obligations O4-write / O6 of C15, re-evaluated)."""
    from . import c15
    rep.rule("R16.6", "the length-prefix encoder nv::write relies on emits the complete one- or four-byte form for every writer and returns exactly that count "
                      "(C15 O4 write/forms, O6 write/count): a short prefix neither decodes back nor matches the reported total")
    sr = check.Report("tmp", "quick")
    c15.run_codec(sr, facts)
    n = 0
    for i in sr.instances:
        if i["instance"].startswith("write/"):
            n += 1
            (rep.ok if i["status"] == "ok" else rep.violation)("R16.6", i["instance"], i["detail"], i["loc"])
    rep.floor("R16.6", "prefix encoder obligations", n, 2)


def run_prefix_decoder(rep, facts):
    """R16.7: NVIter::next reads every error of VarInt::read as "the pair is incomplete" and stops for good (R16.1): that is "stops at the first
    incomplete pair" only while the prefix decoder fails on truncated input and on nothing else, and yields the encoded value
    (C15 O4 read/forms, O5, re-evaluated)."""
    from . import c15
    rep.rule("R16.7", "the length-prefix decoder NVIter relies on accepts every complete one- or four-byte form and fails only when its input is truncated "
                      "(C15 O4 read/forms, O5): a decoder that rejects a complete prefix makes the iterator stop in front of a complete pair")
    sr = check.Report("tmp", "quick")
    c15.run_codec(sr, facts)
    n = 0
    for i in sr.instances:
        if i["instance"].startswith("read/"):
            n += 1
            (rep.ok if i["status"] == "ok" else rep.violation)("R16.7", i["instance"], i["detail"], i["loc"])
    rep.floor("R16.7", "prefix decoder obligations", n, 2)


def main(rep, tier):
    f = F.load(("async", "http"))
    rep.configs.append({"features": "async,http", "profile": "debug", "bodies": len(f.bodies)})
    check.guard(rep, "R16", run, f)
    check.guard(rep, "R16.6", run_prefix_codec, f)
    check.guard(rep, "R16.7", run_prefix_decoder, f)
    rep.floor("R16", "rule instances", len([i for i in rep.instances if i["status"] == "ok"]), 6)
    import check as _c
    _c.witnesses(rep, "C16", f)
    return rep.finish(
        "Failure paths of the decoder are side-effect free; the split is guarded and uses the bytes actually consumed by the length "
        "prefixes; one generic implementation serves both slice kinds; the encoder's count ledger balances and its prefix encoder is exact for every writer (R16.6). The zero-copy property "
        "is a type-level fact (witness in /verif/witness).",
        not_decided="round-trip equality, prefix-monotonicity over all inputs and that the number of pairs never exceeds the size hint (value-level)")
