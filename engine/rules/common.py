"""Shared helpers for rule modules."""
import ieg
import events as E
import ir


def async_only(b):
    """Inline filter for async-layer rules: parsers / protocol / cgi are events, not inlined."""
    p = b.npath
    return p.startswith("async_io::") or p.startswith("<async_io::")


def build(facts, entry_npath, inline_filter=async_only):
    body = facts.body(entry_npath)
    g = ieg.IEG(facts, body, inline_filter=inline_filter)
    return g, E.Events(g)


def fn_of(n):
    """Enclosing named function (closures / coroutines are attributed to their parent item)."""
    b = n.frame.body
    return b.npath.split("::{closure")[0]


def must_dataflow(g, init, effect):
    """Forward must-analysis over fact sets. effect(n, m, lab) -> (gens, kills)."""
    def transfer(n, st):
        def per_edge(m, lab):
            gens, kills = effect(n, m, lab)
            return frozenset((st - kills) | gens)
        return per_edge
    return ieg.forward(g, frozenset(init), transfer, lambda a, b: a & b)


def witness(g, init, effect, target, fact, limit=400):
    """A path (list of nodes) ending in `target` along which `fact` is never generated, starting at
    a node that kills it (or at the entry if the fact does not hold initially)."""
    from collections import deque
    prev = {target.key: None}
    dq = deque([target])
    start = None
    while dq:
        n = dq.popleft()
        if n.key == g.entry.key and fact not in init:
            start = n
            break
        found = False
        for (p, lab) in g.pred.get(n.key, []):
            gens, kills = effect(p, n, lab)
            if fact in gens:
                continue
            if p.key in prev:
                continue
            prev[p.key] = n
            if fact in kills:
                start = p
                found = True
                break
            dq.append(p)
        if found:
            break
    if start is None:
        return []
    path = []
    n = start
    while n is not None:
        path.append(n)
        n = prev.get(n.key)
    return path


def describe_path(g, ev, path, maxlen=40):
    out = []
    last = None
    for n in path:
        e = ev.at(n)
        if e is None or e[0] in ('CALL',) and not str(e[1]).startswith(("parser::", "async_io::")):
            continue
        desc = e[0] + ((":" + str(e[1])) if len(e) > 1 and isinstance(e[1], str) else "")
        line = "%s  %s  in %s" % (n.loc(), desc, fn_of(n))
        if line != last:
            out.append(line)
            last = line
    if len(out) > maxlen:
        out = out[:maxlen // 2] + ["..."] + out[-maxlen // 2:]
    return out
