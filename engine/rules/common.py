"""Shared helpers for rule modules."""
import ieg
import events as E
import ir


def async_only(b):
    """Inline filter for async-layer rules: parsers / protocol / cgi are events, not inlined."""
    p = b.npath
    return p.startswith("async_io::") or p.startswith("<async_io::")


def build(facts, entry_npath, inline_filter=async_only):
    body = facts.body(entry_npath)
    g = ieg.IEG(facts, body, inline_filter=inline_filter)
    return g, E.Events(g)


def fn_of(n):
    """Enclosing named function (closures / coroutines are attributed to their parent item)."""
    b = n.frame.body
    return b.npath.split("::{closure")[0]


def must_dataflow(g, init, effect):
    """Forward must-analysis over fact sets. effect(n, m, lab) -> (gens, kills)."""
    def transfer(n, st):
        def per_edge(m, lab):
            gens, kills = effect(n, m, lab)
            return frozenset((st - kills) | gens)
        return per_edge
    return ieg.forward(g, frozenset(init), transfer, lambda a, b: a & b)


def witness(g, init, effect, target, fact, limit=400):
    """A path (list of nodes) ending in `target` along which `fact` is never generated, starting at
    a node that kills it (or at the entry if the fact does not hold initially)."""
    from collections import deque
    prev = {target.key: None}
    dq = deque([target])
    start = None
    while dq:
        n = dq.popleft()
        if n.key == g.entry.key and fact not in init:
            start = n
            break
        found = False
        for (p, lab) in g.pred.get(n.key, []):
            gens, kills = effect(p, n, lab)
            if fact in gens:
                continue
            if p.key in prev:
                continue
            prev[p.key] = n
            if fact in kills:
                start = p
                found = True
                break
            dq.append(p)
        if found:
            break
    if start is None:
        return []
    path = []
    n = start
    while n is not None:
        path.append(n)
        n = prev.get(n.key)
    return path


def describe_path(g, ev, path, maxlen=40):
    out = []
    last = None
    for n in path:
        e = ev.at(n)
        if e is None or e[0] in ('CALL',) and not str(e[1]).startswith(("parser::", "async_io::")):
            continue
        desc = e[0] + ((":" + str(e[1])) if len(e) > 1 and isinstance(e[1], str) else "")
        line = "%s  %s  in %s" % (n.loc(), desc, fn_of(n))
        if line != last:
            out.append(line)
            last = line
    if len(out) > maxlen:
        out = out[:maxlen // 2] + ["..."] + out[-maxlen // 2:]
    return out


def may_dataflow(g, init, effect):
    """Forward may-analysis over fact sets (union join). effect(n, m, lab) -> (gens, kills)."""
    def transfer(n, st):
        def per_edge(m, lab):
            gens, kills = effect(n, m, lab)
            return frozenset((st - kills) | gens)
        return per_edge
    return ieg.forward(g, frozenset(init), transfer, lambda a, b: a | b)


def zero_test(de, dty=None):
    """If a switch discriminant compares a value with 0: (value expr, verdict for case 0, verdict otherwise)
    with verdicts in {'zero','nonzero'}.  `dty` (the type switched on) lets a direct `match n { 0 => .., _ => .. }` on an
    integer count as the same test."""
    if dty in ("usize", "u64", "u32", "u16", "u8") and de is not None:
        d0 = ir.peel(de, casts=False)
        if d0[0] not in ('un', 'discr', 'const', 'constdef') and not (d0[0] == 'bin' and d0[1] in ('Eq', 'Ne', 'Lt', 'Le', 'Gt', 'Ge')):
            return de, 'zero', 'nonzero'
    de = ir.peel(de, casts=False)
    flip = False
    while de[0] == 'un' and de[1] == 'Not':
        flip = not flip
        de = ir.peel(de[2], casts=False)
    res = None
    if de[0] == 'bin' and de[1] in ('Eq', 'Ne', 'Gt', 'Lt', 'Ge', 'Le'):
        a, b = de[2], de[3]
        ca = ir.peel(a, casts=False)
        cb = ir.peel(b, casts=False)
        if ir.const_value(cb) == 0 and isinstance(ir.const_value(cb), int):
            if de[1] in ('Eq', 'Le'):
                res = (a, 'nonzero', 'zero')
            elif de[1] in ('Ne', 'Gt'):
                res = (a, 'zero', 'nonzero')
        elif ir.const_value(ca) == 0 and isinstance(ir.const_value(ca), int):
            if de[1] in ('Eq', 'Ge'):
                res = (b, 'nonzero', 'zero')
            elif de[1] in ('Ne', 'Lt'):
                res = (b, 'zero', 'nonzero')
    if res is None:
        return None
    v, c0, other = res
    if flip:
        c0, other = other, c0
    return v, c0, other


def derives_from_site(e, fid, bb):
    """Is the lifted expression `e` the value produced by the call at (frame id, block), modulo plumbing:
    payload extraction of Poll/Result/ControlFlow, `?` (Try::branch), casts, moves and phi joins?"""
    e = ir.peel(e)
    while True:
        if e[0] in ('field', 'variant'):
            e = ir.peel(e[1])
        elif e[0] == 'call' and e[1].endswith("std::ops::Try>::branch") and len(e[2]) == 1:
            e = ir.peel(e[2][0])
        elif e[0] == 'phi':
            return any(derives_from_site(x, fid, bb) for x in e[1])
        else:
            break
    return e[0] == 'call' and e[3] == (fid, bb)


def mentions_site(e, fid, bb):
    return any(x[0] == 'call' and x[3] == (fid, bb) for x in ir.walk(e))


def frame_paths_to_return(g, ev, start, is_event, limit=3000):
    """Explore forward from `start` inside start's frame (and frames inlined below it); returns
    (events met, return nodes reached, left_frame_ok). Stops at the frame's own Return."""
    fr = start.frame
    seen = set()
    work = [start]
    events = []
    rets = []
    while work:
        n = work.pop()
        if n.key in seen:
            continue
        seen.add(n.key)
        if len(seen) > limit:
            break
        if is_event(n):
            events.append(n)
            continue
        if n.frame is fr and n.term["k"] == "return":
            rets.append(n)
            continue
        for (m, lab) in g.succ.get(n.key, []):
            work.append(m)
    return events, rets


def error_kind_on_path(g, start, limit=400):
    """Names of std::io::ErrorKind variants constructed on paths from `start` to its frame's return."""
    fr = start.frame
    seen = set()
    work = [start]
    kinds = set()
    while work:
        n = work.pop()
        if n.key in seen or len(seen) > limit:
            continue
        seen.add(n.key)
        for st in n.stmts:
            if st["k"] == "assign" and st["rv"]["k"] == "agg" and st["rv"].get("adt") == "std::io::ErrorKind":
                kinds.add(st["rv"]["vn"])
        if n.frame is fr and n.term["k"] == "return":
            continue
        for (m, lab) in g.succ.get(n.key, []):
            work.append(m)
    return kinds


def witness_may(g, effect, target, fact, limit=100000):
    """A path ending in `target` along which `fact` is generated and then never killed."""
    from collections import deque
    prev = {target.key: None}
    dq = deque([target])
    start = None
    while dq and start is None:
        n = dq.popleft()
        for (p, lab) in g.pred.get(n.key, []):
            gens, kills = effect(p, n, lab)
            if fact in gens:
                prev[p.key] = n
                start = p
                break
            if fact in kills or p.key in prev:
                continue
            prev[p.key] = n
            dq.append(p)
    if start is None:
        return []
    path = []
    n = start
    while n is not None:
        path.append(n)
        n = prev.get(n.key)
    return path


def construction_sites(facts, adt_npath, depth=0):
    """Construction sites of an ADT as (body, block index, {field: expression in that body}, location).
    A private constructor function that is new relative to the pinned tree is looked through: its call sites are the
    sites, with the constructor's parameters replaced by the arguments."""
    import facts as F
    out = []
    for (b, bi, si, st) in F.aggregates_of(facts, adt_npath):
        r = ir.Resolver(b)
        fields = {k: r.operand(v, (bi, si)) for k, v in zip(st["rv"]["fields"], st["rv"]["ops"])}
        loc = "%s:%d" % (st["sp"]["f"], st["sp"]["l"])
        if depth < 3 and facts.is_new_helper(b.npath):
            for (cb, cbi, t, name) in F.calls_to(facts, lambda n, _p=b.npath: n == _p):
                cr = ir.Resolver(cb)
                args = [cr.operand(a, (cbi, -1)) for a in t["args"]]

                def subst(e):
                    if e[0] == 'param' and 1 <= e[1] <= len(args):
                        return args[e[1] - 1]
                    if e[0] in ('field', 'variant', 'ref', 'deref', 'discr'):
                        return (e[0], subst(e[1])) + tuple(e[2:])
                    if e[0] == 'call':
                        return (e[0], e[1], tuple(subst(a) for a in e[2]), e[3])
                    if e[0] == 'cast':
                        return (e[0], e[1], subst(e[2]), e[3])
                    if e[0] == 'agg':
                        return (e[0], e[1], e[2], tuple((n_, subst(x)) for n_, x in e[3]))
                    if e[0] == 'bin':
                        return (e[0], e[1], subst(e[2]), subst(e[3]))
                    return e
                cloc = "%s:%d" % (t["sp"]["f"], t["sp"]["l"]) if t.get("sp") else loc
                out.append((cb, cbi, {k: ir.simplify(subst(v)) for k, v in fields.items()}, cloc))
            continue
        out.append((b, bi, fields, loc))
    return out


def owners(facts, npath, depth=0):
    """The functions of the pinned tree on whose behalf `npath` runs: itself, or -- for a helper that is new relative to the
    pinned tree -- the (transitive) callers of that helper."""
    import facts as F
    base = npath.split("::{closure")[0]
    if not facts.is_new_helper(base) or depth > 3:
        return {npath}
    out = set()
    for (cb, cbi, t, name) in F.calls_to(facts, lambda n, _p=base: n == _p):
        out |= owners(facts, cb.npath, depth + 1)
    return out or {npath}


def preamble_fns(facts):
    """The preamble phase of a connection, by what it does: the non-public async function(s) of the async layer whose body drives
    request::Parser::parse (on the pinned tree: Token::parse_request) -- wherever it lives and whatever it is called."""
    c = facts.__dict__.get("_preamble_fns")
    if c is None:
        c = set()
        for b in facts.bodies:
            if not b.is_coroutine or b.promoted:
                continue
            base = b.npath.split("::{closure")[0]
            d = facts.fns.get(base)
            if d is None or d.get("vis") == "pub" or not (base.startswith("async_io::") or base.startswith("<async_io::")):
                continue
            for blk in b.blocks:
                t = blk["t"]
                if t["k"] == "call" and "path" in t["func"]:
                    import facts as F
                    nm = F.norm(t["func"]["res"]["path"] if t["func"].get("res") else t["func"]["path"])
                    if nm == "parser::request::Parser::parse":
                        c.add(base)
        facts.__dict__["_preamble_fns"] = c
    return c


def writeable_model(facts):
    """How `Request.writeable` says "writeable": the value every non-constructor write stores ("raised"): ('b', 1) for a bool flag,
    ('v', Variant, adt) when a private fieldless enum replaced the bool.  None if the writes disagree."""
    c = facts.__dict__.get("_writeable_model", 0)
    if c != 0:
        return c
    import facts as F
    toks = set()
    for (b, bi, how, sp) in F.field_accesses(facts, "async_io::Request", "writeable"):
        if how != "write":
            continue
        r = ir.Resolver(b)
        for si, st in enumerate(b.blocks[bi]["st"]):
            if st["k"] == "assign" and any(el.get("n") == "writeable" for el in st["place"].get("p", [])):
                v = ir.peel(r.rvalue(st["rv"], (bi, si)))
                cvv = ir.const_value(v)
                if cvv is not None:
                    toks.add(('b', cvv))
                elif v[0] == 'agg' and v[1] == 'adt' and not v[3]:
                    toks.add(('v', v[2].rsplit("::", 1)[-1], v[2].rsplit("::", 1)[0]))
                else:
                    toks.add(('?', ir.show(v)[:40]))
    m = next(iter(toks)) if len(toks) == 1 else None
    facts.__dict__["_writeable_model"] = m
    return m


def writeable_truth(facts, de, lab):
    """On this switch edge, is the request known to be writeable (True) / not writeable (False)?  None: the condition is not about the flag.
    Recognised: the flag itself, the public accessor is_writeable(), the discriminant of / an equality test on the enum form."""
    if de is None or not isinstance(lab, tuple):
        return None
    m = writeable_model(facts)
    x = ir.peel(de, casts=False)
    t = lab[0] == 'otherwise' or (lab[0] == 'case' and lab[1] != 0)

    def is_flag(y):
        y = ir.peel(y)
        return y[0] == 'field' and y[2] == 'writeable'
    if is_flag(x):
        return t if (m is None or m == ('b', 1)) else None
    if x[0] == 'call' and x[1] == "async_io::Request::is_writeable":
        return t
    if m is not None and m[0] == 'v':
        if x[0] == 'discr' and is_flag(x[1]):
            try:
                d = facts.enum_discr(m[2])
            except Exception:
                return None
            if lab[0] == 'case':
                return d.get(m[1]) == lab[1]
            left = [k for k, v in d.items() if v not in lab[1]]
            return (left[0] == m[1]) if len(left) == 1 else None
        if x[0] == 'call' and (x[1].endswith("PartialEq>::eq") or x[1].endswith("PartialEq>::ne")) and len(x[2]) == 2:
            a, b = ir.peel(x[2][0]), ir.peel(x[2][1])
            for (u, w) in ((a, b), (b, a)):
                if is_flag(u) and w[0] == 'agg' and w[1] == 'adt':
                    same = (w[2].rsplit("::", 1)[-1] == m[1])
                    eq = t if x[1].endswith("::eq") else (not t)
                    return eq if same else (not eq if len(facts.enum_discr(m[2])) == 2 else None)
    return None
