"""C10 — output records are complete, never interleaved, carry exactly the written bytes (R10.1–R10.5)."""
import facts as F
import ir
import ieg
import events as E
from . import common

ENTRIES = [
    ("writer.poll_write", "<async_io::StreamWriter as futures_util::AsyncWrite>::poll_write"),
    ("writer.poll_flush", "<async_io::StreamWriter as futures_util::AsyncWrite>::poll_flush"),
    ("writer.poll_close", "<async_io::StreamWriter as futures_util::AsyncWrite>::poll_close"),
    ("poll_read", "<async_io::Request as futures_util::AsyncRead>::poll_read"),
    ("poll_fill_buf", "<async_io::Request as futures_util::AsyncBufRead>::poll_fill_buf"),
    ("writeable", "async_io::Request::writeable::{closure#0}"),
    ("run", "async_io::Token::run::{closure#0}"),
]
LOCK_POLL = "async_io::util::RepeatableLockFuture::poll"
LOCK_NEW = "async_io::util::RepeatableLockFuture::new"
WRITER = "async_io::StreamWriter"


def no_util(b):
    p = b.npath
    return (p.startswith("async_io::") or p.startswith("<async_io::")) and not p.startswith("async_io::util::")


def receiver_class(e):
    """How the transport writer reference was obtained."""
    e = ir.peel(e)
    # &mut *guard  where guard = Ready payload of RepeatableLockFuture::poll
    x = e
    while x[0] in ('field', 'variant'):
        x = ir.peel(x[1])
    if x[0] == 'call' and x[1] == LOCK_POLL:
        return 'guard'
    if x[0] == 'phi':
        cs = {receiver_class(y) for y in x[1]}
        if all(c.startswith('owned:') for c in cs):
            return 'owned:' + "|".join(sorted(c[6:] for c in cs))
        return cs.pop() if len(cs) == 1 else 'mixed:' + ",".join(sorted(map(str, cs)))
    if any(y[0] == 'call' and y[1] == "futures_util::lock::Mutex::into_inner" for y in ir.walk(e)) and any(
            y[0] == 'call' and y[1] == "std::sync::Arc::try_unwrap" for y in ir.walk(e)):
        return 'unwrapped'
    if e[0] in ('upvar', 'param'):
        return 'owned:' + str(e[2])
    # the writer handed back by the previous request's close() (element of the tuple in Some(..))
    if any(y[0] == 'variant' for y in ir.walk(e)) and any(
            y[0] == 'call' and 'Instrumented' in y[1] for y in ir.walk(e)):
        return 'owned:returned-by-close'
    return 'other:' + ir.show(e)[:60]


def lock_field(e):
    """('field', base, 'lock') of a StreamWriter / Request?"""
    e = ir.peel(e)
    return e[0] == 'field' and e[2] == 'lock'


def field_writes(g, n):
    out = []
    for si, st in enumerate(n.stmts):
        if st["k"] != "assign" or "p" not in st["place"]:
            continue
        pl = g.resolve_place(n.frame, st["place"], (n.bb, si))
        pl = ir.peel(pl)
        if pl[0] == 'field':
            val = g.lift(n.frame, n.frame.res.rvalue(st["rv"], (n.bb, si)))
            out.append((pl, val, st))
    return out


def check_entry(rep, facts, label, entry, counters):
    body = facts.body(entry)
    g = ieg.IEG(facts, body, inline_filter=no_util)
    ev = E.Events(g)
    rep.stats.setdefault("graphs", {})[label] = g.stats()

    def nm(n):
        return g.callee(n) if n.term["k"] == "call" and not n.noise() else None

    # ---- R10.1 receivers ---------------------------------------------------------------------------------
    for n in g.all_nodes():
        e = ev.at(n)
        if e is None or e[0] not in ('WRITE', 'FLUSH'):
            continue
        recv = e[3] if e[0] == 'WRITE' else e[2]
        cls = receiver_class(recv) if recv is not None else 'unknown'
        counters["writes"] += 1
        key = "%s/%s/%s-receiver" % (label, common.fn_of(n), e[1])
        fn = common.fn_of(n)
        if cls == 'guard' or cls == 'unwrapped':
            rep.ok("R10.1", key, "transport reached through %s" % ("the mutex guard kept by the repeatable lock future" if cls == 'guard' else "Arc::try_unwrap(..).into_inner() (exclusive)"), n.loc())
        elif cls.startswith('owned:') and fn in common.preamble_fns(facts):
            rep.ok("R10.1", key, "preamble phase: the connection task owns the writer, no Request / StreamWriter exists yet", n.loc())
        else:
            rep.violation("R10.1", key, "transport written through %s: not under the shared mutex guard nor exclusively owned" % cls, n.loc())

    # ---- R10.2 releases ----------------------------------------------------------------------------------
    def effect(n, m, lab):
        gens, kills = set(), set()
        e = ev.at(n)
        name = nm(n)
        if e is not None and e[0] == 'WRITE':
            kills.update(["DONE", "EMPTY"])
        if e is not None and e[0] == 'PARSE':
            kills.add("EMPTY")
        if name == "protocol::RecordHeader::set_lengths":
            kills.add("DONE")
        if n.term["k"] == "switch":
            de = ev.switch_expr(n)
            x = ir.peel(de) if de is not None else None
            neg = False
            while x is not None and x[0] == 'un' and x[1] == 'Not':
                neg = not neg
                x = ir.peel(x[2])
            # "is a record in flight?" = zero test over the remaining content and padding lengths of the header
            zt = common.zero_test(de, n.term.get("dty")) if de is not None else None
            if zt is not None:
                val, c0, other = zt
                names = {y[2] for y in ir.walk(val) if y[0] == 'field'}
                if {'content_length', 'padding_length'} <= names and ev.edge_value(lab, c0, other) == 'zero':
                    gens.add("DONE")
            r = ev.emptiness_edges(n)
            if r is not None and r[0] == 'str_out' and ev.edge_value(lab, r[2], r[3]) == 'empty':
                gens.add("EMPTY")
        return gens, kills
    must = common.must_dataflow(g, frozenset(), effect)
    for n in g.all_nodes():
        if n.key not in must:
            continue
        st = must[n.key]
        rels = []
        for (pl, val, s) in field_writes(g, n):
            if pl[2] == 'lock':
                v = ir.peel(val)
                if v[0] == 'agg' and v[2].endswith("Option::None"):
                    rels.append(('assign-none', pl, s["sp"]))
                elif v[0] == 'agg' and v[2].endswith("Option::Some"):
                    pass
                else:
                    rels.append(('assign-other:' + ir.show(v)[:40], pl, s["sp"]))
        name = nm(n)
        if name == "std::mem::drop" and lock_field(g.arg(n, 0)):
            rels.append(('mem-drop', ir.peel(g.arg(n, 0)), n.term["sp"]))
        if name in ("std::option::Option::take", "std::mem::take", "std::mem::replace") and n.term["args"] and lock_field(g.arg(n, 0)):
            rels.append(('take', ir.peel(g.arg(n, 0)), n.term["sp"]))
        for (how, pl, sp) in rels:
            counters["releases"] += 1
            fn = common.fn_of(n)
            loc = "%s:%d" % (sp["f"], sp["l"])
            owner = "writer" if fn.startswith("<async_io::StreamWriter") or fn.startswith("async_io::StreamWriter") else "request"
            key = "%s/%s/release[%s]" % (label, fn, how)
            if how == 'mem-drop' and fn == "async_io::Request::close":
                # must be followed by a successful try_unwrap before any write
                events, rets = common.frame_paths_to_return(g, ev, n, lambda k: k is not n and ((ev.at(k) or ('',))[0] in ('WRITE', 'FLUSH') or nm(k) == "std::sync::Arc::try_unwrap"))
                if events and all(nm(k) == "std::sync::Arc::try_unwrap" for k in events):
                    rep.ok("R10.2", key, "guard dropped only to take exclusive ownership (Arc::try_unwrap follows before any write)", loc)
                else:
                    rep.violation("R10.2", key, "guard dropped in close() without Arc::try_unwrap before the next write", loc)
            elif owner == "writer":
                if "DONE" in st:
                    rep.ok("R10.2", key, "released only after is_writing(head) == false (record complete) with no write in between", loc)
                else:
                    rep.violation("R10.2", key, "the output lock can be released while a record is partially written", loc)
            else:
                if "EMPTY" in st:
                    rep.ok("R10.2", key, "released only after the reply buffer was seen empty with no write in between", loc)
                else:
                    rep.violation("R10.2", key, "the output lock can be released while management replies are partially written", loc)

    # ---- R10.5 consume_output(count) ------------------------------------------------------------------------
    for n in g.all_nodes():
        e = ev.at(n)
        if e is None or e[0] != 'CONSUME_OUT':
            continue
        counters["consumes"] += 1
        arg = e[1]
        fn = common.fn_of(n)
        key = "%s/%s/consume-output-amount" % (label, fn)
        ok = False
        why = ""
        for wn in g.all_nodes():
            we = ev.at(wn)
            if we is not None and we[0] == 'WRITE' and we[1] in ("poll_write", "poll_write_vectored", "await_count") and common.derives_from_site(arg, wn.frame.id, wn.bb):
                if E.subject_class(we[2]) == 'str_out':
                    ok = True
                    why = "amount = byte count returned by the poll_write of output_buffer()"
        a = ir.peel(arg)
        if not ok and a[0] == 'call' and a[1].endswith("::len") and E.subject_class(a[2][0]) == 'str_out':
            # whole buffer: only after a completed write_all of that same buffer
            def eff(k, m, lab):
                gens, kills = set(), set()
                if k.term["k"] == "switch" and lab == ('case', 0):
                    for (pe, cn) in ev.poll_switches(k):
                        if pe is not None and pe[0] == 'WRITE' and pe[1] == 'await_all' and pe[2] is not None and E.subject_class(pe[2]) == 'str_out':
                            gens.add("ALL")
                ek = ev.at(k)
                if ek is not None and ek[0] in ('PARSE', 'CONSUME_OUT'):
                    kills.add("ALL")
                return gens, kills
            m2 = common.must_dataflow(g, frozenset(), eff)
            if "ALL" in m2.get(n.key, frozenset()):
                ok = True
                why = "amount = len(output_buffer()) right after write_all(output_buffer()) completed"
        if ok:
            rep.ok("R10.5", key, why, n.loc())
        else:
            rep.violation("R10.5", key, "consume_output(%s): bytes are discarded that were not confirmed written" % ir.show(arg)[:60], n.loc())
    return g, ev


def check_writer_body(rep, facts):
    """R10.3 / R10.4 on StreamWriter::poll_write."""
    entry = "<async_io::StreamWriter as futures_util::AsyncWrite>::poll_write"
    body = facts.body(entry)
    g = ieg.IEG(facts, body, inline_filter=no_util)
    ev = E.Events(g)
    writes = {}
    starts = []
    for n in g.all_nodes():
        for (pl, val, s) in field_writes(g, n):
            writes.setdefault(pl[2], []).append((n, pl, val, s))
        if n.term["k"] == "call" and g.callee(n) == "protocol::RecordHeader::set_lengths":
            starts.append(n)
    # record start happens only inside the closure that creates the lock future
    def in_lock_init(n):
        f = n.frame
        while f is not None:
            if f.kind == 'closure':
                t = f.call_term
                pn = f.parent
                name = F.norm(t["func"].get("path", ""))
                recv = g.resolve(pn, t["args"][0], (f.site, -1)) if t["args"] else None
                if name == "std::option::Option::get_or_insert_with" and recv is not None and lock_field(recv):
                    r = g._return_expr(f, 0)
                    if r is not None and any(x[0] == 'call' and x[1] == LOCK_NEW for x in ir.walk(r)):
                        return True
            f = f.parent
        return False
    # ... or, equivalently, on a path on which the lock slot was just seen to be None (`match this.lock { None => .. }`)
    def eff_none(k, m, lab):
        gens, kills = set(), set()
        if k.term["k"] == "switch" and isinstance(lab, tuple):
            de = ev.switch_expr(k)
            if de is not None and de[0] == 'discr' and lock_field(de[1]):
                if lab == ('case', 0) or (lab[0] == 'otherwise' and 1 in lab[1] and 0 not in lab[1]):
                    gens.add("LOCK_NONE")
        for (pl, val, s) in field_writes(g, k):
            if pl[2] == 'lock':
                kills.add("LOCK_NONE")
        if k.term["k"] == "call" and k.term["args"]:
            nm_ = g.callee(k) or ""
            if nm_.startswith("std::option::Option::") and nm_.split("::")[-1] in ("insert", "get_or_insert_with", "get_or_insert", "replace", "take") \
                    and lock_field(g.arg(k, 0)):
                kills.add("LOCK_NONE")
        return gens, kills
    m_none = common.must_dataflow(g, frozenset(), eff_none)
    closure_init = in_lock_init

    def in_lock_init(n):     # noqa: F811  (either form)
        return closure_init(n) or "LOCK_NONE" in m_none.get(n.key, frozenset())
    rep.floor("R10.3", "set_lengths calls in poll_write", len(starts), 1)
    for n in starts:
        a1 = ir.peel(g.arg(n, 1))
        lens = [x for x in ir.walk(a1) if x[0] == 'call' and x[1].endswith("::len")]
        cap = any(ir.const_value(x) == 65535 for x in ir.walk(a1))
        if not in_lock_init(n):
            rep.violation("R10.3", "poll_write/record-start-site", "a record is (re)started outside the closure that creates the lock future: lengths could change mid-record", n.loc())
        elif not (lens and cap and ir.peel(lens[0][2][0])[0] in ('param', 'upvar')):
            rep.violation("R10.3", "poll_write/record-length", "record length is %s, expected min(buf.len(), u16::MAX)" % ir.show(a1)[:100], n.loc())
        else:
            rep.ok("R10.3", "poll_write/record-start", "set_lengths(buf.len() capped at 65535) only when a new lock future is created (no record in flight)", n.loc())
    for fld, want in (("head_idx", "zero"), ("orig_len", "content_length")):
        ws = writes.get(fld, [])
        init = [w for w in ws if in_lock_init(w[0])]
        rest = [w for w in ws if not in_lock_init(w[0])]
        okinit = False
        for (n, pl, val, s) in init:
            v = ir.peel(val)
            if want == "zero" and ir.const_value(v) == 0:
                okinit = True
            if want == "content_length" and v[0] == 'field' and v[2] == 'content_length':
                okinit = True
            if want == "content_length" and any(v == ir.peel(g.arg(sn, 1)) for sn in starts if in_lock_init(sn)):
                okinit = True       # the very value handed to set_lengths (which stores it as content_length: R17.6), kept in a local
        if not okinit:
            rep.violation("R10.3", "poll_write/%s-init" % fld, "%s is not initialised (%s) when a record starts" % (fld, want), body.loc())
        else:
            rep.ok("R10.3", "poll_write/%s-init" % fld, "%s <- %s at record start" % (fld, want), "%s:%d" % (init[0][3]["sp"]["f"], init[0][3]["sp"]["l"]))
        for (n, pl, val, s) in rest:
            v = ir.peel(val, casts=False)
            loc = "%s:%d" % (s["sp"]["f"], s["sp"]["l"])
            # allowed: field (+)= amount written
            self_upd = v[0] == 'field' and v[1][0] == 'bin' or (v[0] == 'bin' and v[1].startswith('Add') and ir.peel(v[2]) == pl)
            if fld == "head_idx" and self_upd:
                rep.ok("R10.3", "poll_write/head_idx-advance", "head_idx only advances by a written amount", loc)
            else:
                rep.violation("R10.3", "poll_write/%s-write" % fld, "%s is overwritten mid-record with %s" % (fld, ir.show(v)[:80]), loc)
    for fld in ("content_length", "padding_length"):
        for (n, pl, val, s) in writes.get(fld, []):
            v = ir.peel(val, casts=False)
            loc = "%s:%d" % (s["sp"]["f"], s["sp"]["l"])
            inner = v
            if inner[0] == 'field' and inner[1][0] == 'bin':
                inner = inner[1]
            if inner[0] == 'bin' and inner[1].startswith('Sub') and ir.peel(inner[2]) == pl:
                rep.ok("R10.3", "poll_write/%s-decrease" % fld, "%s only decreases by a written amount" % fld, loc)
            else:
                rep.violation("R10.3", "poll_write/%s-write" % fld, "%s of the in-flight header is overwritten with %s" % (fld, ir.show(v)[:80]), loc)

    # ---- R10.4 iov and return value ------------------------------------------------------------------------
    wn = [n for n in g.all_nodes() if (ev.at(n) or ('',))[0] == 'WRITE']
    rep.floor("R10.4", "vectored write sites in poll_write", len(wn), 1)
    for n in wn:
        e = ev.at(n)
        iov = e[2]
        arr = [x for x in ir.walk(iov) if x[0] == 'agg' and x[1] == 'array']
        if not arr or len(arr[0][3]) != 3:
            rep.violation("R10.4", "poll_write/iov-shape", "the vectored write is not given a 3-slice array: " + ir.show(iov)[:100], n.loc())
            continue
        el = [x for (_, x) in arr[0][3]]

        def has(e_, callee=None, fieldname=None):
            for y in ir.walk(e_):
                if callee and y[0] == 'call' and y[1] == callee:
                    return True
                if fieldname and y[0] == 'field' and y[2] == fieldname:
                    return True
            return False
        c0 = has(el[0], callee="protocol::RecordHeader::to_bytes") and has(el[0], fieldname="head_idx")
        c1 = has(el[1], callee="core::slice::get") and has(el[1], fieldname="orig_len") and has(el[1], fieldname="content_length")
        c2 = has(el[2], callee="protocol::RecordHeader::padding_bytes") and not has(el[2], callee="protocol::RecordHeader::to_bytes")
        if c0 and c1 and c2:
            rep.ok("R10.4", "poll_write/iov-order", "iov = [header bytes from head_idx, payload tail of buf[..orig_len], padding bytes] in that order", n.loc())
        else:
            rep.violation("R10.4", "poll_write/iov-order", "iov slices are not (header[head_idx..], buf[..orig_len][payload_idx..], padding): %s" % [c0, c1, c2], n.loc())
    # return value on the success path: Ready(Ok(len(truncated buf)))
    okret = 0
    for n in g.all_nodes():
        if n.frame is not g.root:
            continue
        for si, st in enumerate(n.stmts):
            if st["k"] == "assign" and st["place"]["l"] == 0 and "p" not in st["place"] and st["rv"]["k"] == "agg" and st["rv"].get("vn") == "Ready":
                v = g.lift(n.frame, n.frame.res.rvalue(st["rv"], (n.bb, si)))
                oks = [x for x in ir.walk(v) if x[0] == 'agg' and x[2].endswith("Result::Ok")]
                for o in oks:
                    cnt = ir.peel(o[3][0][1]) if o[3] else None
                    if cnt is None:
                        continue
                    if ir.const_value(cnt) == 0:
                        rep.ok("R10.4", "poll_write/return-empty", "Ready(Ok(0)) for an empty buffer", "%s:%d" % (st["sp"]["f"], st["sp"]["l"]))
                        continue
                    okret += 1
                    if cnt[0] == 'call' and cnt[1].endswith("::len") and any(y[0] == 'call' and y[1] == "core::slice::get" for y in ir.walk(cnt)) and any(
                            y[0] == 'field' and y[2] == 'orig_len' for y in ir.walk(cnt)):
                        rep.ok("R10.4", "poll_write/return-count", "returns len(buf[..orig_len]) — the bytes of the record just completed", "%s:%d" % (st["sp"]["f"], st["sp"]["l"]))
                    else:
                        rep.violation("R10.4", "poll_write/return-count", "returns %s, not the length of the truncated slice" % ir.show(cnt)[:80], "%s:%d" % (st["sp"]["f"], st["sp"]["l"]))
    rep.floor("R10.4", "success returns of poll_write", okret, 1)


def check_lock_future(rep, facts):
    """The repeatable lock future keeps the owned guard across polls: poll returns &mut *guard of the Done state."""
    b = facts.body(LOCK_POLL)
    r = ir.Resolver(b)
    g = ieg.IEG(facts, b, inline_filter=lambda x: False)
    states = F.aggregates_of(facts, "async_io::util::RepeatableLockFuture")
    done = [s for s in states if s[3]["rv"]["vn"] == "Done"]
    if len(done) == 1 and done[0][0] is b:
        e = ir.peel(r.operand(done[0][3]["rv"]["ops"][0], (done[0][1], done[0][2])))
        # FutureExt::poll_unpin(f, cx) is by definition Pin::new(f).poll(cx)
        src_ok = any(x[0] == 'call' and (x[1].endswith("Future>::poll") or x[1].endswith("FutureExt::poll_unpin") or x[1].endswith("Future::poll")) for x in ir.walk(e))
        if src_ok:
            rep.ok("R10.1", "lock-future/stores-guard", "Done(guard) stores the guard produced by polling lock_owned()'s future", b.loc())
        else:
            rep.violation("R10.1", "lock-future/stores-guard", "Done state is built from %s" % ir.show(e)[:80], b.loc())
    else:
        rep.violation("R10.1", "lock-future/stores-guard", "the Done state of the lock future is constructed at %d sites" % len(done), b.loc())
    nb = facts.body(LOCK_NEW)
    calls = [F.norm(blk["t"]["func"].get("path", "")) for blk in nb.blocks if blk["t"]["k"] == "call"]
    if "futures_util::lock::Mutex::lock_owned" in calls:
        rep.ok("R10.1", "lock-future/new-locks-owned", "new() = Poll(mutex.lock_owned())", nb.loc())
    else:
        rep.violation("R10.1", "lock-future/new-locks-owned", "new() calls %s" % calls, nb.loc())


def run(rep, facts):
    rep.rule("R10.1", "every transport write/flush goes through the guard of the shared output mutex (kept by the repeatable lock future), the writer recovered by Arc::try_unwrap, or the connection task's own &mut W in the preamble phase")
    rep.rule("R10.2", "the output lock is released only when no record is partially written: after is_writing(head)==false / after the reply buffer was seen empty, with no data write in between; close() drops it only to take exclusive ownership")
    rep.rule("R10.3", "a record is started (set_lengths, head_idx<-0, orig_len<-content_length) only in the closure that creates a new lock future; mid-record the header fields change only by written amounts")
    rep.rule("R10.4", "iov = [header[head_idx..], buf[..orig_len][payload_idx..], padding] in this order; the success return is the length of the truncated slice")
    rep.rule("R10.5", "consume_output(n): n is the byte count returned by the write of output_buffer(), or the whole length right after write_all of it completed")
    counters = {"writes": 0, "releases": 0, "consumes": 0}
    for label, entry in ENTRIES:
        check_entry(rep, facts, label, entry, counters)
    check_writer_body(rep, facts)
    check_lock_future(rep, facts)
    rep.floor("R10.1", "transport write/flush events", counters["writes"], 8)
    rep.floor("R10.2", "lock releases", counters["releases"], 4)
    rep.floor("R10.5", "consume_output sites", counters["consumes"], 3)


def run_padding(rep, facts):
    """R10.6: "padding below 8, content plus padding a multiple of 8": every output record is started through RecordHeader::set_lengths (R10.3);
    its padding rule is decided for every content length by C17 R17.6, re-evaluated here."""
    import check as _check
    from . import c17
    rep.rule("R10.6", "the padding of every stream record comes from set_lengths, which yields 0 for an aligned content length and 8 - (content % 8) otherwise, "
                      "for every u16 content length (R17.6)")
    sr = _check.Report("tmp", "quick")
    c17.r17_6_set_lengths(sr, facts)
    n = 0
    for i in sr.instances:
        n += 1
        (rep.ok if i["status"] == "ok" else rep.violation)("R10.6", i["instance"], i["detail"], i["loc"])
    rep.floor("R10.6", "set_lengths instances", n, 1)


def main(rep, tier):
    import check
    f = F.load(("async", "http"))
    rep.configs.append({"features": "async,http", "profile": "debug", "bodies": len(f.bodies)})
    check.guard(rep, "R10", run, f)
    check.guard(rep, "R10.6", run_padding, f)
    return rep.finish(
        "Who-may-write / typestate rules: all transport writes happen under the shared mutex guard (or with exclusive ownership), the guard "
        "is released only at record boundaries, record-start field writes happen only when a new lock is taken, the iov triple is in "
        "header-payload-padding order and the reported count is the truncated slice; reply bytes are consumed only when confirmed written.",
        not_decided="the distribution arithmetic of a partial vectored write over the three slices (iov_written closure) (the padding values themselves: R10.6 = R17.6)")
