"""C13 — never more live tokens than max_conns (R13.1–R13.3)."""
import facts as F
import ir
import ieg
from . import common

TOKEN = "async_io::Token"
RUNNER = "async_io::Runner"
LEAKS = ("std::mem::forget", "std::mem::ManuallyDrop::new", "std::boxed::Box::leak", "std::boxed::Box::into_raw",
         "std::sync::Arc::into_raw", "std::sync::Arc::increment_strong_count", "std::rc::Rc::into_raw",
         "std::mem::transmute", "std::ptr::read", "std::ptr::write", "std::mem::zeroed", "std::mem::MaybeUninit::assume_init",
         "async_lock::SemaphoreGuardArc::forget", "async_lock::Semaphore::add_permits")


def leak_sites(facts):
    return F.calls_to(facts, lambda n: n in LEAKS or n.endswith("::forget") or "ManuallyDrop" in n)


def run(rep, facts):
    rep.rule("R13.1", "Token is constructed at one site; its permit field is the awaited result of acquire_arc on the runner's semaphore, its task token comes from the runner's wait group, its stop listener from the runner's stop event; get_token suspends only on the permit acquisition")
    rep.rule("R13.2", "Semaphore::new has one call site whose argument is config.max_conns.get(); every Runner construction takes `sema` from that value or from Arc::clone of an existing runner's `sema`")
    rep.rule("R13.3", "no leak primitive (mem::forget, ManuallyDrop, Box::leak, Arc::into_raw, transmute, permit forget/add_permits) anywhere in the crate; the permit field is never read, moved out or overwritten")

    # ---- R13.1 ------------------------------------------------------------------------------------------
    sites = F.aggregates_of(facts, TOKEN)
    if not sites:
        rep.violation("R13.1", "token-construction-sites", "Token is constructed nowhere")
    multi = len(sites) > 1      # (e.g. a non-blocking `try_get_token` beside `get_token`: every site is held to the same provenance rule)
    for (b0, bi, si, st) in sites:
        # a private constructor that is new relative to the pinned tree is looked through: the values are resolved in, and
        # the suspension rule applies to, the function calling it
        hosts = []
        if facts.is_new_helper(b0.npath):
            for (cb, cbi, t_, nm_) in F.calls_to(facts, lambda n, _p=b0.npath: n == _p):
                g_ = ieg.IEG(facts, cb, inline_filter=lambda body: False)
                frs = [f_ for f_ in g_.frames if f_.body is b0]
                if frs:
                    hosts.append((cb, g_, frs[0]))
        if len(hosts) == 1:
            b, g, fr = hosts[0]
        elif hosts:
            rep.violation("R13.1", "token-construction-sites", "Token's constructor is called at %d sites, expected 1" % len(hosts))
            continue
        else:
            b = b0
            g = ieg.IEG(facts, b, inline_filter=lambda body: False)
            fr = g.root
        rv = st["rv"]
        fields = dict(zip(rv["fields"], rv["ops"]))
        loc = "%s:%d" % (st["sp"]["f"], st["sp"]["l"])
        want = {
            "_sg": (("async_lock::Semaphore::acquire_arc", "async_lock::Semaphore::try_acquire_arc"), "sema"),
            "_tt": (("async_io::util::WaitGroup::add_task",), "wg"),
            "stop_fut": (("event_listener::Event::listen",), "stop"),
        }
        sfx = "@" + b.npath.split("::{closure")[0].split("::")[-1] if multi else ""
        permit_via = None
        for fname, (callees, srcfield) in want.items():
            callee = callees[0]
            if fname not in fields:
                rep.undecidable("R13.1", "token-field[%s]" % fname, "Token has no field %s" % fname, loc)
                continue
            e = g.resolve(fr, fields[fname], (bi, si))
            calls = [x for x in ir.walk(e) if x[0] == 'call' and x[1] in callees]
            ok = False
            for c in calls:
                a0 = ir.peel(c[2][0]) if c[2] else None
                if a0 is not None and a0[0] == 'field' and a0[2] == srcfield:
                    ok = True
                    if fname == "_sg":
                        permit_via = c[1].split("::")[-1]
            # the value must be the call result itself (modulo await / `?` plumbing), not something merely computed from it
            top = ir.peel(e)
            while True:
                if top[0] in ('field', 'variant'):
                    top = ir.peel(top[1])
                elif top[0] == 'call' and top[1].endswith("std::ops::Try>::branch") and top[2]:
                    top = ir.peel(top[2][0])        # `try_acquire_arc()?`: the Some payload
                else:
                    break
            if top[0] == 'call' and top[1].endswith("Future>::poll") and top[2]:
                ok = ok and True
            elif top[0] == 'call' and top[1] in callees:
                ok = ok and True
            else:
                ok = False
            if ok:
                rep.ok("R13.1", "token-field[%s]%s" % (fname, sfx), "%s <- %s(self.%s)" % (fname, (permit_via if fname == "_sg" and permit_via else callee.split("::")[-1]), srcfield), loc)
            else:
                rep.violation("R13.1", "token-field[%s]%s" % (fname, sfx), "Token.%s is %s; expected the result of %s on self.%s" % (fname, ir.show(e)[:120], " / ".join(c_.split("::")[-1] for c_ in callees), srcfield), loc)
        # suspension points of the enclosing coroutine
        if b.is_coroutine:
            ys = [(i, blk["t"]) for i, blk in enumerate(b.blocks) if blk["t"]["k"] == "yield"]
            polls = [(i, blk["t"]) for i, blk in enumerate(b.blocks) if ieg.is_await_poll(blk["t"])]
            tys = [p[1]["func"]["args"][0]["s"] for p in polls]
            if len(ys) == 1 and len(polls) == 1 and "AcquireArc" in tys[0]:
                rep.ok("R13.1", "get-token-suspends-once" + sfx, "single suspension point, on %s" % tys[0], b.loc())
            else:
                rep.violation("R13.1", "get-token-suspends-once" + sfx, "token creation has %d suspension points awaiting %s; expected only the permit acquisition" % (len(ys), tys), b.loc())
        elif permit_via == "try_acquire_arc":
            rep.ok("R13.1", "get-token-suspends-once" + sfx, "not an async fn: the permit is taken with try_acquire_arc, nothing can suspend", b.loc())
        else:
            rep.violation("R13.1", "get-token-suspends-once" + sfx, "Token is constructed outside an async fn without try_acquire_arc", b.loc())

    # ---- R13.2 ------------------------------------------------------------------------------------------
    news = F.calls_to(facts, lambda n: n == "async_lock::Semaphore::new")
    if not news:
        rep.violation("R13.2", "semaphore-new-sites", "Semaphore::new is called nowhere")
    # (several constructors of a fresh runner -- `async_runner`, `impl From<Arc<Config>>` -- may each create one: every site is held
    #  to the sizing rule here and to the who-may-create rule at the Runner construction sites below)
    for (b, bi, t, name) in news:
        r = ir.Resolver(b)
        a = ir.peel(r.operand(t["args"][0], (bi, -1)))
        loc = "%s:%d" % (t["sp"]["f"], t["sp"]["l"])
        ok = a[0] == 'call' and a[1].endswith("::get") and a[2] and ir.peel(a[2][0])[0] == 'field' and ir.peel(a[2][0])[2] == 'max_conns'
        ksfx = "" if len(news) == 1 else "[%s]" % b.npath
        if ok:
            rep.ok("R13.2", "semaphore-size" + ksfx, "Semaphore::new(config.max_conns.get())", loc)
        else:
            rep.violation("R13.2", "semaphore-size" + ksfx, "semaphore is sized by %s, expected config.max_conns.get()" % ir.show(a)[:100], loc)
    # the semaphore may sit in Runner itself or in a private struct nested in it (`shared: RunnerShared { config, sema }`): every type
    # that (transitively) holds the Arc<Semaphore> is held to the same rule at each of its construction sites
    def fields_of(adt):
        a_ = facts.adts.get(adt)
        return a_["variants"][0]["fields"] if a_ and a_.get("variants") else []
    holders = {}        # adt -> (field name, 'direct' | nested holder adt)
    for adt in facts.adts:
        for fl in fields_of(adt):
            if "async_lock::Semaphore" in fl["ty"] and "Guard" not in fl["ty"]:
                holders[adt] = (fl["name"], 'direct')
    changed = True
    while changed:
        changed = False
        for adt in facts.adts:
            if adt in holders:
                continue
            for fl in fields_of(adt):
                h = [x for x in holders if F.norm(fl["ty"]) == x]
                if h:
                    holders[adt] = (fl["name"], h[0])
                    changed = True
    if RUNNER not in holders:
        rep.undecidable("R13.2", "runner-sema-field", "Runner holds no Arc<Semaphore>, directly or through a nested struct", None)
    nsites = 0
    for adt, (fname, how) in sorted(holders.items()):
        sites_ = common.construction_sites(facts, adt)
        if adt == RUNNER:
            rep.floor("R13.2", "Runner construction sites", len(sites_), 2)
        for (b, bi, fields, loc) in sites_:
            nsites += 1
            if fname not in fields:
                rep.undecidable("R13.2", "runner-sema-field", "%s is built without its field `%s`" % (adt, fname), loc)
                continue
            e = ir.peel(fields[fname])
            while e[0] == 'call' and e[1] in ("std::sync::Arc::new", "alloc::sync::Arc::new") and e[2]:
                e = ir.peel(e[2][0])       # Arc::new(x) is what `x.into()` does for an Arc field
            kind = None
            in_clone = bool(b.raw.get("impl_trait")) and F.norm(b.raw["impl_trait"]) == "std::clone::Clone"
            if e[0] == 'call' and e[1].endswith("Clone>::clone") and e[2]:
                a0 = ir.peel(e[2][0])
                if a0[0] == 'field' and a0[2] == fname and ir.peel(a0[1])[0] == 'param':
                    kind = "clone of self.%s" % fname
            if how == 'direct':
                if e[0] == 'call' and e[1] == "async_lock::Semaphore::new" and not in_clone:
                    kind = "a fresh Semaphore::new"     # a clone must share, never create (also when both go through one private constructor)
                    # ... and it is sized from the very configuration this runner stores
                    cfg_e = ir.peel(fields["config"]) if "config" in fields else None
                    if cfg_e is not None and e[2] and not any(ir.peel(x) == cfg_e for x in ir.walk(e[2][0])):
                        roots = lambda z: {(y[0], y[1]) for y in ir.walk(z) if y[0] == 'param'}
                        if not (roots(cfg_e) and roots(cfg_e) == roots(e[2][0])):
                            kind = None
            else:
                # the nested holder: built right here (its own site is checked), or moved in
                if e[0] == 'agg' and e[1] == 'adt' and e[2].rsplit("::", 1)[0] == how and not in_clone:
                    kind = "a %s built at this site" % how.split("::")[-1]
                elif e[0] == 'param' and not in_clone:
                    kind = "a %s handed in" % how.split("::")[-1]
            key = "runner-sema[%s]" % b.npath if adt == RUNNER else "runner-sema[%s/%s]" % (b.npath, adt.split("::")[-1])
            if kind:
                rep.ok("R13.2", key, "%s.%s <- %s" % (adt.split("::")[-1], fname, kind), loc)
            else:
                rep.violation("R13.2", key, "%s.%s is %s; a clone must share the original semaphore" % (adt.split("::")[-1], fname, ir.show(e)[:100]), loc)

    # ---- R13.3 ------------------------------------------------------------------------------------------
    leaks = leak_sites(facts)
    if leaks:
        for (b, bi, t, name) in leaks:
            rep.violation("R13.3", "leak-primitive[%s]/%s" % (name, b.npath), "%s is called: a permit (or its owner) could be leaked" % name,
                          "%s:%d" % (t["sp"]["f"], t["sp"]["l"]))
    else:
        ncalls = sum(1 for _ in F._iter_calls(facts))
        rep.ok("R13.3", "no-leak-primitives", "%d call sites scanned, none resolves to a leak primitive" % ncalls)
    acc = F.field_accesses(facts, TOKEN, "_sg")
    # derive(Debug) reads the field by reference: enumerated exception
    bad = [(b, bi, how, sp) for (b, bi, how, sp) in acc if not (how.startswith("ref:ref:shared") and "Debug" in b.npath)]
    if bad:
        for (b, bi, how, sp) in bad:
            rep.violation("R13.3", "permit-field-access/%s" % b.npath, "the permit field is accessed (%s)" % how, "%s:%d" % (sp.get("f"), sp.get("l", 0)))
    else:
        rep.ok("R13.3", "permit-field-untouched", "Token._sg is only initialised (plus %d shared borrow(s) in derive(Debug))" % len(acc))
    # Token must not implement Clone (a clone would duplicate the permit)
    for imp in facts.impls:
        if F.norm(imp["self"]["s"]) == TOKEN and F.norm(imp.get("trait", "")) in ("std::clone::Clone", "std::marker::Copy"):
            rep.violation("R13.3", "token-clone-impl", "Token implements %s" % imp["trait"])


def selfcheck_fixture(rep):
    """Positive fixture for the zero-count rule R13.3: the matcher must fire on a crate that calls mem::forget."""
    import os, subprocess, tempfile, json, uuid
    src = os.path.join(F.VERIF, "selftest", "fixtures", "leak.rs")
    out = os.path.join(F.CACHE, "fixture-%s.json" % uuid.uuid4().hex[:8])
    tmp = tempfile.mkdtemp(prefix="fcgi-fix.")
    env = dict(os.environ, FCGI_FACTS_OUT=out, FCGI_FACTS_CRATE="leakfixture",
               LD_LIBRARY_PATH=os.path.join(F._sysroot(), "lib"))
    r = subprocess.run([F.DRIVER, "rustc", "--crate-name", "leakfixture", "--crate-type", "lib", "--edition", "2021",
                        "--emit", "metadata", "--out-dir", tmp, "-Zmir-opt-level=0", "-Awarnings", src],
                       env=env, capture_output=True, text=True)
    try:
        if r.returncode != 0 or not os.path.exists(out):
            rep.undecidable("R13.3", "fixture", "positive fixture could not be analysed: " + r.stderr[-300:])
            return
        doc = json.load(open(out))
        fx = F.Facts(doc)
        n = len(leak_sites(fx))
        if n >= 2:
            rep.ok("R13.3", "fixture-fires", "matcher reports %d leak sites on the positive fixture" % n)
        else:
            rep.undecidable("R13.3", "fixture", "matcher found %d leak sites on the positive fixture (expected 2)" % n)
    finally:
        import shutil
        shutil.rmtree(tmp, ignore_errors=True)
        if os.path.exists(out):
            os.unlink(out)


def run_whole_token(rep, facts):
    """R13.4: the token is never taken apart.  The slot (`_sg`) is released by dropping the Token; a function that moves single
    fields out of a Token (e.g. a non-async `run` whose `async move` block captures only the fields it names) drops the rest --
    the permit -- when that function returns, while the connection it was issued for is still being served."""
    rep.rule("R13.4", "no field is moved out of a Token anywhere in the crate (a Token changes hands whole): the permit lives exactly as long as the "
                      "value that was handed to the connection task")

    def ops_of(x, out):
        if isinstance(x, dict):
            if isinstance(x.get("move"), dict):
                out.append(x["move"])
            for v in x.values():
                ops_of(v, out)
        elif isinstance(x, list):
            for v in x:
                ops_of(v, out)
    n_bodies = 0
    bad = {}
    for b in facts.bodies:
        touches = False
        for bi, blk in enumerate(b.blocks):
            out = []
            ops_of(blk["st"], out)
            ops_of(blk["t"], out)
            for p in out:
                for el in p.get("p", []):
                    if F.norm(el.get("of", "")) == TOKEN and "f" in el:
                        bad.setdefault(b.npath, []).append((el.get("n", el["f"]), blk["t"].get("sp") or {}))
        if any(F.norm((l.get("ty") or {}).get("adt", "") if isinstance(l.get("ty"), dict) else "") == TOKEN for l in b.locals):
            n_bodies += 1
    for npath, items in sorted(bad.items()):
        if "_sg" in {str(i[0]) for i in items}:
            continue        # the permit itself changes hands: R13.3 follows it
        rep.violation("R13.4", "token-taken-apart[%s]" % npath, "field(s) %s are moved out of a Token: the remaining fields (the permit among them) are dropped "
                      "when this function returns, not when the connection ends" % sorted({str(i[0]) for i in items}),
                      "%s:%s" % (items[0][1].get("f"), items[0][1].get("l")) if items[0][1] else None)
    if not any("_sg" not in {str(i[0]) for i in items} for items in bad.values()):
        rep.ok("R13.4", "token-whole", "no partial move out of a Token in %d bodies that handle one" % n_bodies)
    rep.floor("R13.4", "bodies with a Token-typed local", n_bodies, 2)


def _ty_may_hold(ty):
    """Can a value of this type own a Token?  (the Token itself, an aggregate naming it, or a future / trait object that hides its captures)"""
    if not isinstance(ty, dict):
        return False
    s = ty.get("s", "")
    if s.startswith("&") or s.startswith("*"):
        return False
    return TOKEN in [F.norm(a) for a in ty.get("adts", [])] or bool(ty.get("co")) or "dyn " in s or "impl " in s


def run_token_outlives_suspensions(rep, facts):
    """R13.5: a connection task holds its slot at every point where it can be suspended.  In every body that owns a Token by value on entry
    (Token::run's coroutine and whatever the token is handed on to) a forward ownership dataflow follows the token through moves (into
    locals, aggregates, futures returned by calls that take it) and ends it at a drop of its current holder or a call that consumes it;
    no `yield` (await) may be reachable after that: the `Token::run` future would be unfinished -- its connection still open -- while its
    slot is already free for the next `get_token`."""
    rep.rule("R13.5", "in every async body that owns a Token on entry, the token (or a value it was moved into) is still owned at every suspension point: "
                      "no await is reachable after the token's holder was dropped or consumed")
    n_bodies = n_yields = 0
    for b in facts.bodies:
        if b.promoted:
            continue
        # holders at entry: by-value Token parameters, or Token-typed fields of the coroutine environment (_1.f)
        entry = set()
        for li in range(1, b.argc + 1):
            ty = b.locals[li].get("ty")
            if isinstance(ty, dict) and F.norm(ty.get("s", "")) == TOKEN:
                entry.add(("l", li))

        def tok_env(op):
            m = op.get("move") if isinstance(op, dict) else None
            if isinstance(m, dict) and m.get("l") == 1 and len(m.get("p", [])) == 1 and F.norm(str(m["p"][0].get("ty", ""))) == TOKEN:
                return ("env", m["p"][0].get("f"))
            return None

        def ops_in(x, out):
            if isinstance(x, dict):
                if "move" in x and isinstance(x["move"], dict):
                    out.append(x)
                for v in x.values():
                    ops_in(v, out)
            elif isinstance(x, list):
                for v in x:
                    ops_in(v, out)
        for blk in b.blocks:
            for st in blk["st"]:
                out = []
                ops_in(st, out)
                for o in out:
                    e = tok_env(o)
                    if e:
                        entry.add(e)
        if not entry:
            continue
        yields = [bi for bi, blk in enumerate(b.blocks) if blk["t"]["k"] == "yield"]
        n_bodies += 1
        n_yields += len(yields)

        def key(op):
            """holder key moved by this operand (whole local, or the environment's token field), else None"""
            m = op.get("move") if isinstance(op, dict) else None
            if not isinstance(m, dict):
                return None
            if not m.get("p"):
                return ("l", m["l"])
            return tok_env(op)

        # flow-insensitive: which locals can ever hold the token
        holders = set(entry)
        changed = True
        while changed:
            changed = False
            for blk in b.blocks:
                for st in blk["st"]:
                    if st.get("k") != "assign":
                        continue
                    out = []
                    ops_in(st.get("rv"), out)
                    if any(key(o) in holders for o in out):
                        d = ("l", st["place"]["l"])
                        if d not in holders:
                            holders.add(d)
                            changed = True
                t = blk["t"]
                if t["k"] == "call" and any(key(a) in holders for a in t.get("args", [])):
                    d = t.get("dest")
                    if d is not None and _ty_may_hold(b.locals[d["l"]].get("ty")):
                        if ("l", d["l"]) not in holders:
                            holders.add(("l", d["l"]))
                            changed = True

        def succ(t):
            k = t["k"]
            if k in ("goto", "drop", "assert", "yield", "false_edge", "false_unwind"):
                return [t["target"]] if t.get("target") is not None else []
            if k == "call":
                return [t["target"]] if t.get("target") is not None else []
            if k == "switch":
                return [x[1] for x in t["targets"]] + ([t["otherwise"]] if t.get("otherwise") is not None else [])
            return [t["target"]] if isinstance(t.get("target"), int) else []

        # forward dataflow: (maybe-owned holders, token gone on some path, where it went)
        IN = {0: (frozenset(entry), None)}
        work = [0]
        bad = {}
        while work:
            bi = work.pop()
            live, gone = IN[bi]
            live = set(live)
            blk = b.blocks[bi]

            def kill(k, why, sp):
                nonlocal gone
                if k in live:
                    live.discard(k)
                    if not live and gone is None:
                        gone = (why, "%s:%s" % ((sp or {}).get("f"), (sp or {}).get("l")))
            for st in blk["st"]:
                if st.get("k") != "assign":
                    continue
                out = []
                ops_in(st.get("rv"), out)
                moved = [key(o) for o in out if key(o) in live]
                d = ("l", st["place"]["l"])
                if moved and d in holders and not st["place"].get("p"):
                    for k in moved:
                        live.discard(k)
                    live.add(d)
                elif moved:
                    # stored into a field of something: the base local owns it from here on
                    for k in moved:
                        live.discard(k)
                    live.add(d)
                    holders.add(d)
            t = blk["t"]
            if t["k"] == "yield" and gone is not None:
                bad[bi] = gone
            if t["k"] == "drop" and not t["place"].get("p"):
                kill(("l", t["place"]["l"]), "its holder %s is dropped" % b.local_name(t["place"]["l"]) if hasattr(b, "local_name") else "its holder _%d is dropped" % t["place"]["l"], t.get("sp"))
            if t["k"] == "call":
                moved = [key(a) for a in t.get("args", []) if key(a) in live]
                if moved:
                    d = t.get("dest")
                    if d is not None and ("l", d["l"]) in holders:
                        for k in moved:
                            live.discard(k)
                        live.add(("l", d["l"]))
                    else:
                        fn = F.norm((t.get("func") or {}).get("path", "?"))
                        for k in moved:
                            kill(k, "it is consumed by %s" % fn, t.get("sp"))
            for s_ in succ(t):
                new = (frozenset(live), gone)
                old = IN.get(s_)
                if old is None:
                    IN[s_] = new
                    work.append(s_)
                else:
                    m = (old[0] | new[0], old[1] or new[1])
                    if m != old:
                        IN[s_] = m
                        work.append(s_)
        short = b.npath
        if bad:
            bi = sorted(bad)[0]
            sp = b.blocks[bi]["t"].get("sp") or {}
            rep.violation("R13.5", "token-outlives-awaits[%s]" % short, "the connection task can be suspended at %d await(s) (first: %s:%s) after its Token is gone: %s at %s -- "
                          "the slot is free for another get_token while this connection is still open" % (len(bad), sp.get("f"), sp.get("l"), bad[bi][0], bad[bi][1]), b.loc())
        else:
            rep.ok("R13.5", "token-outlives-awaits[%s]" % short, "the Token (holders: %d) is owned at each of the %d suspension points" % (len(holders), len(yields)), b.loc())
    rep.floor("R13.5", "async bodies owning a Token", n_bodies, 1)
    rep.floor("R13.5", "suspension points in them", n_yields, 2)


def main(rep, tier):
    import check
    f = F.load(("async", "http"))
    rep.configs.append({"features": "async,http", "profile": "debug", "bodies": len(f.bodies)})
    check.guard(rep, "R13", run, f)
    check.guard(rep, "R13.3", selfcheck_fixture)
    check.guard(rep, "R13.4", run_whole_token, f)
    check.guard(rep, "R13.5", run_token_outlives_suspensions, f)
    import check as _c
    _c.witnesses(rep, "C13", f)
    return rep.finish(
        "Construction-site, provenance and who-may-call rules: every Token owns a permit of the single semaphore sized max_conns, "
        "shared by all clones of the runner; nothing can leak or duplicate a permit. Given a semaphore that never hands out more than "
        "its permits, #tokens <= #permits <= max_conns; a Token is never taken apart, so the permit lives as long as the value handed to the connection task, and that value is still owned at every suspension point of Token::run (R13.5).",
        not_decided="sentences 2-3 of the statement (immediate completion when a slot is free, wake-up of waiters on release, cancellation) are behaviour of the async-lock dependency and are not decided")
