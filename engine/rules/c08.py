"""C08 — the server never waits for client input while it owes a reply (rule R8.1, R8.2)."""
import events as E
import ir
from . import common

ENTRIES_RUN = ["async_io::Token::run::{closure#0}"]
# entry points the handler may call while it runs; initial state unknown
ENTRIES_HANDLER = [
    "<async_io::Request as futures_util::AsyncRead>::poll_read",
    "<async_io::Request as futures_util::AsyncBufRead>::poll_fill_buf",
    "async_io::Request::writeable::{closure#0}",
]
ALL = frozenset(["P", "Freq", "Fstr"])


def make_effect(g, ev):
    def effect(n, m, lab):
        gens, kills = set(), set()
        e = ev.at(n)
        if e is not None:
            k = e[0]
            if k == 'PARSE':
                gens.add("P")
                kills.add("Freq" if e[1] == 'req' else "Fstr")
            elif k == 'HANDOFF':
                if e[1] in (E.REQ_NEW,):
                    gens.update(["P", "Freq"])
                elif e[1] in (E.STR_NEW,):
                    gens.update(["P", "Fstr"])
                elif e[1] in (E.INTO_STREAM, E.INTO_REQ):
                    kills.add("P")
                    gens.update(["Freq", "Fstr"])
            elif k == 'HANDLER':
                kills.update(["P", "Fstr"])
        if n.term["k"] == "switch":
            pss = ev.poll_switches(n) if lab == ('case', 0) else []
            for (pe, _) in pss:
                if pe is None:
                    continue
                # Ready edge of a transport poll
                if pe[0] == 'READ':
                    kills.add("P")
                elif pe[0] == 'WRITE' and pe[1] == 'await_all' and pe[2] is not None and len(pss) == 1:
                    c = E.subject_class(pe[2])
                    if c == 'req_out':
                        gens.add("Freq")
                    elif c == 'str_out':
                        gens.add("Fstr")
            r = ev.emptiness_edges(n)
            if r is not None and r[0] in ('req_out', 'str_out'):
                v = ev.edge_value(lab, r[2], r[3])
                if v == 'empty':
                    gens.add("Freq" if r[0] == 'req_out' else "Fstr")
        return gens, kills
    return effect


def check_entry(rep, facts, entry, init, label):
    g, ev = common.build(facts, entry)
    effect = make_effect(g, ev)
    ins = common.must_dataflow(g, init, effect)
    reads = 0
    handoffs = 0
    # every transport read must have its Poll result consumed by a recognised switch (else the
    # 'new input arrived' effect would be lost): fail closed otherwise
    consumed = set()
    for n in g.all_nodes():
        if n.term["k"] == "switch":
            for (pe, cn) in ev.poll_switches(n):
                if pe is not None and pe[0] == 'READ':
                    consumed.add((cn.frame.id, cn.bb))
    for n in g.all_nodes():
        e = ev.at(n)
        if e is not None and e[0] == 'READ' and (n.frame.id, n.bb) not in consumed:
            rep.undecidable("R8.1", "%s/%s/read-result" % (label, common.fn_of(n)),
                            "result of a transport read is not matched on Ready/Pending right away", n.loc())
    for n in g.all_nodes():
        e = ev.at(n)
        if e is None or n.key not in ins:
            continue
        st = ins[n.key]
        if e[0] == 'READ':
            reads += 1
            missing = sorted(ALL - st)
            fn = common.fn_of(n)
            if missing:
                what = {"P": "buffered input not parsed", "Freq": "request-parser replies not flushed",
                        "Fstr": "stream-parser replies not flushed"}
                path = common.witness(g, init, effect, n, missing[0])
                rep.violation("R8.1", "%s/%s/wait-input[%s]" % (label, fn, ",".join(missing)),
                              "input wait reachable with " + "; ".join(what[m] for m in missing),
                              n.loc(), common.describe_path(g, ev, path))
            else:
                rep.ok("R8.1", "%s/%s/wait-input@%s" % (label, fn, e[1]),
                       "P, F_req, F_stream hold on every path to this transport read", n.loc())
        elif e[0] == 'HANDOFF' and e[1] in (E.INTO_STREAM, E.INTO_REQ):
            handoffs += 1
            need = "Freq" if e[1] == E.INTO_STREAM else "Fstr"
            fn = common.fn_of(n)
            if need not in st:
                path = common.witness(g, init, effect, n, need)
                rep.violation("R8.2", "%s/%s/handoff[%s]" % (label, fn, e[1].split("::")[-1]),
                              "parser converted while its reply buffer may be non-empty (replies lost or assertion)",
                              n.loc(), common.describe_path(g, ev, path))
            else:
                rep.ok("R8.2", "%s/%s/handoff[%s]" % (label, fn, e[1].split("::")[-1]),
                       "reply buffer flushed on every path to the conversion", n.loc())
    rep.stats.setdefault("graphs", {})[label] = g.stats()
    return reads, handoffs


def run(rep, facts):
    rep.rule("R8.1", "at every transport read (poll_read on the reader type parameter, or await of AsyncReadExt::read): "
                     "P (every buffered complete record parsed) and F_req, F_stream (parser reply buffers handed to the transport) hold on all paths")
    rep.rule("R8.4", "a stream switch (set_stream, also issued by close() and writeable()) demotes only the delivering state: a management body in flight keeps its state and its reply stays owed (R4.5)")
    rep.rule("R8.3", "both parsers' parse() drive their state machine / processing loop on every successful return (necessary condition of the assumption that parse() consumes what is buffered)")
    rep.rule("R8.2", "at into_stream_parser / into_request_parser the converted parser's reply buffer is flushed on all paths")
    rep.assume("a parser's parse() processes every complete buffered record unless it returns stream data, end-of-stream or an error")
    rep.assume("while the handler runs it may call any public Request API; those APIs are analysed as entry points with unknown initial facts")
    total_reads = 0
    total_handoffs = 0
    r, h = check_entry(rep, facts, ENTRIES_RUN[0], ALL, "run")
    total_reads += r
    total_handoffs += h
    for e in ENTRIES_HANDLER:
        r, h = check_entry(rep, facts, e, frozenset(["Freq"]), e.split("::")[-1].replace("{closure#0}", "").strip(":") or e)
        total_reads += r
    # R8.3: the structural part of the assumption "parse() processes what is buffered": both public parse functions
    # drive their state machine / processing loop on every successful return (no early-out on new_input == 0 etc.)
    import check as _check
    from . import c03
    sr = _check.Report("tmp", "quick")
    c03.run(sr, facts)
    for i in sr.instances:
        if i["instance"] in ("parse/clear-then-drive", "parse/drives-state-machine", "stream-parse/always-processes"):
            (rep.ok if i["status"] == "ok" else rep.violation)("R8.3", i["instance"], i["detail"], i["loc"])
    # R8.4: a reply that is owed is not silently cancelled: switching the active stream (close() does it for every request)
    # leaves a partially received GetValues body alone (C04 R4.5), so its reply is still produced
    from . import c04
    sr4 = _check.Report("tmp", "quick")
    c04.r4_5_state_writers(sr4, facts)
    for i in sr4.instances:
        (rep.ok if i["status"] == "ok" else rep.violation)("R8.4", i["instance"], i["detail"], i["loc"])
    # counted on the pinned tree: run reaches 4 transport reads (preamble, 2x poll_input via writeable/close, record_boundary);
    # each handler entry reaches 1
    rep.floor("R8.1", "transport reads reachable from the entry points", total_reads, 6)
    rep.floor("R8.2", "parser conversions reachable from run", total_handoffs, 2)


def main(rep, tier):
    import check
    import facts as F
    f = F.load(("async", "http"))
    rep.configs.append({"features": "async,http", "profile": "debug", "bodies": len(f.bodies)})
    check.guard(rep, "R8", run, f)
    return rep.finish(
        "Must-dataflow over the interprocedural event graph of Token::run and of every Request API the handler can call: "
        "at each transport read the facts 'buffered input parsed' and 'parser reply buffers flushed' must hold on all paths.",
        not_decided="nothing beyond the listed abstraction assumptions")
