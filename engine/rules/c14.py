"""C14 — graceful shutdown (R14.1–R14.4)."""
import facts as F
import ir
import ieg
import events as E
from . import common

RUN = "async_io::Token::run::{closure#0}"
WAKE = "futures_util::task::AtomicWaker::wake"
REGISTER = "futures_util::task::AtomicWaker::register"
UPGRADE = "std::sync::Weak::upgrade"


def wait_future_polls(facts):
    """Future impls of the crate whose poll upgrades a Weak: the shutdown waiter."""
    out = []
    for b in facts.bodies:
        if b.raw.get("impl_trait") and F.norm(b.raw["impl_trait"]).endswith("Future") and b.npath.endswith("::poll"):
            if any(t["k"] == "call" and F.norm(t["func"].get("path", "")) == UPGRADE for t in (blk["t"] for blk in b.blocks)):
                out.append(b)
    return out


def run(rep, facts):
    rep.rule("R14.1", "the value shared by task tokens (the pointee of the shutdown future's Weak) has a Drop impl that calls AtomicWaker::wake on its waker field on every path, unconditionally")
    rep.rule("R14.2", "the shutdown future's poll: upgrade()==None => Ready; on Some: AtomicWaker::register(cx.waker()) happens before the upgraded Arc can be dropped, on every path, and the result is Pending")
    rep.rule("R14.3", "shutdown(self): notify(usize::MAX) on the stop event happens on every path before the wait future is returned; that conversion only downgrades (the runner's own strong reference is released)")
    rep.rule("R14.5", "in run(): every path from a suspension of the connection task (or its start) to a handler invocation polls the stop listener first (select(stop, ..) with the listener as first component), so no handler begins in a scheduling step that started after shutdown() was called")
    rep.rule("R14.4", "in run(): the only cancellable region is select(stop listener, preamble coroutine) with the stop listener first; the handler and every event of close() lie outside it; the stop arm returns with no further I/O event")

    # ---- R14.2 (and discovery of the shared type) --------------------------------------------------------
    polls = wait_future_polls(facts)
    if len(polls) != 1:
        rep.undecidable("R14.2", "shutdown-future", "%d Future impls upgrade a Weak; expected exactly one" % len(polls))
        return
    pb = polls[0]
    g = ieg.IEG(facts, pb, inline_filter=lambda b: False)
    ev = E.Events(g)
    shared = None
    up_nodes = [n for n in g.all_nodes() if g.callee(n) == UPGRADE]
    for n in up_nodes:
        ty = n.body.locals[n.term["dest"]["l"]]["ty"]
        for a in ty.get("adts", []):
            if a.startswith("async_io::"):
                shared = F.norm(a)
    if shared is None:
        rep.undecidable("R14.2", "shared-type", "cannot determine the type behind the Weak")
        return
    rep.ok("R14.2", "shared-type", "the shutdown future holds Weak<%s>" % shared, pb.loc())

    def moved_out(n):
        """locals whose Option payload is moved out by a statement of this block (`x = move (_l as Some).0`):
        a later drop of `_l` drops an empty shell, not the Arc"""
        out = set()
        for st_ in n.stmts:
            if st_["k"] == "assign" and st_["rv"]["k"] == "use" and "move" in st_["rv"]["op"]:
                pl = st_["rv"]["op"]["move"]
                pr = pl.get("p", [])
                if len(pr) == 2 and "variant" in pr[0] and pr[1].get("f") == 0:
                    out.add("MOVED:%d" % pl["l"])
        return out

    def effect(n, m, lab):
        gens, kills = set(), set()
        gens |= moved_out(n)
        nm = g.callee(n) if n.term["k"] == "call" else None
        if nm == REGISTER:
            a0 = ir.peel(g.arg(n, 0))
            a1 = ir.peel(g.arg(n, 1))
            from_upgrade = any(x[0] == 'call' and x[1] == UPGRADE for x in ir.walk(a0)) and a0[0] == 'field'
            from_cx = a1[0] == 'call' and a1[1] == "std::task::Context::waker"
            if from_upgrade and from_cx:
                gens.add("REG")
        if nm == UPGRADE:
            kills.add("REG")
        # knowledge about the Option returned by upgrade
        if n.term["k"] == "switch":
            de = ev.switch_expr(n)
            if de is not None and de[0] == 'discr' and ir.peel(de[1])[0] == 'call' and ir.peel(de[1])[1] == UPGRADE:
                if lab == ('case', 1) or (isinstance(lab, tuple) and lab[0] == 'otherwise' and 0 in lab[1] and 1 not in lab[1]):
                    gens.add("SOME")
                elif lab == ('case', 0) or (isinstance(lab, tuple) and lab[0] == 'otherwise' and 1 in lab[1] and 0 not in lab[1]):
                    gens.add("NONE")
        return gens, kills
    must = common.must_dataflow(g, frozenset(), effect)
    ndrops = 0
    for n in g.all_nodes():
        if n.key not in must:
            continue
        st = must[n.key]
        t = n.term
        if t["k"] == "drop" and shared in [F.norm(a) for a in t["ty"].get("adts", [])] and "std::sync::Arc" in t["ty"].get("adts", []):
            if "NONE" in st:
                continue
            dl = t.get("place", {}).get("l")
            if dl is not None and "p" not in t.get("place", {}) and ("MOVED:%d" % dl) in (set(st) | moved_out(n)):
                continue        # the Arc was moved out of this Option before; nothing is released here
            ndrops += 1
            if "REG" not in st:
                rep.violation("R14.2", "register-before-drop", "the upgraded Arc can be dropped before the waker is registered (a final token drop in between would wake nobody)", n.loc())
            else:
                rep.ok("R14.2", "register-before-drop", "AtomicWaker::register(cx.waker()) precedes this drop of the upgraded Arc on every path", n.loc())
        if t["k"] == "return":
            sh = g._known(n.tag).get(0)
            if "SOME" in st:
                if sh is None or sh[0] != 1 or "REG" not in st:
                    rep.violation("R14.2", "some-returns-pending", "with live tokens poll must register the waker and return Pending", n.loc())
                else:
                    rep.ok("R14.2", "some-returns-pending", "Some(_) => waker registered, Pending returned", n.loc())
            elif "NONE" in st:
                if sh is None or sh[0] != 0:
                    rep.violation("R14.2", "none-returns-ready", "with no live token poll must return Ready", n.loc())
                else:
                    rep.ok("R14.2", "none-returns-ready", "None => Ready", n.loc())
            elif sh is not None and sh[0] == 1 and "REG" not in st:
                # a way out of poll that neither saw the upgrade fail nor registered *this* call's waker (e.g. a cached "already registered"
                # flag): the task polling now -- possibly another one than last time -- is never woken for the completion
                rep.violation("R14.2", "pending-registers-waker", "poll returns Pending on a path that does not register the waker of the current call "
                              "(a waiter that took the future over from another task is never woken)", n.loc())
    rep.floor("R14.2", "drops of the upgraded Arc on the Some path", ndrops, 1)

    # ---- R14.1 -------------------------------------------------------------------------------------------
    drops = [b for b in facts.bodies if b.raw.get("impl_trait") and F.norm(b.raw["impl_trait"]) == "std::ops::Drop"
             and F.norm(b.raw.get("impl_self", {}).get("s", "")) == shared and b.npath.endswith("::drop")]
    if len(drops) != 1:
        rep.violation("R14.1", "drop-impl[%s]" % shared, "%s has %d Drop impls; the last owner's drop must wake the shutdown waiter" % (shared, len(drops)))
    else:
        db = drops[0]
        gd = ieg.IEG(facts, db, inline_filter=lambda b: False)

        def eff(n, m, lab):
            gens = set()
            if n.term["k"] == "call" and gd.callee(n) == WAKE:
                a0 = ir.peel(gd.arg(n, 0))
                if a0[0] == 'field' and ir.peel(a0[1])[0] == 'param':
                    gens.add("WOKE")
            return gens, set()
        md = common.must_dataflow(gd, frozenset(), eff)
        rets = [n for n in gd.all_nodes() if n.term["k"] == "return"]
        if rets and all("WOKE" in md.get(n.key, frozenset()) for n in rets):
            rep.ok("R14.1", "drop-wakes[%s]" % shared, "Drop calls AtomicWaker::wake(&self.<waker field>) on every path", db.loc())
        else:
            rep.violation("R14.1", "drop-wakes[%s]" % shared, "Drop for %s does not wake the registered task on every path" % shared, db.loc())
    # the waker field that is woken is the one that is registered
    reg_fields = set()
    wake_fields = set()
    for (b, bi, t, name) in F.calls_to(facts, lambda n: n in (REGISTER, WAKE)):
        r = ir.Resolver(b)
        a0 = ir.peel(r.operand(t["args"][0], (bi, -1)))
        if a0[0] == 'field':
            (reg_fields if name == REGISTER else wake_fields).add(a0[2])
    if reg_fields and reg_fields == wake_fields:
        rep.ok("R14.1", "same-waker-field", "register and wake use the same field %s" % sorted(reg_fields))
    else:
        rep.violation("R14.1", "same-waker-field", "registered waker field(s) %s differ from woken field(s) %s" % (sorted(reg_fields), sorted(wake_fields)))

    # ---- R14.3 -------------------------------------------------------------------------------------------
    sb = facts.body("async_io::Runner::shutdown")
    gs = ieg.IEG(facts, sb, inline_filter=lambda b: False)

    def eff3(n, m, lab):
        gens = set()
        if n.term["k"] == "call":
            nm = gs.callee(n)
            if nm == "event_listener::Event::notify":
                a0 = ir.peel(gs.arg(n, 0))
                a1 = gs.arg(n, 1)
                if a0[0] == 'field' and a0[2] == 'stop' and ir.const_value(a1) == (1 << 64) - 1:
                    gens.add("NOTIFIED")
        return gens, set()
    m3 = common.must_dataflow(gs, frozenset(), eff3)
    # the conversion of the wait group into the future that is handed out: IntoFuture::into_future, or a by-value method of the
    # group introduced later that does the same (it is then held to the same obligations below)
    conv = [n for n in gs.all_nodes() if n.term["k"] == "call" and not n.noise() and (
        (gs.callee(n) or "").endswith("IntoFuture>::into_future") or
        (facts.is_new_helper(gs.callee(n) or "") and facts.fns.get(gs.callee(n), {}).get("sig", "").startswith("fn(async_io::util::WaitGroup)")))]
    if len(conv) != 1:
        rep.undecidable("R14.3", "shutdown-conversion", "%d IntoFuture conversions in shutdown" % len(conv), sb.loc())
    for n in conv:
        a0 = ir.peel(gs.arg(n, 0))
        rets = [r for r in gs.all_nodes() if r.term["k"] == "return"]
        if not rets or not all("NOTIFIED" in m3.get(r.key, frozenset()) for r in rets):
            rep.violation("R14.3", "notify-before-wait", "shutdown can hand out the wait future without having notified every stop listener with usize::MAX", n.loc())
        elif not (a0[0] == 'field' and a0[2] == 'wg'):
            rep.violation("R14.3", "wait-on-own-group", "shutdown waits on %s, not on the runner's wait group" % ir.show(a0)[:80], n.loc())
        else:
            rep.ok("R14.3", "notify-before-wait", "notify(usize::MAX) on self.stop happens on every path before shutdown returns into_future(self.wg)", n.loc())
        cb = facts.body(gs.callee(n), required=False)
        if cb is None:
            rep.undecidable("R14.3", "conversion-body", "no body for %s" % gs.callee(n), n.loc())
        else:
            downs = [t for blk in cb.blocks for t in [blk["t"]] if t["k"] == "call" and F.norm(t["func"].get("path", "")) == "std::sync::Arc::downgrade"]
            sig = facts.fns.get(cb.npath, {}).get("sig", "")
            if len(downs) == 1 and sig.startswith("fn(async_io::util::WaitGroup)"):
                rep.ok("R14.3", "conversion-releases-strong-ref", "into_future(self) takes the group by value and only keeps Arc::downgrade(..)", cb.loc())
            else:
                rep.violation("R14.3", "conversion-releases-strong-ref", "the wait-group conversion keeps a strong reference or does not consume the group (sig %s)" % sig, cb.loc())
    sig = facts.fns.get("async_io::Runner::shutdown", {}).get("sig", "")
    if sig.startswith("fn(async_io::Runner)"):
        rep.ok("R14.3", "shutdown-consumes-runner", "signature %s" % sig, sb.loc())
    else:
        rep.violation("R14.3", "shutdown-consumes-runner", "shutdown does not take the runner by value (%s): tokens could be requested after shutdown" % sig, sb.loc())

    # ---- R14.4 -------------------------------------------------------------------------------------------
    gr, evr = common.build(facts, RUN)
    sel_frames = [f for f in gr.frames if f.kind == 'select']

    def stop_first(fe):
        """Is the awaited future select(<the token's stop listener>, ..)?"""
        sel = [x for x in ir.walk(fe) if x[0] == 'call' and x[1] == "futures_util::future::select"]
        if not sel:
            return False
        a0 = ir.peel(sel[0][2][0])
        return a0[0] == 'field' and a0[2] == 'stop_fut'
    # selects over an external future (e.g. select(stop, transport.read(..))): no component to inline
    ext_sel = []
    for n in gr.all_nodes():
        if ieg.is_await_poll(n.term) and not n.noise():
            aw = gr.awaited(n) or {}
            if aw.get("s", "").startswith("futures_util::future::Select<") and not gr.coroutine_of(aw):
                ext_sel.append(n)
    stop_frames = {f.id for f in sel_frames if stop_first(f.future_expr)}
    stop_awaits = set()
    for f in sel_frames:
        if f.id in stop_frames:
            stop_awaits.add((f.parent.id, f.site))
    for n in ext_sel:
        if stop_first(gr.resolve(n.frame, n.term["args"][0], (n.bb, -1))):
            stop_awaits.add((n.frame.id, n.bb))

    # ---- R14.5: a handler invocation never begins in a scheduling step that did not poll the stop listener first ----
    def eff5(n, m, lab):
        gens, kills = set(), set()
        if n.term["k"] == "yield":
            fs = n.frame.in_select()
            if fs is not None and fs.id in stop_frames:
                gens.add("STOP_POLLED")     # the select polls the stop listener before resuming its component
            else:
                kills.add("STOP_POLLED")
        elif (n.frame.id, n.bb) in stop_awaits and ieg.is_await_poll(n.term):
            gens.add("STOP_POLLED")
        return gens, kills
    m5 = common.must_dataflow(gr, frozenset(), eff5)
    nh = 0
    for n in gr.all_nodes():
        e = evr.at(n)
        if e is None or e[0] != 'HANDLER' or e[1] != 'call' or n.key not in m5:
            continue
        nh += 1
        key = "run/%s/stop-polled-before-handler" % common.fn_of(n)
        if "STOP_POLLED" in m5[n.key]:
            rep.ok("R14.5", key, "on every path the stop listener was polled (and had not fired) after the task's last suspension before the handler is invoked", n.loc())
        else:
            w = common.witness(gr, frozenset(), eff5, n, "STOP_POLLED")
            rep.violation("R14.5", key, "a handler invocation is reachable in a scheduling step that never looked at the stop listener (e.g. a request already buffered when the previous one finished): a new request starts after shutdown() was called",
                          n.loc(), path=[x.loc() for x in w][:12] if w else None)
    rep.floor("R14.5", "handler invocation sites in run", nh, 1)

    if len(sel_frames) + len(ext_sel) != 1:
        rep.violation("R14.4", "run/select-count", "run has %d select regions, expected 1" % (len(sel_frames) + len(ext_sel)))
    for f in sel_frames:
        sn = gr.nodes[next(k for k in gr.succ if k[0] == f.parent.id and k[1] == f.site)]
        fe = f.future_expr
        sel = [x for x in ir.walk(fe) if x[0] == 'call' and x[1] == "futures_util::future::select"]
        if not sel:
            rep.undecidable("R14.4", "run/select-args", "cannot find the select call", sn.loc())
            continue
        a0 = ir.peel(sel[0][2][0])
        a1 = sel[0][2][1]
        pre = common.preamble_fns(facts)
        is_preamble = any((x[0] == 'call' and x[1] in pre) or
                          (x[0] == 'agg' and x[1] in ('coroutine', 'closure') and F.norm(str(x[2])).split("::{closure")[0] in pre) for x in ir.walk(a1))
        if a0[0] == 'field' and a0[2] == 'stop_fut' and is_preamble:
            rep.ok("R14.4", "run/select-args", "select(self.stop_fut, preamble) — the stop listener is polled first", sn.loc())
        else:
            rep.violation("R14.4", "run/select-args", "select arguments are (%s, %s); the stop listener must come first and the second must be the preamble phase" % (ir.show(a0)[:60], ir.show(a1)[:60]), sn.loc())
        if f.body.npath.split("::{closure")[0] not in pre:
            rep.violation("R14.4", "run/select-component", "the cancellable component is %s" % f.body.npath, sn.loc())
    bad = 0
    for n in gr.all_nodes():
        e = evr.at(n)
        insel = n.frame.in_select() is not None
        if e is not None and e[0] == 'HANDLER' and insel:
            bad += 1
            rep.violation("R14.4", "run/handler-cancellable", "the handler runs inside the cancellable region", n.loc())
        if insel and any(fr.body.npath.startswith("async_io::Request::close") for fr in n.frame.stack()):
            bad += 1
            rep.violation("R14.4", "run/close-cancellable", "close() runs inside the cancellable region", n.loc())
            break
    if not bad:
        rep.ok("R14.4", "run/handler-and-close-not-cancellable", "no HANDLER event and no node of close() lies inside the select region")
    # the stop arm: no I/O event until run returns
    ncancel = 0
    for k, ss in gr.succ.items():
        for (m, lab) in ss:
            if lab == 'cancel':
                ncancel += 1
                events, rets = common.frame_paths_to_return(gr, evr, m, lambda x: (evr.at(x) or ('',))[0] in ('READ', 'WRITE', 'PARSE', 'HANDLER', 'HANDOFF'))
                if events or not rets:
                    rep.violation("R14.4", "run/stop-arm-returns", "after the stop listener fired, an %s event is reachable before run returns" % (evr.at(events[0])[0] if events else "no-return"), m.loc())
    # select over an external future: the stop arm is the Either::Left edge of the match on its result
    for sn_ in ext_sel:
        for n in gr.all_nodes():
            if n.term["k"] != "switch" or n.noise():
                continue
            de = evr.switch_expr(n)
            if de is None or de[0] != 'discr' or not str(de[2] if len(de) > 2 else "").endswith("Either"):
                continue
            if not common.derives_from_site(de[1], sn_.frame.id, sn_.bb):
                continue
            for (m, lab) in gr.succ[n.key]:
                if lab == ('case', 0):
                    ncancel += 2    # counts like the two cancellation edges (initial poll, resumed poll) of an inlined component
                    events, rets = common.frame_paths_to_return(gr, evr, m, lambda x: (evr.at(x) or ('',))[0] in ('READ', 'WRITE', 'PARSE', 'HANDLER', 'HANDOFF'))
                    # the arm returns from the helper; what the caller does with that result is covered by R14.5 and R12.3
                    if events or not rets:
                        rep.violation("R14.4", "run/stop-arm-returns", "after the stop listener fired, an %s event is reachable before the operation returns" % (evr.at(events[0])[0] if events else "no-return"), m.loc())
    if ncancel:
        rep.ok("R14.4", "run/stop-arm-returns", "%d cancellation edges all lead to return with no further I/O event" % ncancel)
    rep.floor("R14.4", "cancellation edges", ncancel, 2)


def run_own_group(rep, facts):
    """R14.6: "the shutdown future completes after the last token of *that runner* has been dropped": every Runner value -- the one built by
    Config::async_runner and every clone -- owns a fresh wait group and a fresh stop event.  A clone that shares them makes one runner's
    shutdown wait for (and be woken through the single waker slot of) another runner's tokens."""
    rep.rule("R14.6", "every construction site of Runner (including Clone::clone and private constructors) installs WaitGroup::new() and Event::new(): "
                      "wait group and stop event are never shared between runners")
    sites = common.construction_sites(facts, "async_io::Runner")
    rep.floor("R14.6", "Runner construction sites", len(sites), 2)
    for (b, bi, fields, loc) in sites:
        for fname, ctor in (("wg", "async_io::util::WaitGroup::new"), ("stop", "event_listener::Event::new")):
            if fname not in fields:
                rep.undecidable("R14.6", "runner-%s[%s]" % (fname, b.npath), "Runner is built without a field `%s`" % fname, loc)
                continue
            e = ir.peel(fields[fname])
            fresh = e[0] == 'call' and (e[1] == ctor or e[1].endswith("::" + ctor.split("::")[-2] + "::new") or
                                        (e[1].endswith("Default>::default") and False))
            if fresh:
                rep.ok("R14.6", "runner-%s[%s]" % (fname, b.npath), "%s <- %s()" % (fname, ctor.split("::")[-2] + "::new"), loc)
            else:
                rep.violation("R14.6", "runner-%s[%s]" % (fname, b.npath), "Runner.%s is %s: not a fresh %s, so two runners would share it" % (fname, ir.show(e)[:60], ctor.split("::")[-2]), loc)


def main(rep, tier):
    import check
    f = F.load(("async", "http"))
    rep.configs.append({"features": "async,http", "profile": "debug", "bodies": len(f.bodies)})
    check.guard(rep, "R14", run, f)
    check.guard(rep, "R14.6", run_own_group, f)
    import check as _c
    _c.witnesses(rep, "C14", f)
    return rep.finish(
        "Obligations of the no-lost-wakeup argument (register before the temporary Arc dies, Drop wakes unconditionally, same waker field), "
        "shutdown ordering (notify all, then wait; runner consumed), and the cancellation structure of run() (only the preamble phase is "
        "cancellable, stop polled first, handler and close outside), every runner owning a fresh wait group and stop event. Hand argument in DESIGN.md §4 C14 connects them to the statement.",
        not_decided="scheduler-level liveness; linearizability of AtomicWaker / event-listener (trusted dependencies)")
