"""C15 — the variable-length integer codec (obligations O1–O6; the bijection follows by the hand proof in DESIGN.md)."""
import facts as F
import ir
import ieg
import paths
from .c17 import SPEC, variant_of, agg_field, cv, nonconst_conds

V = "protocol::varint::VarInt"
LONG = "protocol::varint::VarInt::LONG_BIT"
MAXC = "protocol::varint::VarInt::MAX"


def rows_of(facts, raw_path, inline=False):
    b = facts.by_path.get(raw_path)
    if b is None:
        raise F.MissingAnchor("no body " + raw_path)
    # private / small helpers of the varint module are looked through (e.g. an `encoded_len` helper)
    filt = (lambda x: x.npath.startswith("protocol::varint::VarInt::") and x.npath not in (V + "::read", V + "::write")) if inline else (lambda x: False)
    g = ieg.IEG(facts, b, inline_filter=filt)
    return b, paths.rows(g)


def is_selfish(e):
    e = ir.peel(e)
    if e[0] == 'field' and str(e[2]) == '0':
        e = ir.peel(e[1])
    return e[0] == 'param'


def long_bit_threshold(e):
    """LONG_BIT (by name, possibly widened) or a literal with its value."""
    e2 = ir.peel(e)
    while e2[0] == 'call' and ir.is_transparent(e2[1]) and e2[2]:
        e2 = ir.peel(e2[2][0])
    if e2[0] == 'constdef' and e2[1] == LONG:
        return True
    return False


UNWRAP = "protocol::varint::from"      # impl From<VarInt> for u32: checked below to return the wrapped integer unchanged


def is_const(e, name):
    e = ir.peel(e)
    while (e[0] == 'call' and (ir.is_transparent(e[1]) or e[1] == UNWRAP) and e[2]) or (e[0] == 'field' and str(e[2]) == '0'):
        e = ir.peel(e[2][0]) if e[0] == 'call' else ir.peel(e[1])     # `.0` of the newtype is the wrapped integer
    return e[0] == 'constdef' and e[1] == name


def mentions_const(e, name):
    return any(x[0] == 'constdef' and x[1] == name for x in ir.walk(e))


def run(rep, facts):
    rep.rule("O1", "VarInt::MAX == 2^31-1 (the long-form bit 0x80 is the specification's constant in the O4 tables, whatever the source calls it)")
    rep.rule("O2", "TryFrom<u32>: Err(InvalidVarInt) exactly on the true edge of v > MAX, else VarInt(v); TryFrom<usize> = u32::try_from then the same")
    rep.rule("O3", "VarInt(..) is constructed only at: const MAX, Default, From<u8>, From<u16>, the guarded TryFrom<u32>, and read() after clearing LONG_BIT")
    rep.rule("O4", "read and write implement the two forms on every path, decided cell by cell (E9): decoder in[0] & LONG_BIT == 0 => VarInt(in[0]) after 1 byte, "
                   "else VarInt(from_be_bytes[in[0] & !LONG_BIT, in[1..4]]) after 4; encoder self.0 < LONG_BIT => [self.0 as u8], else be(self.0) with LONG_BIT set in byte 0")
    rep.rule("O5", "read touches the reader only through read_exact (truncation => UnexpectedEof from read_exact), and reports an error only when a read failed")
    rep.rule("O6", "write returns Ok(n) only after every write_all succeeded, with n the number of bytes handed to write_all")

    # ---- O1 -------------------------------------------------------------------------------------------
    mx = facts.const_int(MAXC)
    # the private long-form constant, whatever it is called (informational: O4 compares the codec's byte terms with the specification's 0x80
    # directly, so a wrong constant -- or a wrong literal in its place -- shows there)
    priv = {k: int(c["v"]) for k, c in facts.consts.items()
            if k.startswith(V + "::") and k != MAXC and c.get("k") == "int" and c.get("ty", "u8") in ("u8", "u32", "usize")}
    lbs = [v for v in priv.values()]
    if mx != SPEC["varint"]["max"]:
        rep.violation("O1", "constants", "MAX = %d; specification: 2^31-1" % mx)
    else:
        rep.ok("O1", "constants", "MAX = 2^31-1, long-form bit %s" % (", ".join("%s = %#x" % (k.split("::")[-1], v) for k, v in sorted(priv.items())) or "spelled as a literal (decided in O4)"))

    # the unwrapping conversion the comparisons may go through is the identity on the wrapped integer
    for ub in facts.by_npath.get(UNWRAP, []):
        if F.norm(ub.raw.get("impl_trait", "") or "").endswith("From") and ub.argc == 1:
            ur = ir.Resolver(ub)
            rets = [ir.peel(ur.operand({"copy": {"l": 0}}, (bi, -1))) for bi, blk in enumerate(ub.blocks) if blk["t"]["k"] == "return"]
            if not (rets and all(x[0] == 'field' and str(x[2]) == '0' and ir.peel(x[1])[0] == 'param' for x in rets)):
                rep.violation("O2", "unwrap-identity", "From<VarInt> for u32 does not return the wrapped integer unchanged", ub.loc())

    # ---- O2 -------------------------------------------------------------------------------------------
    b, rows = rows_of(facts, "<protocol::varint::VarInt as std::convert::TryFrom<u32>>::try_from")
    tab = {}
    for r in rows:
        if r.end != 'return' or r.ret is None:
            continue
        cs = nonconst_conds(r)
        if len(cs) != 1:
            tab['?'] = 'unexpected conditions'
            continue
        e, lab = cs[0]
        pe = ir.peel(e)
        # which side of MAX the value is on along this path, however the comparison is spelled
        fact = ir.cmp_fact(e, lab)
        truth = None
        if fact is not None:
            a_, b_ = ir.peel(fact[1]), ir.peel(fact[2])
            if fact[0] == 'lt' and is_const(a_, MAXC) and b_[0] == 'param':
                truth = True        # MAX < v
            elif fact[0] == 'le' and a_[0] == 'param' and is_const(b_, MAXC):
                truth = False       # v <= MAX
        if truth is None:
            tab['?'] = ir.show(pe)
            continue
        res = variant_of(r.ret)
        inner = agg_field(r.ret, 0)
        if res == 'Err':
            tab[truth] = 'Err(%s)' % variant_of(inner)
        else:
            iv = ir.peel(agg_field(inner, 0)) if inner is not None else None
            tab[truth] = 'Ok(VarInt(v))' if iv is not None and iv[0] == 'param' else 'Ok(?)'
    if tab == {True: 'Err(InvalidVarInt)', False: 'Ok(VarInt(v))'}:
        rep.ok("O2", "try_from_u32", "v > MAX => Err(InvalidVarInt); otherwise Ok(VarInt(v))", b.loc())
    else:
        rep.violation("O2", "try_from_u32", "range check table is %s" % tab, b.loc())
    b, rows = rows_of(facts, "<protocol::varint::VarInt as std::convert::TryFrom<usize>>::try_from")
    ok = True
    seen = set()
    for r in rows:
        if r.end != 'return' or r.ret is None:
            continue
        ret = ir.peel(r.ret)
        if ret[0] == 'call' and ret[1] == "std::result::Result::and_then" and len(ret[2]) == 2:
            # u32::try_from(v).map_err(|_| InvalidVarInt).and_then(VarInt::try_from): both outcomes in one expression
            conv = [x for x in ir.walk(ret[2][0]) if x[0] == 'call' and ('try_from' in x[1] or 'TryFrom' in x[1])]
            fn_ = ir.peel(ret[2][1])
            me = [x for x in ir.walk(ret[2][0]) if x[0] == 'call' and x[1] == "std::result::Result::map_err"]
            cl_ok = False
            for m_ in me:
                for y in ir.walk(m_[2][1]):
                    if y[0] == 'agg' and y[1] == 'closure':
                        cb = facts.by_path.get(y[2])
                        if cb is not None:
                            cg = ieg.IEG(facts, cb, inline_filter=lambda x: False)
                            rs = [q for q in paths.rows(cg) if q.end == 'return' and q.ret is not None]
                            cl_ok = bool(rs) and all(variant_of(q.ret) == 'InvalidVarInt' for q in rs)
            # (the function item is TryFrom::try_from at u32 -> VarInt: the types leave only the guarded conversion)
            if conv and fn_[0] == 'fn' and (fn_[1].startswith("<protocol::varint::VarInt as std::convert::TryFrom") or fn_[1].endswith("TryFrom::try_from")) and cl_ok:
                seen.update(('delegate', 'err'))
            else:
                ok = False
        elif ret[0] == 'call' and ret[1].startswith("<protocol::varint::VarInt as std::convert::TryFrom"):
            a = ir.peel(ret[2][0])
            conv = [x for x in ir.walk(a) if x[0] == 'call' and 'try_from' in x[1] or x[0] == 'call' and 'TryFrom' in x[1]]
            if not conv:
                ok = False
            seen.add('delegate')
        elif variant_of(ret) == 'Err' and variant_of(agg_field(ret, 0)) == 'InvalidVarInt':
            seen.add('err')
        else:
            ok = False
    if ok and seen == {'delegate', 'err'}:
        rep.ok("O2", "try_from_usize", "u32::try_from(v): Ok => VarInt::try_from(u32), Err => Err(InvalidVarInt)", b.loc())
    else:
        rep.violation("O2", "try_from_usize", "usize conversion does not delegate to the guarded u32 conversion (%s)" % sorted(seen), b.loc())

    # ---- O3 -------------------------------------------------------------------------------------------
    allowed = {
        "<protocol::varint::VarInt as std::default::Default>::default",
        "protocol::varint::VarInt::MAX",
        "protocol::varint::VarInt::read",
        "<protocol::varint::VarInt as std::convert::From<u8>>::from",
        "<protocol::varint::VarInt as std::convert::From<u16>>::from",
        "<protocol::varint::VarInt as std::convert::TryFrom<u32>>::try_from",
    }
    sites = F.aggregates_of(facts, V)
    got = {bb.path for (bb, bi, si, st) in sites}
    extra = got - allowed
    if extra:
        for p in sorted(extra):
            rep.violation("O3", "construction-site[%s]" % p, "VarInt is constructed outside the range-preserving sites")
    else:
        rep.ok("O3", "construction-sites", "VarInt(..) constructed only in %s" % sorted(x.split("::")[-1] + "@" + x.split(" as ")[-1][:20] for x in got))
    for (bb, bi, si, st) in sites:
        if bb.path.endswith("From<u8>>::from") or bb.path.endswith("From<u16>>::from"):
            r = ir.Resolver(bb)
            e = ir.peel(r.operand(st["rv"]["ops"][0], (bi, si)))
            if e[0] != 'param':
                rep.violation("O3", "widening[%s]" % bb.path, "From<small int> stores %s" % ir.show(e), bb.loc())

    # ---- O4 / O5 / O6: the byte-level bodies, decided cell by cell (engine E9, cells.py) --------------------------
    run_codec(rep, facts)


def _sv(v):
    import cells
    if v[0] == 't':
        return cells.show(v[1])
    if v[0] == 'adt':
        return "%s(%s)" % (v[2], ", ".join(_sv(x) for k, x in v[3].items() if isinstance(k, int)))
    if v[0] == 'arr':
        return "[%s]" % ", ".join(cells.show(t) for t in v[1])
    return v[0]


def run_codec(rep, facts):
    import cells
    Cn = cells.C
    lb = SPEC["varint"]["long_bit"]
    in0 = ('in', 0)
    # ---- read ------------------------------------------------------------------------------------------------
    b = facts.body("protocol::varint::VarInt::read")
    ce = cells.Cells(facts, V)
    try:
        ends = ce.run(b, [('io', 'reader')])
    except cells.Unsupported as e:
        rep.undecidable("O4", "read/forms", "the decoder uses a construct the cell analysis does not cover: %s" % e, b.loc())
        ends = None
    if ends is not None:
        test = ('eq', cells.mk_and(in0, Cn(lb)), Cn(0))
        want = {
            True: (1, ('adt', V, 'VarInt', ('t', cells.mk_zext(in0)))),
            False: (4, ('adt', V, 'VarInt', ('t', ('frombe', (cells.mk_and(in0, Cn(~lb & 0xFF)), ('in', 1), ('in', 2), ('in', 3)))))),
        }
        seen = {}
        bad = []
        foreign = set()
        for e in ends:
            foreign |= {x[1] for x in e.io if x[0] == 'foreign'}
            if e.ret[0] != 'adt' or e.ret[2] not in ('Ok', 'Err'):
                bad.append("a path returns %s" % _sv(e.ret))
                continue
            if e.ret[2] == 'Err':
                if "read_exact fails" not in e.trace:
                    bad.append("an error is returned although every read_exact succeeded (conditions %s)" % [(c[0], cells.show(c[1]), c[3]) for c in e.conds])
                continue
            conds = set(e.conds)
            if len(conds) != 1 or next(iter(conds))[:3] != test:
                bad.append("the short/long decision is %s, expected the single test in[0] & LONG_BIT == 0" % [(c[0], cells.show(c[1]), cells.show(c[2]) if c[2] else None, c[3]) for c in e.conds])
                continue
            truth = next(iter(conds))[3]
            nin, val = want[truth]
            got = e.ret[3].get(0)
            gotn = ('adt', got[1], got[2], got[3].get(0)) if got is not None and got[0] == 'adt' else got
            form = "short" if truth else "long"
            if e.nin != nin:
                bad.append("the %s form consumes %d byte(s), expected %d" % (form, e.nin, nin))
            elif gotn != val:
                bad.append("the %s form yields %s, expected %s" % (form, _sv(got) if got else None, "VarInt(%s)" % cells.show(val[3][1])))
            else:
                seen[truth] = True
        if not bad and set(seen) != {True, False}:
            bad.append("only the %s form is implemented" % ("short" if True in seen else "long" if False in seen else "no"))
        if bad:
            rep.violation("O4", "read/forms", "; ".join(sorted(set(bad))), b.loc())
        else:
            rep.ok("O4", "read/forms", "on every path: in[0] & LONG_BIT == 0 => 1 byte read, VarInt(in[0]); otherwise 4 bytes read, "
                   "VarInt(from_be_bytes[in[0] & !LONG_BIT, in[1], in[2], in[3]]); Err only when read_exact failed (%d paths)" % len(ends), b.loc())
        if foreign:
            rep.violation("O5", "read/read_exact-only", "the reader is accessed through %s: a short read would be accepted silently" % sorted(foreign), b.loc())
        else:
            rep.ok("O5", "read/read_exact-only", "the reader is accessed only through read_exact (%s)" % sorted({tuple(n for (k, n) in e.io) for e in ends}), b.loc())

    # ---- write -----------------------------------------------------------------------------------------------
    b = facts.body("protocol::varint::VarInt::write")
    ce = cells.Cells(facts, V)
    v = ('v',)
    try:
        ends = ce.run(b, [('adt', V, 'VarInt', {0: ('t', v), '0': ('t', v)}), ('io', 'writer')])
    except cells.Unsupported as e:
        rep.undecidable("O4", "write/forms", "the encoder uses a construct the cell analysis does not cover: %s" % e, b.loc())
        return
    test = ('lt', v, Cn(lb))
    want = {
        True: [cells.mk_lo8(v)],
        False: [cells.mk_or(cells.mk_be(v, 0), Cn(lb)), cells.mk_be(v, 1), cells.mk_be(v, 2), cells.mk_be(v, 3)],
    }
    seen = {}
    bad = []
    bad6 = []
    foreign = set()
    for e in ends:
        foreign |= {x[1] for x in e.io if x[0] == 'foreign'}
        if e.ret[0] != 'adt' or e.ret[2] not in ('Ok', 'Err'):
            bad.append("a path returns %s" % _sv(e.ret))
            continue
        conds = set(e.conds)
        if e.ret[2] == 'Err':
            if "write_all fails" not in e.trace:
                bad6.append("an error is returned although every write_all succeeded")
            continue
        if "write_all fails" in e.trace:
            bad6.append("a byte count is reported although write_all failed")
            continue
        if len(conds) != 1 or next(iter(conds))[:3] != test:
            bad.append("the short/long decision is %s, expected the single test self.0 < LONG_BIT" % [(c[0], cells.show(c[1]), cells.show(c[2]) if c[2] else None, c[3]) for c in e.conds])
            continue
        truth = next(iter(conds))[3]
        form = "short" if truth else "long"
        if e.out != want[truth]:
            bad.append("the %s form writes [%s], expected [%s]" % (form, ", ".join(cells.show(t) for t in e.out), ", ".join(cells.show(t) for t in want[truth])))
        else:
            seen[truth] = True
        cnt = e.ret[3].get(0)
        if not (cnt is not None and cnt[0] == 't' and cnt[1] == Cn(len(e.out))):
            bad6.append("the %s form reports %s byte(s) after writing %d" % (form, _sv(cnt) if cnt else None, len(e.out)))
    if foreign:
        bad.append("the writer is accessed through %s" % sorted(foreign))
    if not bad and set(seen) != {True, False}:
        bad.append("only the %s form is implemented" % ("short" if True in seen else "long" if False in seen else "no"))
    if bad:
        rep.violation("O4", "write/forms", "; ".join(sorted(set(bad))), b.loc())
    else:
        rep.ok("O4", "write/forms", "self.0 < LONG_BIT => [self.0 as u8]; otherwise [be(self.0)[0] | LONG_BIT, be[1], be[2], be[3]], only through write_all (%d paths)" % len(ends), b.loc())
    if bad6:
        rep.violation("O6", "write/count", "; ".join(sorted(set(bad6))), b.loc())
    elif not bad:
        rep.ok("O6", "write/count", "Ok(n) is returned only after every write_all succeeded and n is the number of bytes handed to it, on both forms", b.loc())
    else:
        rep.undecidable("O6", "write/count", "the encoder forms are not recognised (see O4)", b.loc())


def main(rep, tier):
    import check
    f = F.load(("async", "http"))
    rep.configs.append({"features": "async,http", "profile": "debug", "bodies": len(f.bodies)})
    check.guard(rep, "O", run, f)
    rep.floor("O", "obligations", len([i for i in rep.instances if i["status"] == "ok"]), 8)
    return rep.finish(
        "Six structural obligations of the codec: constants, range guard and construction sites from decision tables; the byte-level bodies of "
        "read / write decided cell by cell (engine E9: reaching definitions over normalised byte terms, per path). The hand proof in DESIGN.md §4 C15 derives the bijection on 0..2^31-1 from them; the implication itself is not "
        "machine-checked and no value is enumerated.",
        not_decided="the bijection as a computed fact over all 2^31 values; behaviour of the underlying Read/Write implementations")
