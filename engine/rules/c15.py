"""C15 — the variable-length integer codec (obligations O1–O6; the bijection follows by the hand proof in DESIGN.md)."""
import facts as F
import ir
import ieg
import paths
from .c17 import SPEC, variant_of, agg_field, cv, nonconst_conds

V = "protocol::varint::VarInt"
LONG = "protocol::varint::VarInt::LONG_BIT"
MAXC = "protocol::varint::VarInt::MAX"


def rows_of(facts, raw_path, inline=False):
    b = facts.by_path.get(raw_path)
    if b is None:
        raise F.MissingAnchor("no body " + raw_path)
    # private / small helpers of the varint module are looked through (e.g. an `encoded_len` helper)
    filt = (lambda x: x.npath.startswith("protocol::varint::VarInt::") and x.npath not in (V + "::read", V + "::write")) if inline else (lambda x: False)
    g = ieg.IEG(facts, b, inline_filter=filt)
    return b, paths.rows(g)


def is_selfish(e):
    e = ir.peel(e)
    if e[0] == 'field' and str(e[2]) == '0':
        e = ir.peel(e[1])
    return e[0] == 'param'


def long_bit_threshold(e):
    """LONG_BIT (by name, possibly widened) or a literal with its value."""
    e2 = ir.peel(e)
    while e2[0] == 'call' and ir.is_transparent(e2[1]) and e2[2]:
        e2 = ir.peel(e2[2][0])
    if e2[0] == 'constdef' and e2[1] == LONG:
        return True
    return False


UNWRAP = "protocol::varint::from"      # impl From<VarInt> for u32: checked below to return the wrapped integer unchanged


def is_const(e, name):
    e = ir.peel(e)
    while (e[0] == 'call' and (ir.is_transparent(e[1]) or e[1] == UNWRAP) and e[2]) or (e[0] == 'field' and str(e[2]) == '0'):
        e = ir.peel(e[2][0]) if e[0] == 'call' else ir.peel(e[1])     # `.0` of the newtype is the wrapped integer
    return e[0] == 'constdef' and e[1] == name


def mentions_const(e, name):
    return any(x[0] == 'constdef' and x[1] == name for x in ir.walk(e))


def run(rep, facts):
    rep.rule("O1", "VarInt::MAX == 2^31-1 and LONG_BIT == 0x80")
    rep.rule("O2", "TryFrom<u32>: Err(InvalidVarInt) exactly on the true edge of v > MAX, else VarInt(v); TryFrom<usize> = u32::try_from then the same")
    rep.rule("O3", "VarInt(..) is constructed only at: const MAX, Default, From<u8>, From<u16>, the guarded TryFrom<u32>, and read() after clearing LONG_BIT")
    rep.rule("O4", "read and write use the same LONG_BIT constant for the long-form test / set / clear; short form exactly below LONG_BIT; to_be_bytes <-> from_be_bytes")
    rep.rule("O5", "read uses only read_exact: 1 byte, then the remaining 3 of a 4-byte buffer (truncation => UnexpectedEof from read_exact)")
    rep.rule("O6", "write returns the length of exactly the array handed to write_all")

    # ---- O1 -------------------------------------------------------------------------------------------
    mx = facts.const_int(MAXC)
    lb = facts.const_int(LONG)
    if mx == SPEC["varint"]["max"] and lb == SPEC["varint"]["long_bit"]:
        rep.ok("O1", "constants", "MAX = 2^31-1, LONG_BIT = 0x80")
    else:
        rep.violation("O1", "constants", "MAX = %d, LONG_BIT = %#x; specification: 2^31-1, 0x80" % (mx, lb))

    # the unwrapping conversion the comparisons may go through is the identity on the wrapped integer
    for ub in facts.by_npath.get(UNWRAP, []):
        if F.norm(ub.raw.get("impl_trait", "") or "").endswith("From") and ub.argc == 1:
            ur = ir.Resolver(ub)
            rets = [ir.peel(ur.operand({"copy": {"l": 0}}, (bi, -1))) for bi, blk in enumerate(ub.blocks) if blk["t"]["k"] == "return"]
            if not (rets and all(x[0] == 'field' and str(x[2]) == '0' and ir.peel(x[1])[0] == 'param' for x in rets)):
                rep.violation("O2", "unwrap-identity", "From<VarInt> for u32 does not return the wrapped integer unchanged", ub.loc())

    # ---- O2 -------------------------------------------------------------------------------------------
    b, rows = rows_of(facts, "<protocol::varint::VarInt as std::convert::TryFrom<u32>>::try_from")
    tab = {}
    for r in rows:
        if r.end != 'return' or r.ret is None:
            continue
        cs = nonconst_conds(r)
        if len(cs) != 1:
            tab['?'] = 'unexpected conditions'
            continue
        e, lab = cs[0]
        pe = ir.peel(e)
        # which side of MAX the value is on along this path, however the comparison is spelled
        fact = ir.cmp_fact(e, lab)
        truth = None
        if fact is not None:
            a_, b_ = ir.peel(fact[1]), ir.peel(fact[2])
            if fact[0] == 'lt' and is_const(a_, MAXC) and b_[0] == 'param':
                truth = True        # MAX < v
            elif fact[0] == 'le' and a_[0] == 'param' and is_const(b_, MAXC):
                truth = False       # v <= MAX
        if truth is None:
            tab['?'] = ir.show(pe)
            continue
        res = variant_of(r.ret)
        inner = agg_field(r.ret, 0)
        if res == 'Err':
            tab[truth] = 'Err(%s)' % variant_of(inner)
        else:
            iv = ir.peel(agg_field(inner, 0)) if inner is not None else None
            tab[truth] = 'Ok(VarInt(v))' if iv is not None and iv[0] == 'param' else 'Ok(?)'
    if tab == {True: 'Err(InvalidVarInt)', False: 'Ok(VarInt(v))'}:
        rep.ok("O2", "try_from_u32", "v > MAX => Err(InvalidVarInt); otherwise Ok(VarInt(v))", b.loc())
    else:
        rep.violation("O2", "try_from_u32", "range check table is %s" % tab, b.loc())
    b, rows = rows_of(facts, "<protocol::varint::VarInt as std::convert::TryFrom<usize>>::try_from")
    ok = True
    seen = set()
    for r in rows:
        if r.end != 'return' or r.ret is None:
            continue
        ret = ir.peel(r.ret)
        if ret[0] == 'call' and ret[1] == "std::result::Result::and_then" and len(ret[2]) == 2:
            # u32::try_from(v).map_err(|_| InvalidVarInt).and_then(VarInt::try_from): both outcomes in one expression
            conv = [x for x in ir.walk(ret[2][0]) if x[0] == 'call' and ('try_from' in x[1] or 'TryFrom' in x[1])]
            fn_ = ir.peel(ret[2][1])
            me = [x for x in ir.walk(ret[2][0]) if x[0] == 'call' and x[1] == "std::result::Result::map_err"]
            cl_ok = False
            for m_ in me:
                for y in ir.walk(m_[2][1]):
                    if y[0] == 'agg' and y[1] == 'closure':
                        cb = facts.by_path.get(y[2])
                        if cb is not None:
                            cg = ieg.IEG(facts, cb, inline_filter=lambda x: False)
                            rs = [q for q in paths.rows(cg) if q.end == 'return' and q.ret is not None]
                            cl_ok = bool(rs) and all(variant_of(q.ret) == 'InvalidVarInt' for q in rs)
            # (the function item is TryFrom::try_from at u32 -> VarInt: the types leave only the guarded conversion)
            if conv and fn_[0] == 'fn' and (fn_[1].startswith("<protocol::varint::VarInt as std::convert::TryFrom") or fn_[1].endswith("TryFrom::try_from")) and cl_ok:
                seen.update(('delegate', 'err'))
            else:
                ok = False
        elif ret[0] == 'call' and ret[1].startswith("<protocol::varint::VarInt as std::convert::TryFrom"):
            a = ir.peel(ret[2][0])
            conv = [x for x in ir.walk(a) if x[0] == 'call' and 'try_from' in x[1] or x[0] == 'call' and 'TryFrom' in x[1]]
            if not conv:
                ok = False
            seen.add('delegate')
        elif variant_of(ret) == 'Err' and variant_of(agg_field(ret, 0)) == 'InvalidVarInt':
            seen.add('err')
        else:
            ok = False
    if ok and seen == {'delegate', 'err'}:
        rep.ok("O2", "try_from_usize", "u32::try_from(v): Ok => VarInt::try_from(u32), Err => Err(InvalidVarInt)", b.loc())
    else:
        rep.violation("O2", "try_from_usize", "usize conversion does not delegate to the guarded u32 conversion (%s)" % sorted(seen), b.loc())

    # ---- O3 -------------------------------------------------------------------------------------------
    allowed = {
        "<protocol::varint::VarInt as std::default::Default>::default",
        "protocol::varint::VarInt::MAX",
        "protocol::varint::VarInt::read",
        "<protocol::varint::VarInt as std::convert::From<u8>>::from",
        "<protocol::varint::VarInt as std::convert::From<u16>>::from",
        "<protocol::varint::VarInt as std::convert::TryFrom<u32>>::try_from",
    }
    sites = F.aggregates_of(facts, V)
    got = {bb.path for (bb, bi, si, st) in sites}
    extra = got - allowed
    if extra:
        for p in sorted(extra):
            rep.violation("O3", "construction-site[%s]" % p, "VarInt is constructed outside the range-preserving sites")
    else:
        rep.ok("O3", "construction-sites", "VarInt(..) constructed only in %s" % sorted(x.split("::")[-1] + "@" + x.split(" as ")[-1][:20] for x in got))
    for (bb, bi, si, st) in sites:
        if bb.path.endswith("From<u8>>::from") or bb.path.endswith("From<u16>>::from"):
            r = ir.Resolver(bb)
            e = ir.peel(r.operand(st["rv"]["ops"][0], (bi, si)))
            if e[0] != 'param':
                rep.violation("O3", "widening[%s]" % bb.path, "From<small int> stores %s" % ir.show(e), bb.loc())

    # ---- O4 / O5: read ---------------------------------------------------------------------------------
    b, rows = rows_of(facts, "protocol::varint::VarInt::read")
    ok_rows = [r for r in rows if r.end == 'return' and r.ret is not None]
    io_calls = set()
    short = long_ = None
    for r in ok_rows:
        for (nm, args, n) in r.calls:
            if nm.startswith("std::io::Read::") or nm.startswith("std::io::BufRead::"):
                io_calls.add(nm)
        if variant_of(r.ret) != 'Ok':
            continue
        val = ir.peel(agg_field(r.ret, 0))
        tests = [(ir.peel(e), lab) for (e, lab) in nonconst_conds(r)
                 if ir.peel(e)[0] == 'bin' and ir.peel(e)[1] in ('Eq', 'Ne') and mentions_const(e, LONG)]
        if len(tests) != 1:
            continue
        te, lab = tests[0]
        band = ir.peel(te[2])
        zero = cv(te[3]) == 0

        def window(e):
            """(start, end) of a view into the 4-byte scratch array: buf[..1], buf[1..], split_at_mut(buf, 1).0/.1, buf itself"""
            e = ir.peel(e)
            if e[0] == 'agg' and e[1] == 'repeat':
                return (0, int(e[2])) if str(e[2]).isdigit() else None
            if e[0] == 'call' and (e[1].endswith("index") or e[1].endswith("index_mut")) and len(e[2]) == 2:
                base = window(e[2][0])
                rg = ir.peel(e[2][1])
                if base is None or rg[0] != 'agg':
                    return None
                d = {str(k): cv(v) for k, v in rg[3]}
                if rg[2].endswith("RangeTo"):
                    return (base[0], base[0] + d.get("end")) if d.get("end") is not None else None
                if rg[2].endswith("RangeFrom"):
                    return (base[0] + d.get("start"), base[1]) if d.get("start") is not None else None
                if rg[2].endswith("Range"):
                    return (base[0] + d["start"], base[0] + d["end"]) if d.get("start") is not None and d.get("end") is not None else None
                return None
            if e[0] == 'field' and str(e[2]) in ('0', '1'):
                sp = ir.peel(e[1])
                if sp[0] == 'call' and (sp[1].endswith("split_at_mut") or sp[1].endswith("split_at")) and len(sp[2]) == 2:
                    base = window(sp[2][0])
                    mid = cv(sp[2][1])
                    if base is not None and mid is not None:
                        return (base[0], base[0] + mid) if str(e[2]) == '0' else (base[0] + mid, base[1])
            return None

        def byte0(e):
            e = ir.peel(e)
            if e[0] == 'index' and cv(e[2]) is not None:
                w = window(e[1])
                return w is not None and w[0] + cv(e[2]) == 0
            return False
        idx0 = band[0] == 'bin' and band[1] == 'BitAnd' and byte0(band[2]) and is_const(band[3], LONG)
        bit_clear = (isinstance(lab, tuple) and lab[0] == 'otherwise') == (te[1] == 'Eq')
        reads = [c for c in r.calls if c[0] == "std::io::Read::read_exact"]
        ranges = [window(c[1][1]) for c in reads]
        if zero and idx0 and bit_clear:
            # short form
            v2 = val
            while (v2[0] == 'call' and ir.is_transparent(v2[1])) or (v2[0] == 'agg' and v2[2].endswith("VarInt::VarInt")):
                v2 = ir.peel(v2[2][0]) if v2[0] == 'call' else ir.peel(v2[3][0][1])
                if v2[0] == 'cast':
                    v2 = ir.peel(v2[2])
            short = (byte0(v2) and ranges == [(0, 1)])
        elif zero and idx0 and not bit_clear:
            clears = [w for w in r.writes if w[0][0] == 'index' and byte0(w[0])]
            cl_ok = False
            for (pl, vv, n, st) in clears:
                x = ir.peel(vv)
                if x[0] == 'bin' and x[1] == 'BitAnd' and ir.peel(x[3])[0] == 'un' and ir.peel(x[3])[1] == 'Not' and is_const(ir.peel(x[3])[2], LONG):
                    cl_ok = True
            be = val[0] == 'agg' and val[2].endswith("VarInt::VarInt") and ir.peel(val[3][0][1])[0] == 'call' and ir.peel(val[3][0][1])[1] == "core::num::from_be_bytes"
            long_ = cl_ok and be and ranges == [(0, 1), (1, 4)]
    if short and long_:
        rep.ok("O4", "read/forms", "bit LONG_BIT of byte 0 clear => that byte; set => clear it with !LONG_BIT, read 3 more bytes, u32::from_be_bytes", b.loc())
    else:
        rep.violation("O4", "read/forms", "decoder does not implement {short: byte0 when byte0 & LONG_BIT == 0; long: from_be_bytes after clearing LONG_BIT} (short=%s long=%s)" % (short, long_), b.loc())
    if io_calls == {"std::io::Read::read_exact"}:
        rep.ok("O5", "read/read_exact-only", "the reader is accessed only through read_exact (first buf[..1], then buf[1..] of a 4-byte buffer)", b.loc())
    else:
        rep.violation("O5", "read/read_exact-only", "the reader is accessed through %s: a short read would be accepted silently" % sorted(io_calls), b.loc())

    # ---- O4 / O6: write ---------------------------------------------------------------------------------
    b, rows = rows_of(facts, "protocol::varint::VarInt::write", inline=True)
    forms = {}
    o6 = True
    n6 = 0
    for r in rows:
        if r.end != 'return' or r.ret is None:
            continue
        cs = [(ir.peel(e, casts=False), lab) for (e, lab) in nonconst_conds(r) if mentions_const(e, LONG)]
        if len(cs) != 1:
            forms['?'] = 'the short/long decision is not a single comparison with LONG_BIT (%d)' % len(cs)
            continue
        e, lab = cs[0]
        truth = isinstance(lab, tuple) and (lab[0] == 'otherwise' or (lab[0] == 'case' and lab[1] != 0))
        below = None
        if e[0] == 'call' and e[1].endswith("::lt") and is_selfish(e[2][0]) and long_bit_threshold(e[2][1]):
            below = truth
        elif e[0] == 'call' and e[1].endswith("::ge") and is_selfish(e[2][0]) and long_bit_threshold(e[2][1]):
            below = not truth
        elif e[0] == 'bin' and e[1] == 'Lt' and is_selfish(e[2]) and long_bit_threshold(e[3]):
            below = truth
        elif e[0] == 'bin' and e[1] == 'Ge' and is_selfish(e[2]) and long_bit_threshold(e[3]):
            below = not truth
        wa = r.called("std::io::Write::write_all")
        others = [c for c in r.calls if c[0].startswith("std::io::Write::") and c[0] != "std::io::Write::write_all"]
        if below is None or len(wa) != 1 or others:
            forms['?'] = ir.show(e)[:80]
            continue
        data = ir.peel(wa[0][1][1])
        if below:
            forms['short'] = (data[0] == 'agg' and data[1] == 'array' and len(data[3]) == 1 and ir.peel(data[3][0][1])[0] == 'field')
        else:
            sets = [w for w in r.writes if w[0][0] == 'index' and cv(w[0][2]) == 0]
            st_ok = any(ir.peel(vv)[0] == 'bin' and ir.peel(vv)[1] == 'BitOr' and is_const(ir.peel(vv)[3], LONG) for (pl, vv, n, st) in sets)
            forms['long'] = (data[0] == 'call' and data[1] == "core::num::to_be_bytes" and st_ok)
        # O6: returned Ok(len(X)) with X the very array written, combined with the write's result
        ret = ir.peel(r.ret)
        lens = [x for x in ir.walk(ret) if x[0] == 'call' and x[1].endswith("::len")]
        was = [x for x in ir.walk(ret) if x[0] == 'call' and x[1] == "std::io::Write::write_all"]
        if ret[0] == 'call' and ret[1] == "std::result::Result::and":
            # write_all(w, X).and(Ok(X.len()))
            n6 += 1
            if not (lens and was and ir.peel(lens[0][2][0]) == ir.peel(was[0][2][1])):
                o6 = False
        elif ret[0] == 'agg' and ret[2].endswith("Result::Ok"):
            # write_all(w, X)?; Ok(X.len())  — the Ok is reached only on the Continue edge of `?` on that very write
            n6 += 1
            cnt = ir.peel(ret[3][0][1])
            same = cnt[0] == 'call' and cnt[1].endswith("::len") and ir.peel(cnt[2][0]) == data
            guarded = False
            for (e2, lab2) in nonconst_conds(r):
                pe2 = ir.peel(e2)
                if pe2[0] == 'discr' and any(x[0] == 'call' and x[1].endswith("Try>::branch") and any(
                        y[0] == 'call' and y[1] == "std::io::Write::write_all" for y in ir.walk(x)) for x in ir.walk(pe2)):
                    guarded = guarded or lab2 == ('case', 0)
            if not (same and guarded):
                o6 = False
        else:
            pass    # error propagation of the write itself: no count is reported
    if forms == {'short': True, 'long': True}:
        rep.ok("O4", "write/forms", "self < LONG_BIT => [self.0 as u8]; otherwise to_be_bytes(self.0) with LONG_BIT set in byte 0", b.loc())
    else:
        rep.violation("O4", "write/forms", "encoder forms are %s" % forms, b.loc())
    if o6 and n6 == 2:
        rep.ok("O6", "write/count", "Ok(X.len()) is returned only together with / after a successful write_all(w, X), same X, on both forms", b.loc())
    else:
        rep.violation("O6", "write/count", "the reported count is not the length of the array that was written", b.loc())


def main(rep, tier):
    import check
    f = F.load(("async", "http"))
    rep.configs.append({"features": "async,http", "profile": "debug", "bodies": len(f.bodies)})
    check.guard(rep, "O", run, f)
    rep.floor("O", "obligations", len([i for i in rep.instances if i["status"] == "ok"]), 8)
    return rep.finish(
        "Six structural obligations of the codec, each read off the decision tables of read/write/try_from (path enumeration with term "
        "substitution). The hand proof in DESIGN.md §4 C15 derives the bijection on 0..2^31-1 from them; the implication itself is not "
        "machine-checked and no value is enumerated.",
        not_decided="the bijection as a computed fact over all 2^31 values; behaviour of the underlying Read/Write implementations")
