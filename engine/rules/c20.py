"""C20 — CGI response header writers emit exactly the documented grammar and byte count (R20.1–R20.3)."""
import facts as F
import ir
import ieg
import paths
from .c17 import variant_of, agg_field, cv

WRITE_ALL = "std::io::Write::write_all"


def lin(e):
    """Linear form {atom: coefficient, (): constant} of a length expression; no evaluation beyond folding constants."""
    e = ir.peel(e)
    if e[0] in ('const', 'constdef'):
        v = ir.const_value(e)
        if isinstance(v, int):
            return {(): v}
    if e[0] == 'field' and ir.peel(e[1])[0] == 'bin' and ir.peel(e[1])[1] in ('AddWithOverflow',) and e[2] in (0, '0'):
        b = ir.peel(e[1])
        return add(lin(b[2]), lin(b[3]))
    if e[0] == 'bin' and e[1] in ('Add', 'AddUnchecked', 'AddWithOverflow'):
        return add(lin(e[2]), lin(e[3]))
    if e[0] == 'call' and e[1].endswith("::len") and len(e[2]) == 1:
        x = ir.peel(e[2][0])
        v = ir.const_value(x)
        if isinstance(v, bytes):
            return {(): len(v)}
        if x[0] == 'agg' and x[1] == 'array':
            return {(): len(x[3])}
        return {('len', x): 1}
    return {('atom', e): 1}


def add(a, b):
    out = dict(a)
    for k, v in b.items():
        out[k] = out.get(k, 0) + v
    return {k: v for k, v in out.items() if v != 0 or k == ()}


def length_of(data):
    """Linear length of a byte-slice expression handed to write_all."""
    x = ir.peel(data)
    v = ir.const_value(x)
    if isinstance(v, bytes):
        return {(): len(v)}
    if x[0] == 'agg' and x[1] == 'array':
        return {(): len(x[3])}
    return {('len', x): 1}


def norm_lin(d):
    return {k: v for k, v in d.items() if v != 0}


def item(data):
    """Grammar token of one written slice."""
    x = ir.peel(data)
    v = ir.const_value(x)
    if isinstance(v, bytes):
        return ('lit', v)
    return ('var', x)


def ok_rows(g, max_visits):
    rows = paths.rows(g, max_visits=max_visits, max_paths=40000)
    out = []
    for r in rows:
        if r.end == 'return' and r.ret is not None and variant_of(r.ret) == 'Ok':
            out.append(r)
    return rows, out


FACTS = None        # the fact base of the run in progress (for evaluated constants the grammar functions look up)


def check_writer(rep, facts, name, grammar, min_iter_rows):
    global FACTS
    FACTS = facts
    b = facts.body(name)
    g = ieg.IEG(facts, b, inline_filter=lambda x: False)
    rows, oks = ok_rows(g, 3)
    short = name.split("::")[-1]
    if not oks:
        rep.undecidable("R20.1", short + "/paths", "no successful path found", b.loc())
        return
    # ---- R20.3: only write_all, each result `?`-propagated -------------------------------------------------
    bad_calls = set()
    unprop = 0
    for r in rows:
        for (nm, args, n) in r.calls:
            if nm.startswith("std::io::Write::") and nm != WRITE_ALL:
                bad_calls.add(nm)
    for r in oks:
        was = r.called(WRITE_ALL)
        tested = 0
        for (e, lab, n) in r.conds:
            pe = ir.peel(e)
            if pe[0] == 'discr':
                x = ir.peel(pe[1])
                if x[0] == 'call' and x[1].endswith("Try>::branch") and ir.peel(x[2][0])[0] == 'call' and ir.peel(x[2][0])[1] == WRITE_ALL and lab == ('case', 0):
                    tested += 1
        if tested != len(was):
            unprop += 1
    if bad_calls:
        rep.violation("R20.3", short + "/write_all-only", "the destination is written through %s: a short write would be reported as success" % sorted(bad_calls), b.loc())
    elif unprop:
        rep.violation("R20.3", short + "/errors-propagated", "%d successful path(s) ignore the result of a write_all" % unprop, b.loc())
    else:
        rep.ok("R20.3", short + "/write_all-propagated", "only write_all is used and every result passes `?` on all %d successful paths" % len(oks), b.loc())
    # ---- R20.1 grammar and R20.2 ledger per path ---------------------------------------------------------------
    shapes = set()
    for r in oks:
        was = r.called(WRITE_ALL)
        toks = [item(c[1][1]) for c in was]
        err = grammar(toks, r)
        k = sum(1 for t in toks if t == ('lit', b": "))
        shapes.add(k)
        if err:
            rep.violation("R20.1", short + "/grammar", err + " (written: %s)" % [t[1] if t[0] == 'lit' else ir.show(t[1])[:30] for t in toks], b.loc())
            return
        total = {}
        for c in was:
            total = add(total, length_of(c[1][1]))
        cnt = lin(agg_field(r.ret, 0))
        if norm_lin(total) != norm_lin(cnt):
            def sh(d):
                return " + ".join(("%s" % v if k == () else "%d*len(%s)" % (v, ir.show(k[1])[:40])) for k, v in sorted(d.items(), key=str))
            rep.violation("R20.2", short + "/count", "returned count (%s) differs from the bytes written (%s) on a path with %d header line(s)" % (sh(norm_lin(cnt)), sh(norm_lin(total)), k), b.loc())
            return
    if len(shapes) < min_iter_rows:
        rep.undecidable("R20.1", short + "/iterations", "only %s header-line counts explored" % sorted(shapes), b.loc())
        return
    rep.ok("R20.1", short + "/grammar", "all %d successful paths (header lines: %s) emit exactly the documented sequence" % (len(oks), sorted(shapes)), b.loc())
    rep.ok("R20.2", short + "/count", "returned count equals the sum of the written lengths on every explored path (loop unrolled 0..2 times; the per-iteration update is one expression)", b.loc())


def headers_grammar(toks, row):
    if len(toks) < 3:
        return "too few writes"
    # status line
    t0, t1 = toks[0], toks[1]
    sb = None
    if t0[0] == 'lit':
        sb = t0[1]
    if sb != b"Status: \0\0\0 ":
        return "status line does not start from the template b\"Status: \\0\\0\\0 \""
    # the 3 placeholder bytes are filled from status.as_str()
    fills = [c for c in row.calls if c[0] == "core::slice::copy_from_slice"]
    okfill = False
    for (nm, args, n) in fills:
        dst, src = ir.peel(args[0]), ir.peel(args[1])
        rg = [x for x in ir.walk(dst) if x[0] == 'agg' and x[2].startswith("std::ops::Range")]
        bounds = {k: cv(v) for k, v in rg[0][3]} if rg else None
        if bounds is None:
            # the range as a named constant: its evaluated memory image (two little-endian usize)
            for x in ir.walk(dst):
                c = FACTS.consts.get(x[1]) if x[0] == 'constdef' and FACTS is not None else None
                if c and str(c.get("ty", "")).replace(" ", "").startswith("std::ops::Range<usize>") and len(c.get("bytes", [])) == 16:
                    bounds = {"start": int.from_bytes(bytes(c["bytes"][:8]), "little"), "end": int.from_bytes(bytes(c["bytes"][8:]), "little")}
        if bounds == {"start": 8, "end": 11} and any(
                x[0] == 'call' and x[1].endswith("StatusCode::as_str") for x in ir.walk(src)):
            okfill = True
    if not okfill:
        return "the status code is not copied into bytes 8..11 of the status line"
    def from_reason(e):
        return any(x[0] == 'call' and x[1].endswith("canonical_reason") for x in ir.walk(e))
    one_expr = t1[0] == 'var' and from_reason(t1[1]) and any(ir.const_value(x) == b"Custom" for x in ir.walk(t1[1]))
    # or the same choice spelled as a match: Some(phrase) => phrase, None => b"Custom"
    arm = None
    for (e, lab, n) in row.conds:
        pe = ir.peel(e)
        if pe[0] == 'discr' and ir.peel(pe[1])[0] == 'call' and ir.peel(pe[1])[1].endswith("canonical_reason") and isinstance(lab, tuple):
            arm = 'Some' if (lab == ('case', 1) or (lab[0] == 'otherwise' and 0 in lab[1])) else ('None' if (lab == ('case', 0) or (lab[0] == 'otherwise' and 1 in lab[1])) else None)
    by_match = (arm == 'Some' and t1[0] == 'var' and from_reason(t1[1])) or (arm == 'None' and t1[0] == 'lit' and t1[1] == b"Custom")
    if not (one_expr or by_match):
        return "reason phrase is not canonical_reason() or \"Custom\""
    rest = toks[2:]
    if rest[-1] != ('lit', b"\n\n"):
        return "missing final blank line"
    body = rest[:-1]
    if len(body) % 4 != 0:
        return "header lines are not 4 writes each"
    for i in range(0, len(body), 4):
        nl, name, sep, val = body[i:i + 4]
        if nl != ('lit', b"\n") or sep != ('lit', b": "):
            return "header line is not '\\n' name ': ' value"
        if name[0] != 'var' or val[0] != 'var':
            return "header name/value are not the iterator's items"
        ne, ve = name[1], val[1]
        # name = item.0, value = item.1 of the same `next()` result
        if not (ne[0] == 'field' and ve[0] == 'field' and str(ne[2]) == '0' and str(ve[2]) == '1' and ne[1] == ve[1]):
            return "header line does not write (name, value) = (item.0, item.1)"
        if not any(x[0] == 'call' and x[1].endswith("::next") for x in ir.walk(ne)):
            return "header items do not come from iterating `headers` in order"
    return None


def redirect_grammar(toks, row):
    if len(toks) != 3:
        return "expected exactly 3 writes"
    if toks[0] != ('lit', b"Location: "):
        return "first write is not \"Location: \""
    if toks[1][0] != 'var' or not (ir.peel(toks[1][1])[0] == 'call' and ir.peel(toks[1][1])[1].endswith("as_bytes") and ir.peel(ir.peel(toks[1][1])[2][0])[0] == 'param'):
        return "second write is not the location argument"
    if toks[2] != ('lit', b"\n\n"):
        return "missing final blank line"
    return None


def check_http_headers(rep, facts):
    name = "cgi::response::http_headers"
    b = facts.body(name)
    g = ieg.IEG(facts, b, inline_filter=lambda x: False)
    rows = [r for r in paths.rows(g) if r.end == 'return']
    ok = False
    for r in rows:
        ret = ir.peel(r.ret) if r.ret is not None else None
        if ret is not None and ret[0] == 'call' and ret[1] == "cgi::response::write_headers":
            a_w, a_s, a_h = ret[2]
            st_ok = ir.peel(a_s)[0] == 'call' and ir.peel(a_s)[1].endswith("Response::status")
            hd_ok = any(x[0] == 'call' and x[1].endswith("HeaderMap::iter") for x in ir.walk(a_h)) and any(
                x[0] == 'call' and x[1].endswith("::map") for x in ir.walk(a_h))
            ok = st_ok and hd_ok and ir.peel(a_w)[0] == 'param'
    # the mapping closure returns (name.as_ref(), value.as_ref())
    cl = [bb for bb in facts.bodies if bb.path.startswith("cgi::response::http_headers") and bb.kind == "Closure"]
    cl_ok = False
    for cb in cl:
        cg = ieg.IEG(facts, cb, inline_filter=lambda x: False)
        for r in paths.rows(cg):
            if r.end == 'return' and r.ret is not None:
                t = ir.peel(r.ret)
                if t[0] == 'agg' and t[1] == 'tuple' and len(t[3]) == 2:
                    e0, e1 = ir.peel(t[3][0][1]), ir.peel(t[3][1][1])
                    cl_ok = (e0[0] == 'field' and str(e0[2]) == '0' and e1[0] == 'field' and str(e1[2]) == '1')
    if ok and cl_ok:
        rep.ok("R20.1", "http_headers/delegates", "write_headers(w, response.status(), response.headers().iter().map(|(n, v)| (n.as_ref(), v.as_ref())))", b.loc())
    else:
        rep.violation("R20.1", "http_headers/delegates", "http_headers does not delegate to write_headers with the response's status and headers in iteration order", b.loc())


def run(rep, facts):
    rep.rule("R20.1", "the sequence of write_all arguments equals the documented grammar: \"Status: ccc \" reason (\"\\n\" name \": \" value)* \"\\n\\n\"; \"Location: \" loc \"\\n\\n\"")
    rep.rule("R20.2", "returned count == sum of the lengths written, as linear expressions over len() atoms, on every path")
    rep.rule("R20.3", "the destination is written only through write_all and every result is `?`-propagated")
    check_writer(rep, facts, "cgi::response::write_headers", headers_grammar, 3)
    check_writer(rep, facts, "cgi::response::simple_redirect", redirect_grammar, 1)
    check_http_headers(rep, facts)


def main(rep, tier):
    import check
    f = F.load(("async", "http"))
    rep.configs.append({"features": "async,http", "profile": "debug", "bodies": len(f.bodies)})
    if not f.has_feature("http"):
        rep.undecidable("R20", "feature", "feature http not compiled")
    check.guard(rep, "R20", run, f)
    rep.floor("R20", "rule instances", len([i for i in rep.instances if i["status"] == "ok"]), 7)
    return rep.finish(
        "Event-language and byte-count ledger over the enumerated paths of the writers (loops unrolled 0..2 times): decides the "
        "property for every Write implementation that honours write_all's contract.",
        not_decided="nothing within the stated contract (header values containing newlines are the caller's responsibility, as documented)")
