"""C07 — per request: one handler call, one correct EndRequest, correct connection reuse (R7.1–R7.4)."""
import events as E
import facts as F
import ir
import ieg
from . import common

RUN = "async_io::Token::run::{closure#0}"
REQ_NEW = "async_io::Request::new"
CLOSE = "async_io::Request::close"
PARSE_REQUEST_HINT = "parse_request"


def counts_dataflow(g, classify):
    """May-analysis of small counters: state = frozenset of (name, count) with count in {0,1,2(many)}.
    classify(n, m, lab) -> list of ('inc', name) / ('reset', name)."""
    def apply(state, ops):
        cur = dict()
        for (nm, c) in state:
            cur.setdefault(nm, set()).add(c)
        for op, nm in ops:
            if op == 'inc':
                cur[nm] = {min(c + 1, 2) for c in cur.get(nm, {0})}
            elif op == 'reset':
                cur[nm] = {0}
        return frozenset((nm, c) for nm, cs in cur.items() for c in cs)

    def transfer(n, st):
        def per_edge(m, lab):
            return apply(st, classify(n, m, lab))
        return per_edge
    return ieg.forward(g, frozenset(), transfer, lambda a, b: a | b)


def get(state, name):
    s = {c for (nm, c) in state if nm == name}
    return s or {0}


def has_call(e, name):
    return any(x[0] == 'call' and x[1] == name for x in ir.walk(e))


def run(rep, facts):
    rep.rule("R7.1", "one handler invocation per constructed Request: the handler is called with 0 prior calls since Request::new, close() with exactly 1; the Request wraps the stream parser produced by the preamble phase")
    rep.rule("R7.2", "close() receives the handler's Ok status, or ExitStatus::ABORT on the ConnectionAborted arm, and nothing else")
    rep.rule("R7.3", "inside close(): set_stream(None) and the record-boundary drain precede the epilogue; parser replies are flushed before it; exactly one epilogue write on every success path, nothing written after it; epilogue = make_request_epilogue(request id, status parameter, output streams iff writeable)")
    rep.rule("R7.4", "the connection is reused iff KeepConn: into_request_parser only on the true edge of flags.contains(KeepConn); false edge returns ConnectionReset; run re-enters the preamble phase only with close()'s Ok value")
    g, ev = common.build(facts, RUN)
    rep.stats.setdefault("graphs", {})["run"] = g.stats()

    def name_of(n):
        return g.callee(n) if n.term["k"] == "call" and not n.noise() else None

    # ---- R7.1 counters -------------------------------------------------------------------------------
    def classify(n, m, lab):
        ops = []
        nm = name_of(n)
        e = ev.at(n)
        if nm == REQ_NEW and lab == 'call':
            ops.append(('reset', 'H'))
            ops.append(('reset', 'EPI'))
        if e is not None and e[0] == 'HANDLER' and e[1] == 'call':
            ops.append(('inc', 'H'))
        if e is not None and e[0] == 'WRITE' and e[2] is not None and E.subject_class(e[2]) == 'epilogue':
            # count on the Ready edge only (the write completed)
            pass
        if n.term["k"] == "switch" and lab == ('case', 0):
            for (pe, cn) in ev.poll_switches(n):
                if pe is not None and pe[0] == 'WRITE' and pe[2] is not None and E.subject_class(pe[2]) == 'epilogue':
                    ops.append(('inc', 'EPI'))
        return ops
    ins = counts_dataflow(g, classify)

    n_handler = n_close = n_new = 0
    for n in g.all_nodes():
        if n.key not in ins:
            continue
        st = ins[n.key]
        e = ev.at(n)
        nm = name_of(n)
        if e is not None and e[0] == 'HANDLER' and e[1] == 'call':
            n_handler += 1
            h = get(st, 'H')
            if h != {0}:
                rep.violation("R7.1", "run/%s/handler-call-count" % common.fn_of(n),
                              "handler may be invoked with %s earlier invocation(s) for the same Request" % sorted(h), n.loc())
            else:
                rep.ok("R7.1", "run/handler-called-once", "no earlier handler call since Request::new on any path", n.loc())
            # argument provenance: &mut of the Request built from the preamble's stream parser
            arg = g.arg(n, 1)
            news = [x for x in ir.walk(arg) if x[0] == 'agg' and x[2] == "async_io::Request::Request"]
            p0 = None
            for x in news:
                for (fn_, fe) in x[3]:
                    if fn_ == 'parser':
                        p0 = fe
            if p0 is None:
                rep.violation("R7.1", "run/handler-argument", "handler is not called with the Request built by Request::new", n.loc())
            else:
                if not any((x[0] == 'call' and x[1] in common.preamble_fns(facts)) or
                           (x[0] == 'agg' and x[1] in ('coroutine', 'closure') and F.norm(str(x[2])).split("::{closure")[0] in common.preamble_fns(facts))
                           for x in ir.walk(p0)) and not any(
                        x[0] == 'call' and x[1] == E.INTO_STREAM for x in ir.walk(p0)):
                    rep.violation("R7.1", "run/request-parser-provenance",
                                  "Request::new is not given the stream parser produced by the preamble phase", n.loc())
                else:
                    rep.ok("R7.1", "run/request-parser-provenance", "Request wraps the parser returned by the preamble phase: " + ir.show(p0)[:120], n.loc())
        if nm == CLOSE:
            n_close += 1
            h = get(st, 'H')
            if h != {1}:
                rep.violation("R7.1", "run/close-after-one-handler-call",
                              "close() reachable after %s handler invocation(s)" % sorted(h), n.loc())
            else:
                rep.ok("R7.1", "run/close-after-one-handler-call", "exactly one handler invocation precedes close() on every path", n.loc())
            # R7.2: status argument
            st_arg = ir.peel(g.arg(n, 1))
            alts = list(st_arg[1]) if st_arg[0] == 'phi' else [st_arg]
            okset = set()
            bad = []
            for a in alts:
                a = ir.peel(a)
                if a[0] == 'constdef' and a[1].endswith("ExitStatus::ABORT"):
                    okset.add('ABORT')
                elif a[0] == 'field' and a[1][0] == 'variant' and a[1][2] == 'Ok' and any(
                        x[0] == 'call' and x[1].endswith("FnMut::call_mut") for x in ir.walk(a)):
                    okset.add('handler-ok')
                else:
                    bad.append(ir.show(a)[:100])
            if bad or okset != {'ABORT', 'handler-ok'}:
                rep.violation("R7.2", "run/close-status", "close() status is %s (+%s); expected exactly {handler Ok value, ExitStatus::ABORT}" % (sorted(okset), bad), n.loc())
            else:
                rep.ok("R7.2", "run/close-status", "status is the handler's Ok value or ExitStatus::ABORT", n.loc())
        if nm == REQ_NEW:
            n_new += 1
    rep.floor("R7.1", "handler call sites", n_handler, 1)
    rep.floor("R7.1", "close() call sites", n_close, 1)
    rep.floor("R7.1", "Request::new call sites", n_new, 1)

    # the ABORT status is selected only under the ConnectionAborted guard on the handler's error
    # (may-fact: 'ABORTARM' generated on the true edge of kind()==ConnectionAborted)
    # checked structurally through R12.3's tolerance table; here: the constant is only used at one site
    aborts = 0
    for b in facts.bodies:
        if not b.npath.startswith("async_io::"):
            continue
        r = ir.Resolver(b)
        for bi, blk in enumerate(b.blocks):
            for si, st in enumerate(blk["st"]):
                if st["k"] == "assign" and st["rv"]["k"] == "use" and "const" in st["rv"]["op"]:
                    c = st["rv"]["op"]["const"]
                    if c.get("def", "").endswith("ExitStatus::ABORT"):
                        aborts += 1
    if aborts != 1:
        rep.violation("R7.2", "run/abort-constant-sites", "ExitStatus::ABORT is used at %d sites in the async layer, expected 1" % aborts)
    else:
        rep.ok("R7.2", "run/abort-constant-sites", "ExitStatus::ABORT is produced at exactly one site (the ConnectionAborted arm, see R11.4)")

    # ---- R7.3 inside close -----------------------------------------------------------------------------
    def effect(n, m, lab):
        gens, kills = set(), set()
        nm = name_of(n)
        e = ev.at(n)
        if nm == REQ_NEW:
            kills.update(["NONE", "RB", "F", "W"])
        if nm == "parser::stream::Parser::set_stream":
            a = ir.peel(g.arg(n, 1))
            if a[0] == 'agg' and a[2].endswith("Option::None"):
                gens.add("NONE")
            else:
                kills.add("NONE")
        if e is not None and e[0] == 'PARSE':
            kills.add("F")
        if e is not None and e[0] == 'HANDLER':
            kills.update(["F", "RB", "NONE"])
        if n.term["k"] == "switch":
            r = ev.emptiness_edges(n)
            if r is not None and r[0] == 'str_out' and ev.edge_value(lab, r[2], r[3]) == 'empty':
                gens.add("F")
            if lab == ('case', 0):
                for (pe, cn) in ev.poll_switches(n):
                    if pe is not None and pe[0] == 'WRITE' and pe[1] == 'await_all' and pe[2] is not None and E.subject_class(pe[2]) == 'str_out':
                        gens.add("F")
            de = ev.switch_expr(n)
            if de is not None:
                x = ir.peel(de)
                if common.writeable_truth(facts, de, lab) is True:
                    gens.add("W")
                if x[0] == 'call' and x[1].endswith("::contains") and len(x[2]) == 2 and isinstance(lab, tuple) and lab[0] == 'otherwise':
                    a0, a1 = ir.peel(x[2][0]), ir.peel(x[2][1])
                    if a0[0] == 'field' and a0[2] == 'flags' and a1[0] == 'constdef' and a1[1].endswith("KeepConn"):
                        gens.add("KEEP")
        # record_boundary completed: the frame of the coroutine returns Ok
        if n.term["k"] == "return" and n.frame.body.npath.startswith("async_io::Request::record_boundary::{closure"):
            sh = g._known(n.tag).get(0)
            if sh is not None and sh[0] == 0:
                gens.add("RB")
        # writeable() completed (close() awaits it first: for a two-stream role that is what makes the request writeable)
        if n.term["k"] == "return" and n.frame.body.npath.startswith("async_io::Request::writeable::{closure"):
            gens.add("WA")
        if nm == CLOSE:
            kills.update(["KEEP", "WA"])
        return gens, kills
    must = common.must_dataflow(g, frozenset(), effect)
    # the epilogue's stream list is chosen from the writeable flag: that flag is read only after close() has awaited writeable()
    nflag = 0
    for n in g.all_nodes():
        if n.key not in must or n.term["k"] != "switch":
            continue
        if not n.frame.body.npath.startswith("async_io::Request::close::{closure"):
            continue
        de = ev.switch_expr(n)
        x = ir.peel(de) if de is not None else None
        if x is not None and common.writeable_truth(facts, de, ('case', 1)) is not None:
            nflag += 1
            if "WA" in must[n.key]:
                rep.ok("R7.3", "close/writeable-read-after-final-stream", "close() reads the writeable flag only after it awaited writeable()", n.loc())
            else:
                rep.violation("R7.3", "close/writeable-read-after-final-stream", "close() reads the writeable flag before it awaited writeable(): a request that becomes writeable "
                              "only by that call (two input streams, handler returned early) gets an EndRequest without the empty Stdout / Stderr records", n.loc())
    rep.floor("R7.3", "reads of the writeable flag in close()", nflag, 1)

    def in_close(n):
        return any(fr.body.npath.startswith("async_io::Request::close") for fr in n.frame.stack())

    epi_writes = 0
    for n in g.all_nodes():
        if n.key not in must:
            continue
        e = ev.at(n)
        nm = name_of(n)
        st = must[n.key]
        cst = ins.get(n.key, frozenset())
        if e is not None and e[0] == 'WRITE' and e[2] is not None and in_close(n):
            cls = E.subject_class(e[2])
            if cls == 'epilogue':
                epi_writes += 1
                missing = [f for f in ("NONE", "RB", "F") if f not in st]
                what = {"NONE": "set_stream(None)", "RB": "record-boundary drain", "F": "parser replies flushed"}
                if missing:
                    rep.violation("R7.3", "close/epilogue-preconditions[%s]" % ",".join(missing),
                                  "epilogue written without: " + ", ".join(what[m] for m in missing), n.loc())
                else:
                    rep.ok("R7.3", "close/epilogue-preconditions", "set_stream(None), record-boundary drain and reply flush precede the epilogue on every path", n.loc())
                if get(cst, 'EPI') != {0}:
                    rep.violation("R7.3", "close/epilogue-once", "the epilogue may be written more than once", n.loc())
                else:
                    rep.ok("R7.3", "close/epilogue-once", "no earlier epilogue write on any path", n.loc())
                # receiver: exclusive access after try_unwrap
                if e[3] is None or not has_call(e[3], "std::sync::Arc::try_unwrap"):
                    rep.violation("R7.3", "close/epilogue-writer", "epilogue is not written through the writer recovered by Arc::try_unwrap", n.loc())
                else:
                    rep.ok("R7.3", "close/epilogue-writer", "written through Arc::try_unwrap(..).into_inner(): all StreamWriters are gone", n.loc())
            else:
                if get(cst, 'EPI') != {0}:
                    rep.violation("R7.3", "close/write-after-epilogue", "a write follows the epilogue", n.loc())
                else:
                    rep.ok("R7.3", "close/no-write-after-epilogue[%s]" % cls, "write happens before the epilogue", n.loc())
        if nm == E.EPILOGUE:
            a0, a1, a2 = (ir.peel(g.arg(n, i)) for i in range(3))
            ok0 = a0[0] == 'call' and a0[1].endswith("::get") and any(x[0] == 'field' and x[2] == 'request_id' for x in ir.walk(a0))
            # the status parameter of close (captured by the coroutine): resolves to close()'s caller argument
            ok1 = all(ir.peel(x)[0] in ('constdef', 'field') for x in (a1[1] if a1[0] == 'phi' else [a1]))
            alts = list(a2[1]) if a2[0] == 'phi' else [a2]
            kinds = set()
            for a in alts:
                a = ir.peel(a)
                if a[0] == 'call' and a[1] == "protocol::fields::Role::output_streams":
                    kinds.add('streams')
                elif a[0] == 'agg' and a[1] == 'array' and len(a[3]) == 0:
                    kinds.add('empty')
                elif a[0] == 'cast' and ir.peel(a)[0] == 'agg':
                    kinds.add('empty')
                else:
                    kinds.add(ir.show(a)[:60])
            close_status = set()
            for k2 in g.all_nodes():
                if name_of(k2) == CLOSE:
                    close_status.add(ir.peel(g.arg(k2, 1)))
            if a1 not in close_status:
                rep.violation("R7.3", "close/epilogue-status", "epilogue status is not close()'s status argument: " + ir.show(a1)[:100], n.loc())
            else:
                rep.ok("R7.3", "close/epilogue-status", "status = the `status` argument of close() (handler's value or ABORT, R7.2)", n.loc())
            if not ok0:
                rep.violation("R7.3", "close/epilogue-id", "epilogue id is not the request's request_id: " + ir.show(a0)[:100], n.loc())
            else:
                rep.ok("R7.3", "close/epilogue-id", "id = parser.request.request_id.get()", n.loc())
            if kinds != {'streams', 'empty'}:
                rep.violation("R7.3", "close/epilogue-streams", "stream list is %s, expected output_streams() or empty" % sorted(kinds), n.loc())
            else:
                rep.ok("R7.3", "close/epilogue-streams", "stream list is role.output_streams() or empty", n.loc())
        if nm == "protocol::fields::Role::output_streams" and in_close(n):
            if "W" not in st:
                rep.violation("R7.3", "close/streams-iff-writeable", "output stream end records selected without testing `writeable`", n.loc())
            else:
                rep.ok("R7.3", "close/streams-iff-writeable", "output_streams() only on the true edge of the writeable test", n.loc())
        if e is not None and e[0] == 'HANDOFF' and e[1] == E.INTO_REQ:
            if "KEEP" not in st:
                rep.violation("R7.4", "close/reuse-iff-keepconn", "into_request_parser reachable without flags.contains(KeepConn) being true", n.loc())
            else:
                rep.ok("R7.4", "close/reuse-iff-keepconn", "into_request_parser only on the true edge of flags.contains(KeepConn)", n.loc())
            if get(cst, 'EPI') != {1}:
                rep.violation("R7.3", "close/epilogue-before-reuse", "parser handed back with %s epilogue write(s)" % sorted(get(cst, 'EPI')), n.loc())
            else:
                rep.ok("R7.3", "close/epilogue-before-reuse", "exactly one completed epilogue write precedes the hand-back", n.loc())
        # success returns of close: exactly one epilogue
        if n.term["k"] == "return" and n.frame.body.npath.startswith("async_io::Request::close::{closure"):
            sh = g._known(n.tag).get(0)
            if sh is not None and sh[0] == 0:
                if get(cst, 'EPI') != {1}:
                    rep.violation("R7.3", "close/ok-return-epilogue-count", "close() can return Ok after %s epilogue write(s)" % sorted(get(cst, 'EPI')), n.loc())
                else:
                    rep.ok("R7.3", "close/ok-return-epilogue-count", "Ok return only after exactly one epilogue write", n.loc())
    rep.floor("R7.3", "epilogue write sites", epi_writes, 1)

    # ---- R7.4: false edge of KeepConn returns ConnectionReset; loop re-entry uses close's Ok payload ----
    for n in g.all_nodes():
        if n.term["k"] != "switch":
            continue
        de = ev.switch_expr(n)
        x = ir.peel(de) if de is not None else None
        if x is not None and x[0] == 'call' and x[1].endswith("::contains") and len(x[2]) == 2:
            a1 = ir.peel(x[2][1])
            if a1[0] == 'constdef' and a1[1].endswith("KeepConn"):
                for (m, lab) in g.succ[n.key]:
                    if lab == ('case', 0):
                        events, rets = common.frame_paths_to_return(g, ev, m, lambda k: (ev.at(k) or ('',))[0] in ('READ', 'WRITE', 'PARSE', 'HANDLER', 'HANDOFF'))
                        kinds = common.error_kind_on_path(g, m)
                        if events or kinds != {"ConnectionReset"} or not rets:
                            rep.violation("R7.4", "close/no-keepconn-closes", "without KeepConn close() must return ConnectionReset with no further event (got %s, events %d)" % (sorted(kinds), len(events)), n.loc())
                        else:
                            rep.ok("R7.4", "close/no-keepconn-closes", "false edge returns Err(ConnectionReset) with no further event", n.loc())
    for n in g.all_nodes():
        nm = name_of(n)
        if nm and nm in common.preamble_fns(facts) and n.frame is g.root:
            a0 = ir.peel(g.arg(n, 0))
            alts = list(a0[1]) if a0[0] == 'phi' else [a0]
            kinds = set()
            for a in alts:
                a = ir.peel(a)
                if a[0] == 'call' and a[1] == E.REQ_NEW:
                    kinds.add('new')
                elif any(x[0] == 'variant' for x in ir.walk(a)) and any(
                        x[0] == 'call' and 'Instrumented' in x[1] for x in ir.walk(a)):
                    kinds.add('close-ok')
                else:
                    kinds.add(ir.show(a)[:80])
            if kinds != {'new', 'close-ok'}:
                rep.violation("R7.4", "run/next-preamble-parser", "preamble phase is entered with %s" % sorted(kinds), n.loc())
            else:
                rep.ok("R7.4", "run/next-preamble-parser", "parser is Parser::new (first request) or the value returned by close() via Some(..)", n.loc())


def run_handoff(rep, facts):
    """R7.5: the parser-level hand-over used for connection reuse keeps exactly the unread suffix (rules of C05, re-evaluated)."""
    import check as _check
    from . import c05
    rep.rule("R7.5", "connection reuse hands the unread input to the next request parser correctly even when the handler left input unread: record-boundary guard, discard of buffered stream data, compaction, then the hand-over of free_start (R5.3)")
    sr = _check.Report("tmp", "quick")
    c05.run(sr, facts)
    for i in sr.instances:
        if i["instance"] in ("into_request_parser", "request-constructor", "into_stream_parser", "stream-constructor"):
            (rep.ok if i["status"] == "ok" else rep.violation)("R7.5", i["instance"], i["detail"], i["loc"])


def run_stream_switch(rep, facts):
    """R7.7: what close() relies on when it calls set_stream(None) (and the handler, when it advances the active stream): the rest of
    the old stream's current record is skipped, never delivered as data of the new selection (rules of C18 / C05, re-evaluated)."""
    import check as _check
    from . import c18, c05
    rep.rule("R7.7", "a stream switch demotes a record of the old stream that is in flight (Stream -> Skip) on every path, whatever is buffered at that moment (R18.2); "
                     "and close() does not drive the parser at a record boundary, where buffered bytes belong to the next request (R5.5)")
    sr = _check.Report("tmp", "quick")
    c18.run(sr, facts)
    for i in sr.instances:
        if i["rule"] == "R18.2":
            (rep.ok if i["status"] == "ok" else rep.violation)("R7.7", i["instance"], i["detail"], i["loc"])
    sr = _check.Report("tmp", "quick")
    c05.run_async_handoff(sr, facts)
    for i in sr.instances:
        (rep.ok if i["status"] == "ok" else rep.violation)("R7.7", i["instance"], i["detail"], i["loc"])


def run_reply_flush(rep, facts):
    """R7.8: "after all pending management replies": the reply buffer is drained by exactly what the transport accepted (rule R10.5,
    re-evaluated) -- progress kept anywhere else is lost when a write is Pending, and the reply's prefix is sent twice, after which
    the client cannot frame the epilogue."""
    import check as _check
    from . import c10
    rep.rule("R7.8", "management replies pending at the epilogue reach the client exactly once: every consume_output(n) discards the byte count the "
                     "preceding write of output_buffer() returned, or the whole buffer right after write_all completed (R10.5)")
    sr = _check.Report("tmp", "quick")
    c10.run(sr, facts)
    n = 0
    for i in sr.instances:
        if i["rule"] == "R10.5":
            n += 1
            (rep.ok if i["status"] == "ok" else rep.violation)("R7.8", i["instance"], i["detail"], i["loc"])
    rep.floor("R7.8", "consume_output sites", n, 3)


def run_input_delivery(rep, facts):
    """R7.9: "sees exactly that request's input streams ... for every way the transport delays reads and writes": in the async read
    interfaces nothing that can return Pending / Err runs between a productive parse and returning its count, and transport counts
    are committed before any return (rules R9.3 / R9.7 of C09, re-evaluated)."""
    import check as _check
    from . import c09
    rep.rule("R7.9", "what the handler reads is exactly the request's input stream when the write side is delayed: no Pending / Err exit between a productive "
                     "parse and returning its count (R9.3); every transport byte count reaches Parser::parse before any return (R9.7)")
    sr = _check.Report("tmp", "quick")
    c09.run(sr, facts)
    n = 0
    for i in sr.instances:
        if i["rule"] in ("R9.3", "R9.7"):
            n += 1
            (rep.ok if i["status"] == "ok" else rep.violation)("R7.9", i["instance"], i["detail"], i["loc"])
    rep.floor("R7.9", "async delivery rules", n, 4)


def run_own_lock_released(rep, facts):
    """R7.10: close() takes the transport back with Arc::try_unwrap(self.output).  The request itself may still hold a clone of that Arc inside its
    lock future (a flush of management replies that returned Pending and was abandoned): unless close() releases `self.lock` first,
    try_unwrap fails although every StreamWriter is gone -- no epilogue, no EndRequest, the connection is dropped."""
    rep.rule("R7.10", "on every path of close() to Arc::try_unwrap(self.output) the request's own lock future was released before (drop(self.lock) / lock = None): "
                      "a flush abandoned while Pending must not keep the writer shared")
    b = facts.body("async_io::Request::close::{closure#0}", required=False)
    if b is None:
        rep.undecidable("R7.10", "close/own-lock-released", "close() has no coroutine body")
        return
    g = ieg.IEG(facts, b, inline_filter=lambda x: facts.is_new_helper(x.npath))

    def lock_place(e):
        e = ir.peel(e)
        while e[0] in ('ref', 'deref'):
            e = ir.peel(e[1])
        return e[0] == 'field' and e[2] == 'lock'

    def effect(n, m, lab):
        gens = set()
        t = n.term
        if t["k"] == "call" and (g.callee(n) or "").endswith("mem::drop") and t["args"] and lock_place(g.arg(n, 0)):
            gens.add("REL")
        if t["k"] == "call" and (g.callee(n) or "").endswith("Option::take") and t["args"] and lock_place(g.arg(n, 0)):
            gens.add("REL")
        if t["k"] == "drop" and any(el.get("n") == "lock" for el in t.get("place", {}).get("p", [])):
            gens.add("REL")
        for st_ in n.stmts:
            if st_["k"] == "assign" and any(el.get("n") == "lock" for el in st_["place"].get("p", [])) and not any("f" in el and el.get("n") != "lock" for el in st_["place"].get("p", [])):
                gens.add("REL")     # self.lock = None / a fresh value: the old future (and its Arc) is dropped
        return gens, set()
    must = common.must_dataflow(g, frozenset(), effect)
    n_un = 0
    for n in g.all_nodes():
        if n.term["k"] == "call" and (g.callee(n) or "") == "std::sync::Arc::try_unwrap" and n.key in must:
            n_un += 1
            if "REL" in must[n.key]:
                rep.ok("R7.10", "close/own-lock-released", "self.lock is released on every path before Arc::try_unwrap(self.output)", n.loc())
            else:
                rep.violation("R7.10", "close/own-lock-released", "Arc::try_unwrap(self.output) can be reached while the request's own lock future is still alive: after an abandoned "
                              "Pending flush it holds a clone of the Arc, close() fails with \"StreamWriter(s) not dropped\" and no EndRequest is sent", n.loc())
    rep.floor("R7.10", "try_unwrap sites in close()", n_un, 1)


def run_compaction(rep, facts):
    from . import c12
    rep.rule("R7.6", "while draining to a record boundary (and in every in-request read) the buffer is compacted before reading, so a handler that left a large record unread cannot make close() fail for lack of buffer space")
    g, ev = common.build(facts, RUN)
    n = c12.check_compaction(rep, g, ev, "run", rule="R7.6")
    rep.floor("R7.6", "in-request reads reachable from run", n, 2)


def main(rep, tier):
    import check
    import facts as F
    f = F.load(("async", "http"))
    check.guard(rep, "R7.5", run_handoff, f)
    check.guard(rep, "R7.6", run_compaction, f)
    check.guard(rep, "R7.7", run_stream_switch, f)
    check.guard(rep, "R7.8", run_reply_flush, f)
    check.guard(rep, "R7.9", run_input_delivery, f)
    check.guard(rep, "R7.10", run_own_lock_released, f)
    rep.configs.append({"features": "async,http", "profile": "debug", "bodies": len(f.bodies)})
    check.guard(rep, "R7", run, f)
    import check as _c
    _c.witnesses(rep, "C07", f)
    return rep.finish(
        "Ordering and provenance rules over the interprocedural event graph of Token::run (with Request::close, writeable, "
        "record_boundary inlined): handler-call counting per constructed Request, status provenance, epilogue preconditions and "
        "uniqueness, reuse decision; the async read path never drops delivered input when the write side is delayed (R7.9).",
        not_decided="byte-level correctness of the output for every transport split (C10/C17 cover framing and encoding); that the handler sees exactly the request's environment and streams beyond the necessary conditions R7.5-R7.9 (C01/C02/C09)")
