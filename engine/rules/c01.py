"""C01 — request preamble decoding: structural clauses (R1.1–R1.5)."""
import check
import facts as F
import ir
import ieg
import paths
import dispatch
from . import c04, common
from .c17 import variant_of, agg_field, cv, nonconst_conds, case_value

REQ = "parser::Request"
FROM_COMPACT = "cgi::OwnedVarName::from_compact"
LOSSY = "compact_str::CompactString::from_utf8_lossy"


def key_ok(e, facts, depth=0):
    """Does a map-key expression derive from from_compact(from_utf8_lossy(raw name bytes))?"""
    e0 = e
    for x in ir.walk(e):
        if x[0] == 'call' and x[1] == FROM_COMPACT and x[2]:
            a = ir.peel(x[2][0])
            if a[0] == 'call' and a[1] == LOSSY:
                return True
    # through a crate-local helper: look inside it
    for x in ir.walk(e0):
        if x[0] == 'call' and depth < 3:
            b = facts.by_npath.get(x[1], [])
            if len(b) == 1 and b[0].npath.startswith("parser::"):
                g = ieg.IEG(facts, b[0], inline_filter=lambda y: False)
                rows = [r for r in paths.rows(g, max_paths=20000) if r.end == 'return' and r.ret is not None]
                if rows and all(key_ok(r.ret, facts, depth + 1) for r in rows):
                    return True
    return False


def run(rep, facts):
    rep.rule("R1.1", "every key inserted into the request environment is OwnedVarName::from_compact(CompactString::from_utf8_lossy(name bytes)): lossy UTF-8 decoding, then ASCII upper-casing (R19.5)")
    rep.rule("R1.2", "the environment map is mutated only through overwriting APIs (insert / extend: last value wins); no entry API, try_insert, removal, retain or clearing")
    rep.rule("R1.3", "Request::new receives NonZeroU16::new(header request id) and BeginRequest::from_bytes(body bytes) and copies role and flags into the same-named fields; BeginRequest::from_bytes takes role from bytes 0..2 and flags from byte 2")
    rep.rule("R1.4", "Params dispatch rows: own id and empty record => done (after padding); own id and non-empty => continue with (content_length, padding_length); anything else never touches the map")
    rep.rule("R1.5", "frame-length provenance in all framing implementations: a payload counter is only assigned the header's content_length, itself minus a consumed amount, or 0; a padding counter likewise from padding_length (never crossed)")

    # ---- R1.1 / R1.2: map mutations ------------------------------------------------------------------------
    acc = F.field_accesses(facts, REQ, "params")
    mutating = {}
    for (b, bi, how, sp) in acc:
        if how.startswith("ref:ref:mut") or how == "write" or how.startswith("arg:move") or how.startswith("read:move"):
            mutating.setdefault(b.path, (b, []))[1].append((bi, how, sp))
    nmut = 0
    # a private accessor introduced later (`fn params_mut(&mut self) -> &mut HashMap<..> { &mut self.params }`) stands for the field
    accessors = set()
    for path_, (b, sites) in list(mutating.items()):
        if facts.is_new_helper(b.npath):
            r0 = ir.Resolver(b)
            rets = [ir.peel(r0.operand({"copy": {"l": 0}}, (bi, -1))) for bi, blk in enumerate(b.blocks) if blk["t"]["k"] == "return"]
            if rets and all(x[0] == 'field' and x[2] == 'params' and ir.peel(x[1])[0] == 'param' for x in rets):
                accessors.add(b.npath)
                for (cb, cbi, t_, nm_) in F.calls_to(facts, lambda n, _p=b.npath: n == _p):
                    mutating.setdefault(cb.path, (cb, []))
    for path_, (b, sites) in sorted(mutating.items()):
        if b.npath == REQ + "::new" or "Clone" in b.npath or "fmt" in b.npath or "PartialEq" in b.npath or b.npath in accessors:
            continue
        g = ieg.IEG(facts, b, inline_filter=lambda x: False)
        for n in g.all_nodes():
            t = n.term
            if t["k"] != "call" or n.noise() or not t["args"]:
                continue
            recv = ir.peel(g.arg(n, 0))
            if not ((recv[0] == 'field' and recv[2] == 'params') or (recv[0] == 'call' and recv[1] in accessors)):
                continue
            name = g.callee(n) or ""
            m = name.split("::")[-1]
            nmut += 1
            key = "%s/%s" % (b.npath, m)
            if m == "insert":
                k = g.arg(n, 1)
                if key_ok(k, facts):
                    rep.ok("R1.1", key, "key = from_compact(from_utf8_lossy(name))", n.loc())
                else:
                    rep.violation("R1.1", key, "a key reaches the environment without lossy decoding + upper-casing: %s" % ir.show(k)[:80], n.loc())
                rep.ok("R1.2", key, "HashMap::insert overwrites (last value wins)", n.loc())
            elif m == "extend":
                it = g.arg(n, 1)
                # the iterator is `map(closure)` whose closure builds (key, value)
                cl = [x for x in ir.walk(it) if x[0] == 'agg' and x[1] == 'closure']
                okk = False
                for c in cl:
                    cb = facts.by_path.get(c[2])
                    if cb is None:
                        continue
                    cg = ieg.IEG(facts, cb, inline_filter=lambda x: False)
                    rs = [r for r in paths.rows(cg) if r.end == 'return' and r.ret is not None]
                    okk = bool(rs) and all(ir.peel(r.ret)[0] == 'agg' and key_ok(ir.peel(r.ret)[3][0][1], facts) for r in rs)
                if okk:
                    rep.ok("R1.1", key, "extend(.. map(|(n, v)| (from_compact(from_utf8_lossy(n)), v)))", n.loc())
                else:
                    rep.violation("R1.1", key, "keys added by extend are not normalised", n.loc())
                rep.ok("R1.2", key, "HashMap::extend overwrites (last value wins)", n.loc())
            elif m in ("get", "contains_key", "len", "iter", "is_empty", "get_key_value"):
                continue
            else:
                rep.violation("R1.2", key, "the environment is modified through %s: not a last-value-wins overwrite" % name, n.loc())
    rep.floor("R1.2", "mutating calls on the environment map", nmut, 2)

    # ---- R1.3 ---------------------------------------------------------------------------------------------
    sr = check.Report("tmp", "quick")
    c04.r4_1_tables(sr, facts)
    for i in sr.instances:
        inst = i["instance"]
        if inst == "header/begin-ok":
            (rep.ok if i["status"] == "ok" else rep.violation)("R1.3", inst, i["detail"], i["loc"])
        if inst in ("params/params-data", "params/params-end", "params/params-foreign"):
            (rep.ok if i["status"] == "ok" else rep.violation)("R1.4", inst, i["detail"], i["loc"])
        elif i["status"] != "ok" and inst.startswith("params/"):
            # any other record met during the Params stream must leave the preamble decoding where it was
            rep.violation("R1.4", inst, i["detail"], i["loc"])
        elif i["status"] != "ok" and inst.startswith("header/"):
            rep.violation("R1.3", inst, i["detail"], i["loc"])
    nb = facts.body(REQ + "::new")
    ok = False
    for (b, bi, si, st) in F.aggregates_of(facts, REQ):
        if b is nb:
            r = ir.Resolver(b)
            f = {k: ir.peel(r.operand(v, (bi, si))) for k, v in zip(st["rv"]["fields"], st["rv"]["ops"])}
            ok = f["request_id"][0] == 'param' and f["role"][0] == 'field' and f["role"][2] == 'role' and f["flags"][0] == 'field' and f["flags"][2] == 'flags'
    (rep.ok if ok else rep.violation)("R1.3", "request-new", "request_id <- id, role <- body.role, flags <- body.flags" if ok else "Request::new does not copy id / role / flags into the same-named fields", nb.loc())
    # the dispatch's body slice is bytes 8..16 of the same buffer
    hb = dispatch.find_sites(facts).get('header')
    if hb is not None:
        g = ieg.IEG(facts, hb, inline_filter=lambda x: False)
        okb = False
        for n in g.all_nodes():
            if n.term["k"] == "call" and g.callee(n) == dispatch.BEGIN_FROM_BYTES:
                a = g.arg(n, 0)
                rng = [y for y in ir.walk(a) if y[0] == 'agg' and y[2].endswith("Range")]
                if rng:
                    bd = dict(rng[0][3])
                    okb = cv(bd['start']) == 8
        (rep.ok if okb else rep.violation)("R1.3", "begin-body-slice", "BeginRequest::from_bytes(data[8..16])" if okb else "the BeginRequest body is not taken from bytes 8..16", hb.loc())

    # ---- R1.5 ---------------------------------------------------------------------------------------------
    n_w = 0
    bad = []
    for b in facts.bodies:
        # C01 speaks about the request parser (the preamble); the stream parser's framing is C02's / C03's subject
        if b.promoted or not b.npath.startswith("parser::request::"):
            continue
        has = any(st["k"] == "assign" and any(el.get("n") in ("payload_rem", "padding_rem") for el in st["place"].get("p", []))
                  for blk in b.blocks for st in blk["st"])
        if not has:
            continue
        g = ieg.IEG(facts, b, inline_filter=lambda x: False)
        for r in paths.rows(g, max_paths=40000):
            for (pl, val, nd, s_) in r.writes:
                if pl[0] != 'field' or pl[2] not in ("payload_rem", "padding_rem"):
                    continue
                n_w += 1
                kind = "payload" if pl[2] == "payload_rem" else "padding"
                other = "padding" if kind == "payload" else "payload"
                v = ir.peel(val)
                crossed = False
                okv = False
                if cv(v) == 0:
                    okv = True
                w = dispatch.wire_field(v)
                want_w = "content_length" if kind == "payload" else "padding_length"
                if w == want_w:
                    okv = True
                # the same field of a decoded header handed to a helper as a parameter
                if v[0] == 'field' and str(v[2]) == want_w and ir.peel(v[1])[0] == 'param':
                    okv = True
                b2 = v
                if b2[0] == 'field' and str(b2[2]) == '0' and ir.peel(b2[1])[0] == 'bin':
                    b2 = ir.peel(b2[1])
                if b2[0] == 'bin' and b2[1].startswith('Sub') and ir.peel(b2[2]) == pl:
                    okv = True
                if any(y[0] == 'call' and y[1].endswith("checked_sub") and any(z[0] == 'field' and z[2] == pl[2] for z in ir.walk(y[2][0])) for y in ir.walk(v)):
                    okv = True
                loc = "%s:%d" % (s_["sp"]["f"], s_["sp"]["l"])
                if crossed or not okv:
                    bad.append((b.npath, pl[2], ir.show(v)[:70], loc))
    # aggregates that initialise the counters
    for adt in ("parser::request::SkipState", "parser::request::GetValuesState", "parser::request::ParamsState"):
        for (b, bi, si, st) in F.aggregates_of(facts, adt):
            if b.raw.get("impl_trait") and F.norm(b.raw["impl_trait"]) == "std::clone::Clone":
                continue
            r = ir.Resolver(b)
            f = dict(zip(st["rv"]["fields"], st["rv"]["ops"]))
            for fld, wirename in (("payload_rem", "content_length"), ("padding_rem", "padding_length")):
                if fld not in f:
                    continue
                n_w += 1
                v = ir.peel(r.operand(f[fld], (bi, si)))
                def via_decode_helper(e):
                    # the same field of the header decoded by a helper introduced later (it wraps RecordHeader::from_bytes)
                    return any(y[0] == 'call' and facts.is_new_helper(y[1]) and any(
                        dispatch.FROM_BYTES in dispatch.effective_calls(facts, hb) for hb in facts.by_npath.get(y[1], [])) for y in ir.walk(e))
                okv = cv(v) == 0 or dispatch.wire_field(v) == wirename or (v[0] == 'param' and v[2] == fld) \
                    or (v[0] == 'field' and str(v[2]) == wirename and ir.peel(v[1])[0] == 'param') \
                    or (v[0] == 'field' and str(v[2]) == wirename and via_decode_helper(v[1]))
                if not okv:
                    bad.append((b.npath, fld, ir.show(v)[:70], "%s:%d" % (st["sp"]["f"], st["sp"]["l"])))
    if bad:
        for (fn, fld, v, loc) in bad[:6]:
            rep.violation("R1.5", "%s/%s" % (fn, fld), "%s is assigned %s: not the header's matching length field, itself minus a consumed amount, or 0" % (fld, v), loc)
    else:
        rep.ok("R1.5", "frame-counters", "%d assignments / initialisations of payload and padding counters across the framing implementations all have the permitted provenance" % n_w)
    rep.floor("R1.5", "assignments to frame counters", n_w, 20)
    # into_skip / GetValuesState::new argument order at the dispatch sites: (content_length, padding_length)
    for i in sr.instances:
        if i["status"] != "ok" and "remaining p" in i["detail"] and not i["instance"].startswith("stream/"):
            rep.violation("R1.5", "dispatch/" + i["instance"], i["detail"], i["loc"])


def run_buffer_premise(rep, facts):
    """R1.6: the statement's premise "provided the buffer satisfies the documented size bound" speaks about the configured size; the parser
    must really allocate at least that much (rules of C06, re-evaluated)."""
    from . import c06
    rep.rule("R1.6", "the request parser's buffer is config.aligned_bufsize() bytes and that is never below config.buffer_size (R6.1, R6.3)")
    sr = check.Report("tmp", "quick")
    c06.run(sr, facts)
    for i in sr.instances:
        if i["rule"] in ("R6.1", "R6.3"):
            (rep.ok if i["status"] == "ok" else rep.violation)("R1.6", i["instance"], i["detail"], i["loc"])


def run_cross_record(rep, facts):
    """R1.7: "does not depend on how the Params payload is cut into records": a pair that crosses a record boundary is carried over in the
    heap-side pair buffer; the framing code and the decoder must agree on how many input bytes went there (rules of C06, re-evaluated)."""
    from . import c06
    rep.rule("R1.7", "cross-record reassembly accounting: rec_end is passed exactly for a complete payload, and parse_stream / parse_buffered report as consumed "
                     "exactly the bytes they moved into the pair buffer or decoded (R6.4, R6.5)")
    sr = check.Report("tmp", "quick")
    c06.run_record_end(sr, facts)
    n = 0
    for i in sr.instances:
        if i["rule"] in ("R6.4", "R6.5"):
            n += 1
            (rep.ok if i["status"] == "ok" else rep.violation)("R1.7", i["instance"], i["detail"], i["loc"])
    rep.floor("R1.7", "record-end rules", n, 2)


PSI = "parser::request::ParamsStateInner"
EMPTYING = ("clear", "truncate", "drain", "split_off", "set_len", "take", "replace", "swap")


def run_pair_buffer_not_discarded(rep, facts):
    """R1.10: "an environment equal to the last-value-wins map of the transmitted name-value pairs ... does not depend on how the Params payload is
    cut into records": the bytes in the pair buffer of the Params state are the beginning of a transmitted pair that crosses a record boundary.
    In every function that empties that buffer, an insertion into the environment happened on every path to the emptying call -- a path that
    clears, truncates, drains or replaces the buffer without having inserted drops a transmitted pair for exactly those cuts that split it."""
    rep.rule("R1.10", "the pair buffer of the Params state (bytes of a pair that crosses a record boundary) is emptied only on paths that inserted the pair into the environment")
    acc = F.field_accesses(facts, PSI, "buffer")
    bodies = {}
    for (b, bi, how, sp) in acc:
        if not b.promoted:
            bodies.setdefault(b.path, b)
    n_sites = 0
    for path_, b in sorted(bodies.items()):
        if "Clone" in b.npath or "fmt" in b.npath or b.npath == PSI + "::new":
            continue
        g = ieg.IEG(facts, b, inline_filter=lambda x: False)

        def is_buf(e):
            e = ir.peel(e)
            return e[0] == 'field' and e[2] == 'buffer'

        def is_params(e):
            e = ir.peel(e)
            return e[0] == 'field' and e[2] == 'params'
        sites = []
        for n in g.all_nodes():
            t = n.term
            if t["k"] != "call" or n.noise() or not t["args"]:
                continue
            m = (g.callee(n) or "").split("::")[-1]
            if m in EMPTYING and any(is_buf(g.arg(n, k)) for k in range(min(2, len(t["args"])))):
                sites.append(n)

        def effect(n, m_, lab):
            t = n.term
            if t["k"] == "call" and t["args"] and not n.noise():
                m = (g.callee(n) or "").split("::")[-1]
                if m in ("insert", "extend") and is_params(g.arg(n, 0)):
                    return {"INS"}, set()
            return set(), set()
        if not sites:
            continue
        ins = common.must_dataflow(g, frozenset(), effect)
        for n in sites:
            n_sites += 1
            key = "%s/%s" % (b.npath.replace("parser::request::", ""), (g.callee(n) or "").split("::")[-1])
            if n.key in ins and "INS" in ins[n.key]:
                rep.ok("R1.10", key, "the pair was inserted on every path to this call", n.loc())
            else:
                rep.violation("R1.10", key, "the pair buffer is emptied on a path that never inserted the pair it holds: a transmitted name-value pair whose bytes straddle a record "
                              "boundary is dropped", n.loc())
    rep.floor("R1.10", "calls that empty the pair buffer", n_sites, 1)


def run_finished_stays_finished(rep, facts):
    """R1.9: the decoded request survives whatever is fed after the preamble: a call on a parser that is already done leaves the Done state
    alone -- in particular the buffer-full test (StuckOnInput) is taken only for a parser that is not done (instances of R6.2, re-evaluated)."""
    from . import c06
    rep.rule("R1.9", "once the preamble is decoded, later parse() calls (look-ahead filling the buffer) do not replace the finished request: a final state is reported as "
                     "done without touching the state, StuckOnInput is stored only for an unfinished parser (R6.2)")
    sr = check.Report("tmp", "quick")
    c06.run(sr, facts)
    n = 0
    for i in sr.instances:
        if i["rule"] == "R6.2" and i["instance"].startswith("parse/"):
            n += 1
            (rep.ok if i["status"] == "ok" else rep.violation)("R1.9", i["instance"], i["detail"], i["loc"])
    rep.floor("R1.9", "stuck-verdict instances", n, 1)


def run_next_preamble(rep, facts):
    """R1.8: on a kept connection the next preamble is decoded by a request parser built from the stream parser's buffer: it must start at
    exactly the unread input (rules of C05, re-evaluated)."""
    from . import c05
    rep.rule("R1.8", "the request parser for the next request of a connection starts at the unread input: into_request_parser hands over the unparsed bytes at [0, n) "
                     "and the constructor stores that buffer and length (R5.3)")
    sr = check.Report("tmp", "quick")
    c05.run(sr, facts)
    n = 0
    for i in sr.instances:
        if i["rule"] == "R5.3" and i["instance"] in ("into_request_parser", "request-constructor"):
            n += 1
            (rep.ok if i["status"] == "ok" else rep.violation)("R1.8", i["instance"], i["detail"], i["loc"])
    rep.floor("R1.8", "hand-over rules", n, 2)


def main(rep, tier):
    f = F.load(("async", "http"))
    rep.configs.append({"features": "async,http", "profile": "debug", "bodies": len(f.bodies)})
    check.guard(rep, "R1", run, f)
    check.guard(rep, "R1.6", run_buffer_premise, f)
    check.guard(rep, "R1.7", run_cross_record, f)
    check.guard(rep, "R1.8", run_next_preamble, f)
    check.guard(rep, "R1.9", run_finished_stays_finished, f)
    check.guard(rep, "R1.10", run_pair_buffer_not_discarded, f)
    rep.floor("R1", "rule instances", len([i for i in rep.instances if i["status"] == "ok"]), 10)
    import check as _c
    _c.witnesses(rep, "C01", f)
    return rep.finish(
        "Necessary conditions taken from the statement's wording: key normalisation provenance, last-value-wins mutation API, id / role / "
        "flags provenance, Params dispatch rows (incl. the drive-loop verdict), frame-length field provenance (never crossed) in the request parser's framing, "
        "cross-record reassembly accounting, buffer-size premise, start of the next preamble at the unread input.",
        not_decided="equality of the decoded environment with the last-value-wins map for every record cut, read cut and buffer size (cross-record reassembly arithmetic in parse_buffered / try_fill!)")
