"""C09 — async reads deliver exactly the active stream; output gated on the final stream (R9.1–R9.6)."""
import check
import facts as F
import ir
import ieg
import events as E
from . import common
from .c17 import variant_of, agg_field, cv

ENTRIES = [
    ("poll_read", "<async_io::Request as futures_util::AsyncRead>::poll_read"),
    ("poll_fill_buf", "<async_io::Request as futures_util::AsyncBufRead>::poll_fill_buf"),
    ("writeable", "async_io::Request::writeable::{closure#0}"),
]
LOCK_POLL = "async_io::util::RepeatableLockFuture::poll"


def no_util(b):
    p = b.npath
    return (p.startswith("async_io::") or p.startswith("<async_io::")) and not p.startswith("async_io::util::")


def min_copy_amount(g, cnt):
    """Is `cnt` = min(len(dest), len(stream_buffer())) and is exactly that many bytes copied, dest[..cnt] <- stream_buffer()[..cnt]
    (`copy_from_slice`; the explicit spelling of what `<&mut [u8] as Write>::write` does)?"""
    cnt = ir.peel(cnt)
    if not (cnt[0] == 'call' and cnt[1].endswith("::min") and len(cnt[2]) == 2):
        return False
    lens = [ir.peel(a) for a in cnt[2]]
    if not all(a[0] == 'call' and a[1].endswith("::len") and a[2] for a in lens):
        return False
    if not any(E.subject_class(a[2][0]) == 'stream_buf' for a in lens):
        return False
    for n in g.all_nodes():
        if n.term["k"] == "call" and not n.noise() and (g.callee(n) or "").endswith("copy_from_slice") and len(n.term["args"]) == 2:
            d, s_ = ir.peel(g.arg(n, 0)), ir.peel(g.arg(n, 1))
            def upto(x):
                if x[0] == 'call' and (x[1].endswith("index") or x[1].endswith("index_mut")) and len(x[2]) == 2:
                    rg = ir.peel(x[2][1])
                    if rg[0] == 'agg' and rg[2].endswith("RangeTo"):
                        return ir.peel(dict(rg[3]).get('end'))
                return None
            if upto(d) == cnt and upto(s_) == cnt and E.subject_class(s_) == 'stream_buf':
                return True
    return False


def check_entry(rep, facts, label, entry, counters):
    body = facts.body(entry)
    g = ieg.IEG(facts, body, inline_filter=no_util)
    ev = E.Events(g)
    rep.stats.setdefault("graphs", {})[label] = g.stats()

    def nm(n):
        return g.callee(n) if n.term["k"] == "call" and not n.noise() else None

    def parse_result_field(e, field):
        e = ir.peel(e)
        if e[0] == 'field' and e[2] == field:
            return any(y[0] == 'call' and y[1] == E.STR_PARSE for y in ir.walk(e[1]))
        return False

    # ---- R9.3: no exit between a parse that delivered data / reported the end and returning that result ------
    def effect(n, m, lab):
        gens, kills = set(), set()
        e = ev.at(n)
        if e is not None and e[0] == 'PARSE' and e[1] == 'str':
            kills.update(["A", "B"])
        if n.term["k"] == "switch":
            de = ev.switch_expr(n)
            if de is not None:
                x = ir.peel(de, casts=False)
                if parse_result_field(x, 'stream_end') and lab == ('case', 0):
                    gens.add("A")
                if x[0] == 'bin' and x[1] == 'Gt' and parse_result_field(x[2], 'stream') and cv(x[3]) == 0 and lab == ('case', 0):
                    gens.add("B")
                if x[0] == 'bin' and x[1] in ('Eq',) and parse_result_field(x[2], 'stream') and cv(x[3]) == 0 and isinstance(lab, tuple) and lab[0] == 'otherwise':
                    gens.add("B")
        return gens, kills
    must = common.must_dataflow(g, frozenset(["A", "B"]), effect)
    nexits = 0
    for n in g.all_nodes():
        if n.key not in must:
            continue
        e = ev.at(n)
        name = nm(n)
        is_exit = (e is not None and e[0] in ('READ', 'WRITE', 'FLUSH')) or name == LOCK_POLL
        if not is_exit:
            continue
        nexits += 1
        st = must[n.key]
        key = "%s/%s/%s-after-parse" % (label, common.fn_of(n), (e[0] if e else "LOCK"))
        if {"A", "B"} <= st:
            rep.ok("R9.3", key, "reached only before any parse or after the parse reported neither data nor end-of-stream", n.loc())
        else:
            rep.violation("R9.3", key, "an operation that can return Pending / Err runs after a parse whose delivered bytes or end-of-stream have not been returned yet (they would be lost)", n.loc())
    counters["exits"] += nexits

    # ---- R9.2: copy out of the stream buffer is paired with consume_stream(copied) -------------------------------
    for n in g.all_nodes():
        name = nm(n)
        if name == E.CONSUME_STREAM and common.fn_of(n) != "<async_io::Request as futures_util::AsyncBufRead>::consume":
            counters["consumes"] += 1
            a = ir.peel(g.arg(n, 1))
            src = [y for y in ir.walk(a) if y[0] == 'call' and (y[1].endswith("io::Write>::write") or y[1] == "std::io::Write::write" or y[1].endswith("::write"))]
            okp = False
            for w in src:
                if len(w[2]) == 2 and E.subject_class(w[2][1]) == 'stream_buf':
                    okp = True
            if not okp and min_copy_amount(g, a):
                okp = True
            if okp:
                rep.ok("R9.2", "%s/consume-what-was-copied" % label, "consume_stream(n) with n = result of copying stream_buffer() into the caller's buffer", n.loc())
            else:
                rep.violation("R9.2", "%s/consume-what-was-copied" % label, "consume_stream(%s): not the number of bytes just copied out of stream_buffer()" % ir.show(a)[:60], n.loc())
    # every copy out of the stream buffer is followed by a consume_stream on every path
    for n in g.all_nodes():
        name = nm(n)
        if name and name.endswith("::write") and len(n.term["args"]) == 2 and E.subject_class(g.arg(n, 1)) == 'stream_buf':
            counters["copies"] = counters.get("copies", 0) + 1
            events, rets = common.frame_paths_to_return(g, ev, n, lambda k: k is not n and nm(k) == E.CONSUME_STREAM)
            if rets:
                rep.violation("R9.2", "%s/copy-then-consume" % label, "bytes are copied out of stream_buffer() but not consumed on some path (they would be delivered again)", n.loc())
            else:
                rep.ok("R9.2", "%s/copy-then-consume" % label, "every path after the copy reaches consume_stream before returning", n.loc())
    return g, ev


def check_returns(rep, facts):
    """R9.1/R9.3: what poll_input reports as its byte count on success."""
    b = facts.body("async_io::Request::poll_input")
    g = ieg.IEG(facts, b, inline_filter=lambda x: False)
    kinds = set()
    bad = []
    for n in g.all_nodes():
        if n.frame is not g.root:
            continue        # return values of helpers are not poll_input's results (they reach them only through the lifted expressions)
        for si, st in enumerate(n.stmts):
            if st["k"] == "assign" and st["place"]["l"] == 0 and "p" not in st["place"] and st["rv"]["k"] == "agg" and st["rv"].get("vn") == "Ready":
                v = g.lift(n.frame, n.frame.res.rvalue(st["rv"], (n.bb, si)))
                inner = ir.peel(agg_field(v, 0))
                if variant_of(inner) != 'Ok':
                    continue
                cnt0 = ir.peel(ir.simplify(agg_field(inner, 0)))
                for cnt in ([ir.peel(x) for x in cnt0[1]] if cnt0[0] == 'phi' else [cnt0]):
                    if cv(cnt) == 0:
                        kinds.add('zero')
                    elif cnt[0] == 'field' and cnt[2] == 'stream' and any(y[0] == 'call' and y[1] == E.STR_PARSE for y in ir.walk(cnt)):
                        kinds.add('parse-count')
                    elif any(y[0] == 'call' and y[1].endswith("::write") and len(y[2]) == 2 and E.subject_class(y[2][1]) == 'stream_buf' for y in ir.walk(cnt)):
                        kinds.add('copy-count')
                    elif min_copy_amount(g, cnt):
                        kinds.add('copy-count')
                    else:
                        bad.append(ir.show(cnt)[:60])
    if bad or not {'parse-count', 'copy-count', 'zero'} <= kinds:
        rep.violation("R9.3", "poll_input/reported-count", "success counts are %s (+%s); expected {0, bytes copied from the stream buffer, status.stream of the parse}" % (sorted(kinds), bad), b.loc())
    else:
        rep.ok("R9.3", "poll_input/reported-count", "Ready(Ok(n)): n is 0 (nothing asked / already buffered), the bytes copied out of stream_buffer(), or status.stream of the parse", b.loc())
    # the caller's buffer flows only into parse(_, Some(buf)) and the copy from stream_buffer()
    uses = []

    def scan(body, pidx, depth=0):
        """call sites that receive (something derived from) parameter `pidx` of `body`; helpers new to the tree are looked into"""
        r = ir.Resolver(body)
        for bi, blk in enumerate(body.blocks):
            t = blk["t"]
            if t["k"] == "call" and not t.get("sp", {}).get("n") and "path" in t["func"]:
                name = F.norm(t["func"]["res"]["path"] if t["func"].get("res") else t["func"]["path"])
                for ai, a in enumerate(t["args"]):
                    e = ir.peel(r.operand(a, (bi, -1)))
                    while e[0] in ('field', 'variant') or (e[0] == 'call' and (ir.is_transparent(e[1]) or e[1].endswith("as_deref_mut")) and e[2]):
                        e = ir.peel(e[1] if e[0] != 'call' else e[2][0])
                    if e[0] == 'param' and e[1] == pidx:
                        if ir.is_transparent(name) or name.endswith("as_deref_mut") or name.endswith("PtrMetadata"):
                            continue
                        if depth < 3 and facts.is_new_helper(name):
                            for cb in facts.by_npath.get(name, []):
                                scan(cb, ai + 1, depth + 1)
                            continue
                        uses.append((name, ai))
    scan(b, 3)      # poll_input(self, cx, dest)
    allowed = {(E.STR_PARSE, 2)}
    readonly = ("::len", "::is_empty", "index::index", "index::index_mut", "::index", "::index_mut")     # measuring / sub-slicing; the writes are the calls below
    extra = [u for u in uses if u not in allowed and not (u[0].endswith("::write") and u[1] == 0) and not (u[1] == 0 and u[0].endswith(readonly))]
    # an explicit copy into (a part of) the caller's buffer must come from stream_buffer()
    for n in g.all_nodes():
        if n.term["k"] == "call" and not n.noise() and (g.callee(n) or "").endswith("copy_from_slice") and len(n.term["args"]) == 2:
            if E.subject_class(g.arg(n, 1)) != 'stream_buf':
                extra.append(("copy_from_slice from %s" % ir.show(ir.peel(g.arg(n, 1)))[:40], 0))
    if extra:
        rep.violation("R9.1", "poll_input/dest-flows", "the caller's buffer is also passed to %s" % sorted(set(extra)), b.loc())
    else:
        rep.ok("R9.1", "poll_input/dest-flows", "the caller's buffer is written only by stream::Parser::parse(_, Some(buf)) and by the copy from stream_buffer()", b.loc())


def check_delegation(rep, facts):
    for raw, want in (("<async_io::Request as futures_util::AsyncRead>::poll_read", "Some"),
                      ("<async_io::Request as futures_util::AsyncBufRead>::poll_fill_buf", "None")):
        b = facts.body(raw)
        r = ir.Resolver(b)
        ok = False
        for bi, blk in enumerate(b.blocks):
            t = blk["t"]
            if t["k"] == "call" and F.norm(t["func"].get("path", "")).endswith("Request::poll_input"):
                a = ir.peel(r.operand(t["args"][2], (bi, -1)))
                if variant_of(a) == want and (want == 'None' or ir.peel(agg_field(a, 0))[0] == 'param'):
                    ok = True
        (rep.ok if ok else rep.violation)("R9.1", raw.split("::")[-1] + "/delegates", "poll_input(cx, %s)" % ("Some(buf)" if want == 'Some' else "None") if ok else "does not delegate to poll_input with %s" % want, b.loc())
    # poll_fill_buf returns stream_buffer(); consume only calls consume_stream
    # (closure of `map_ok` or an explicit match: the closures handed to combinators are frames of the event graph)
    import paths
    pb = facts.body("<async_io::Request as futures_util::AsyncBufRead>::poll_fill_buf")
    g = ieg.IEG(facts, pb, inline_filter=lambda x: False)
    names = set()
    okf = True
    nready = 0
    for r_ in paths.rows(g, max_paths=4000):
        names |= {nm for (nm, args, nd) in r_.calls}
        if r_.end != 'return' or r_.ret is None:
            continue
        ret = ir.peel(r_.ret)
        if variant_of(ret) == 'Ready' and variant_of(agg_field(ret, 0)) == 'Ok':
            nready += 1
            if not any(x[0] == 'call' and x[1] == E.STREAM_BUF for x in ir.walk(agg_field(ir.peel(agg_field(ret, 0)), 0))):
                okf = False
    if not (E.STREAM_BUF in names and E.CONSUME_STREAM not in names):
        okf = False
    (rep.ok if okf else rep.violation)("R9.1", "poll_fill_buf/returns-stream-buffer", "maps the result to parser.stream_buffer() without consuming" if okf else "poll_fill_buf does not return stream_buffer()", None)
    cb = facts.body("<async_io::Request as futures_util::AsyncBufRead>::consume")
    names = [F.norm(blk["t"]["func"]["res"]["path"] if blk["t"]["func"].get("res") else blk["t"]["func"].get("path", "")) for blk in cb.blocks if blk["t"]["k"] == "call"]
    core = [n for n in names if not ir.is_transparent(n) and not n.endswith("deref_mut") and not n.endswith("deref")]
    (rep.ok if core == [E.CONSUME_STREAM] else rep.violation)("R9.1", "consume/delegates", "consume(amt) = parser.consume_stream(amt)" if core == [E.CONSUME_STREAM] else "consume calls %s" % core, cb.loc())


def accessor_reports(facts, model):
    """The public accessor is_writeable() returns true exactly for the `raised` variant of the enum form of the flag."""
    b = facts.body("async_io::Request::is_writeable", required=False)
    if b is None:
        return False
    import paths
    g = ieg.IEG(facts, b, inline_filter=lambda x: False)
    tab = {}
    for r in paths.rows(g):
        if r.end != 'return' or r.ret is None:
            continue
        ret = ir.peel(r.ret)
        if ret[0] == 'call' and ret[1].endswith("PartialEq>::eq") and len(ret[2]) == 2:
            vs = [variant_of(a) for a in ret[2]]
            fl = [ir.peel(a)[0] == 'field' and ir.peel(a)[2] == 'writeable' for a in ret[2]]
            return any(fl) and model[1] in vs
        c = cv(ret)
        for (e, lab, n) in r.conds:
            tr = common.writeable_truth(facts, ir.simplify(e), lab)
            if tr is not None and c is not None:
                tab[tr] = c
    return tab == {True: 1, False: 0}


def check_writeable(rep, facts):
    """R9.4 / R9.5 / R9.6."""
    acc = F.field_accesses(facts, "async_io::Request", "writeable")
    writers = [(b, bi, how, sp) for (b, bi, how, sp) in acc if how == "write"]
    for (b, bi, how, sp) in writers:
        r = ir.Resolver(b)
        for si, st in enumerate(b.blocks[bi]["st"]):
            if st["k"] == "assign" and any(el.get("n") == "writeable" for el in st["place"].get("p", [])):
                v = r.rvalue(st["rv"], (bi, si))
                model = common.writeable_model(facts)
                # "raised": the bool true -- or, when a private enum replaced the bool, the variant the public accessor reports as writeable
                raised_ok = cv(v) == 1 or (model is not None and model[0] == 'v' and variant_of(v) == model[1] and accessor_reports(facts, model))
                if not raised_ok:
                    rep.violation("R9.4", "writeable-write-value/%s" % b.npath, "the flag is assigned %s; it may only be raised" % ir.show(v)[:40], "%s:%d" % (sp["f"], sp["l"]))
    wfuncs = sorted({b.npath for (b, bi, how, sp) in writers})
    if not wfuncs:
        rep.undecidable("R9.4", "writeable-writers", "no writer of Request.writeable found")
        return
    # call sites of the function(s) that raise the flag: guarded by the role test (constructor) or by is_final_stream() after a parse
    g, ev = common.build(facts, "<async_io::Request as futures_util::AsyncRead>::poll_read")
    gn = ieg.IEG(facts, facts.body("async_io::Request::new"), inline_filter=common.async_only)
    evn = E.Events(gn)
    for (gg, evv, label) in ((g, ev, "poll_read"), (gn, evn, "new")):
        def effect(n, m, lab):
            gens, kills = set(), set()
            e = evv.at(n)
            if e is not None and e[0] == 'PARSE':
                kills.update(["FINAL", "DATA"])
            if n.term["k"] == "switch":
                de = evv.switch_expr(n)
                if de is not None:
                    x = ir.peel(de, casts=False)
                    t = isinstance(lab, tuple) and (lab[0] == 'otherwise' or (lab[0] == 'case' and lab[1] != 0))
                    # is_final_stream() == next_input_stream(active).is_none()
                    if x[0] == 'call' and x[1].endswith("Option::is_none") and any(y[0] == 'call' and y[1].endswith("Role::next_input_stream") for y in ir.walk(x)):
                        if t:
                            gens.add("FINAL")
                    if x[0] == 'bin' and x[1] == 'Le' and any(y[0] == 'call' and y[1].endswith("Role::input_streams") for y in ir.walk(x[2])) and cv(x[3]) == 1 and t:
                        gens.add("FEWSTREAMS")
                    if x[0] == 'field' and x[2] == 'stream_end' and t:
                        gens.add("DATA")
                    if x[0] == 'bin' and x[1] == 'Gt' and ir.peel(x[2])[0] == 'field' and ir.peel(x[2])[2] == 'stream' and cv(x[3]) == 0 and t:
                        gens.add("DATA")
            return gens, kills
        md = common.must_dataflow(gg, frozenset(), effect)
        for n in gg.all_nodes():
            for (pl, val, s_) in _field_writes(gg, n):
                if pl[2] == 'writeable':
                    st = md.get(n.key, frozenset())
                    loc = "%s:%d" % (s_["sp"]["f"], s_["sp"]["l"])
                    if label == "new":
                        ok = "FEWSTREAMS" in st
                        why = "raised in the constructor only under role.input_streams().len() <= 1"
                    else:
                        ok = {"FINAL", "DATA"} <= st
                        why = "raised only when is_final_stream() holds after a parse that reported data or end of the active stream"
                    (rep.ok if ok else rep.violation)("R9.4", "%s/writeable-guard" % label, why if ok else "the writeable flag can be raised without %s" % ("the single-input-stream test" if label == "new" else "is_final_stream() after data/end of the active stream"), loc)
    # R9.5: StreamWriter construction sites
    for (b, bi, fexpr, loc) in common.construction_sites(facts, "async_io::StreamWriter"):
        if b.raw.get("impl_trait") and F.norm(b.raw["impl_trait"]) == "std::clone::Clone":
            w = ir.peel(fexpr["writer"])
            ok = w[0] == 'call' and w[1].endswith("Clone>::clone") and variant_of(fexpr["lock"]) == 'None'
            (rep.ok if ok else rep.violation)("R9.5", "writer-clone", "clone shares the writer Arc and starts without a lock" if ok else "Clone builds %s" % ir.show(w)[:50], loc)
            continue
        gg = ieg.IEG(facts, b, inline_filter=lambda x: False)
        evv = E.Events(gg)

        def eff(n, m, lab):
            gens = set()
            if n.term["k"] == "switch":
                de = evv.switch_expr(n)
                x = ir.peel(de, casts=False) if de is not None else None
                t = isinstance(lab, tuple) and (lab[0] == 'otherwise' or (lab[0] == 'case' and lab[1] != 0))
                if common.writeable_truth(facts, de, lab) is True:
                    gens.add("W")
                if x is not None and x[0] == 'call' and x[1].endswith("::contains") and any(y[0] == 'call' and y[1].endswith("Role::output_streams") for y in ir.walk(x)) and t:
                    gens.add("MEMBER")
            return gens, set()
        md = common.must_dataflow(gg, frozenset(), eff)
        node = [n for n in gg.all_nodes() if n.bb == bi and n.frame is gg.root]
        st_ = md.get(node[0].key, frozenset()) if node else frozenset()
        head = ir.peel(fexpr["head"])
        idok = head[0] == 'call' and head[1] == "protocol::RecordHeader::new" and any(y[0] == 'field' and y[2] == 'request_id' for y in ir.walk(head[2][1])) and ir.peel(head[2][0])[0] == 'param'
        ok = {"W", "MEMBER"} <= st_ and idok
        (rep.ok if ok else rep.violation)("R9.5", "writer-construction/%s" % b.npath.split("::")[-1],
                                           "only behind assert!(writeable) and the role-membership assert; header = RecordHeader::new(stream, request id)" if ok else
                                           "a StreamWriter can be handed out without %s" % ("the writeable / membership asserts" if not {"W", "MEMBER"} <= st_ else "the request's id"), loc)
    # R9.6: writeable() selects the last input stream
    wb = facts.body("async_io::Request::writeable::{closure#0}")
    r = ir.Resolver(wb)
    ok = False
    for bi, blk in enumerate(wb.blocks):
        t = blk["t"]
        if t["k"] == "call" and F.norm(t["func"].get("path", "")) == E.STR_PARSE.replace("::parse", "::set_stream"):
            a = r.operand(t["args"][1], (bi, -1))
            ok = any(y[0] == 'call' and y[1].endswith("::last") for y in ir.walk(a)) and any(y[0] == 'call' and y[1].endswith("Role::input_streams") for y in ir.walk(a))
    (rep.ok if ok else rep.violation)("R9.6", "writeable/selects-final-stream", "set_stream(role.input_streams().last().copied())" if ok else "writeable() does not select the last input stream of the role", wb.loc())


def _field_writes(g, n):
    out = []
    for si, st in enumerate(n.stmts):
        if st["k"] != "assign" or "p" not in st["place"]:
            continue
        pl = ir.peel(g.resolve_place(n.frame, st["place"], (n.bb, si)))
        if pl[0] == 'field':
            out.append((pl, None, st))
    return out


def check_read_commit(rep, facts):
    """R9.7: a byte count obtained from the transport is handed to the stream parser before the poll function can return or read
    again.  A poll function keeps no locals across a Pending: bytes that were read into the parser's buffer but not yet
    committed with parse(n) are overwritten by the next read -- a whole transport segment of the stream disappears."""
    total = 0
    for label, entry in ENTRIES[:2]:
        body = facts.body(entry)
        g = ieg.IEG(facts, body, inline_filter=no_util)
        ev = E.Events(g)
        reads = {}
        for n in g.all_nodes():
            e = ev.at(n)
            if e is not None and e[0] == 'READ':
                reads[(n.frame.id, n.bb)] = n

        def effect(n, m, lab):
            gens, kills = set(), set()
            e = ev.at(n)
            if e is not None and e[0] == 'READ' and (n.frame.id, n.bb) in reads:
                # from the poll of the transport on, a count may exist -- also when its result is kept in a local and looked at later
                # (`let input = poll_read(..); ready!(flush)?; read = ready!(input)?`): only the read's own Pending / Err / zero
                # edges, or the parse that takes the count, re-establish "nothing uncommitted"
                kills.add(('CM', n.frame.id, n.bb))
            if e is not None and e[0] == 'PARSE' and e[1] == 'str' and n.term["k"] == "call" and len(n.term["args"]) > 1:
                a = g.resolve(n.frame, n.term["args"][1], (n.bb, -1))
                for (fid, bb) in reads:
                    if common.derives_from_site(a, fid, bb):
                        gens.add(('CM', fid, bb))
            if n.term["k"] == "switch":
                de = ev.switch_expr(n)
                if lab == ('case', 0):
                    for (pe, cn) in ev.poll_switches(n):
                        if (cn.frame.id, cn.bb) in reads and pe is not None and pe[0] == 'READ':
                            kills.add(('CM', cn.frame.id, cn.bb))      # Poll::Ready: a count now exists
                elif de is not None and de[0] == 'discr':
                    # Pending / Err / Break edges: no count exists on them
                    for (fid, bb) in reads:
                        if common.derives_from_site(de[1], fid, bb):
                            gens.add(('CM', fid, bb))
                zt = common.zero_test(de, n.term.get("dty")) if de is not None else None
                if zt is not None:
                    v, c0, other = zt
                    for (fid, bb) in reads:
                        if common.derives_from_site(v, fid, bb) and ev.edge_value(lab, c0, other) == 'zero':
                            gens.add(('CM', fid, bb))                  # nothing was read: nothing to commit
            return gens, kills

        init = frozenset(('CM', fid, bb) for (fid, bb) in reads)
        ins = common.must_dataflow(g, init, effect)
        for (fid, bb), rn in sorted(reads.items()):
            total += 1
            fact = ('CM', fid, bb)
            bad = None
            for n in g.all_nodes():
                if n.key not in ins or fact in ins[n.key]:
                    continue
                if n.term["k"] == "return" and n.frame is g.root:
                    bad = ("the poll function can return", n)
                    break
                e = ev.at(n)
                if e is not None and e[0] == 'READ':
                    bad = ("the transport is read again", n)
                    break
            key = "%s/%s/read-committed" % (label, common.fn_of(rn))
            if bad:
                rep.violation("R9.7", key, "%s while a byte count returned by this read has not been handed to Parser::parse: the bytes already in the "
                              "parser's input buffer are overwritten by the next read" % bad[0], rn.loc())
            else:
                rep.ok("R9.7", key, "every path from Ready(Ok(n)) reaches parse(n, ..) before the function returns or reads again (n == 0 and error edges excepted)", rn.loc())
    rep.floor("R9.7", "transport reads in the poll-style read interfaces", total, 2)


def run(rep, facts):
    rep.rule("R9.7", "in poll_read / poll_fill_buf a byte count returned by the transport is committed with Parser::parse(n, ..) before the function can return or read again")
    rep.rule("R9.1", "delegation: poll_read = poll_input(Some(buf)), poll_fill_buf = poll_input(None) then stream_buffer(), consume = consume_stream; the caller's buffer is written only by the stream parser and by the copy from stream_buffer()")
    rep.rule("R9.2", "bytes copied out of stream_buffer() are consumed by exactly the copied amount; poll_fill_buf never consumes")
    rep.rule("R9.3", "after a parse, nothing that can return Pending/Err (transport read, reply flush, lock) runs unless the parse reported neither data nor end-of-stream; the success count is the parse's / the copy's count")
    rep.rule("R9.4", "Request.writeable is only ever raised, in the constructor under input_streams().len() <= 1, or under is_final_stream() after a parse that reported data or end")
    rep.rule("R9.5", "StreamWriter values are constructed only behind assert!(writeable) and the role-membership assert (or by Clone), with the request's id")
    rep.rule("R9.6", "writeable() selects role.input_streams().last()")
    counters = {"exits": 0, "consumes": 0}
    for label, entry in ENTRIES:
        check_entry(rep, facts, label, entry, counters)
    check.guard(rep, "R9.3", check_returns, facts)
    check.guard(rep, "R9.1", check_delegation, facts)
    check.guard(rep, "R9.4", check_writeable, facts)
    check.guard(rep, "R9.7", check_read_commit, facts)
    rep.floor("R9.3", "operations that can exit early inside poll_input", counters["exits"], 6)
    rep.floor("R9.2", "consume_stream sites in poll_input", counters["consumes"], 1)


def run_stream_switch(rep, facts):
    """R9.8: "selecting a later stream discards the rest of the current one and never yields bytes of any other stream": the parser-level
    set_stream the async set_stream / writeable() go through demotes a record of the old stream in flight and discards buffered data on
    every path that changes the stream (rule R18.2 of C18, re-evaluated)."""
    from . import c18
    rep.rule("R9.8", "a stream switch through the async interface leaves nothing of the old stream deliverable: on every path of the parser's set_stream that changes the "
                     "stream the record state is tested, Stream is demoted to Skip, buffered data is discarded and the stream assigned (R18.2)")
    sr = check.Report("tmp", "quick")
    c18.run(sr, facts)
    n = 0
    for i in sr.instances:
        if i["rule"] == "R18.2":
            n += 1
            (rep.ok if i["status"] == "ok" else rep.violation)("R9.8", i["instance"], i["detail"], i["loc"])
    rep.floor("R9.8", "set_stream instances", n, 1)


def main(rep, tier):
    f = F.load(("async", "http"))
    rep.configs.append({"features": "async,http", "profile": "debug", "bodies": len(f.bodies)})
    check.guard(rep, "R9", run, f)
    check.guard(rep, "R9.8", run_stream_switch, f)
    import check as _c
    _c.witnesses(rep, "C09", f)
    return rep.finish(
        "Delegation, copy/consume pairing, 'no early exit between a productive parse and returning its result', writers and guards of the "
        "writeable flag, construction sites of StreamWriter, transport byte counts committed to the parser before a poll function returns.",
        not_decided="the exact bytes delivered for every poll sequence and EOF persistence (the stream parser's behaviour: C02/C18)")
