"""C03 — parsers are total and chunking-invariant on hostile input (structural clauses R3.1–R3.8)."""
import check
import facts as F
import ir
import ieg
import paths
import dispatch
from . import c04, c05, c11
from .c17 import variant_of, agg_field, cv, nonconst_conds, case_value
from .c05 import rows_of, self_field, position_of_call

RP = "parser::request::Parser"
SP = "parser::stream::Parser"
RS = "parser::request::State"


def run(rep, facts):
    rep.rule("R3.1", "sticky final states: State::drive returns (data, self) for Done and Fatal without driving anything or touching the output")
    rep.rule("R3.2", "request::Parser::parse clears the output before the drive on every path and always drives (no early-out); StuckOnInput is stored as Fatal (hence sticky)")
    rep.rule("R3.3", "panic containment: the fallback given to replace_with_and_return leaves State::Fatal(Error::Paniced)")
    rep.rule("R3.4", "stream parser: every Err exit of the header dispatch leaves the parser untouched (no field write, no append), so the same error repeats and nothing more is emitted")
    rep.rule("R3.5", "decode failures are classified identically at all three header sites: unknown version => error without consuming; unknown type => one UnknownType reply and skip; other => Protocol error")
    rep.rule("R3.6", "From<parser::Error> for io::Error is the documented total table")
    rep.rule("R3.7", "conversions at non-final states fail without side effects (Interrupted), final states convert (see R5.1-R5.3)")
    rep.rule("R3.9", "the GetValues name-value decoder sees at most the record's remaining payload and the reply is emitted only for a complete body (otherwise the emitted bytes would depend on read chunking)")
    rep.rule("R3.8", "stream::Parser::parse: every successful return passes the processing loop's entry test (no early-out that would leave buffered records unparsed)")

    # ---- R3.1 ---------------------------------------------------------------------------------------------
    b, g, rows = rows_of(facts, RS + "::drive", max_visits=2)
    d = facts.enum_discr(RS)
    ok_final = set()
    bad = []
    driven = set()
    for r in rows:
        if r.end not in ('return',):
            continue
        first = None
        for (e, lab) in nonconst_conds(r):
            pe = ir.peel(e)
            if pe[0] == 'discr' and ir.peel(pe[1])[0] == 'param' and first is None:
                first = facts.variant_name(RS, case_value(lab)) if case_value(lab) is not None else 'other'
        drives = [c for c in r.calls if c[0].endswith("::drive")]
        outw = [c for c in r.calls if c[0].startswith("std::vec::Vec::") and ir.peel(c[1][0])[0] == 'param' and ir.peel(c[1][0])[2] == 'out']
        if first in ("Done", "Fatal"):
            ret = ir.peel(r.ret)
            same = ret[0] == 'agg' and ret[1] == 'tuple' and ir.peel(ret[3][0][1])[0] == 'param' and ir.peel(ret[3][1][1])[0] == 'param'
            if drives or outw or not same:
                bad.append("final state %s is driven / modified" % first)
            else:
                ok_final.add(first)
        elif first is not None and drives:
            driven.add(first)
    nonfinal = set(d) - {"Done", "Fatal"}
    if bad:
        rep.violation("R3.1", "state-drive/final-sticky", "; ".join(sorted(set(bad))), b.loc())
    elif ok_final == {"Done", "Fatal"}:
        rep.ok("R3.1", "state-drive/final-sticky", "Done and Fatal return (data, self) untouched", b.loc())
    else:
        rep.undecidable("R3.1", "state-drive/final-sticky", "final arms not found (%s)" % sorted(ok_final), b.loc())
    if driven == nonfinal:
        rep.ok("R3.1", "state-drive/all-states-handled", "every non-final state delegates to its sub-drive: %s" % sorted(driven), b.loc())
    else:
        rep.violation("R3.1", "state-drive/all-states-handled", "states without a sub-drive: %s" % sorted(nonfinal - driven), b.loc())

    # ---- R3.2 / R3.3 ---------------------------------------------------------------------------------------
    b, g, rows = rows_of(facts, RP + "::parse")
    n = 0
    bad = []
    for r in rows:
        if r.end != 'return':
            continue
        n += 1
        pc = position_of_call(r, "std::vec::Vec::clear")
        pd = position_of_call(r, "replace_with::replace_with_and_return")
        if pc is None or pd is None or pc > pd:
            bad.append("a return path does not clear the output and then drive the state machine")
            continue
        cl = r.called("std::vec::Vec::clear")
        if not self_field(cl[0][1][0], 'output'):
            bad.append("the cleared buffer is not self.output")
        rw = r.called("replace_with::replace_with_and_return")[0]
        if not self_field(rw[1][0], 'state'):
            bad.append("the state machine driven is not self.state")
    if bad:
        rep.violation("R3.2", "parse/clear-then-drive", "; ".join(sorted(set(bad))), b.loc())
    else:
        rep.ok("R3.2", "parse/clear-then-drive", "all %d return paths: output.clear() then replace_with_and_return(&mut self.state, ..)" % n, b.loc())
    # the two closures
    cl = sorted([bb for bb in facts.bodies if bb.kind == "Closure" and bb.npath.startswith(RP + "::parse::")], key=lambda x: x.path)
    okd = oks = False
    for cb in cl:
        cg = ieg.IEG(facts, cb, inline_filter=lambda x: False)
        for r in paths.rows(cg):
            if r.end != 'return' or r.ret is None:
                continue
            ret = ir.peel(r.ret)
            if variant_of(ret) == 'Fatal' and variant_of(agg_field(ret, 0)) == 'Paniced':
                okd = True
            if ret[0] == 'call' and ret[1] == RS + "::drive":
                oks = True
    if okd:
        rep.ok("R3.3", "parse/panic-fallback", "|| State::Fatal(Error::Paniced)", b.loc())
    else:
        rep.violation("R3.3", "parse/panic-fallback", "the fallback state after a panic is not Fatal(Paniced)", b.loc())
    if oks:
        rep.ok("R3.2", "parse/drives-state-machine", "|s| s.drive(data, &mut self.output, self.config)", b.loc())
    else:
        rep.violation("R3.2", "parse/drives-state-machine", "the closure given to replace_with_and_return does not call State::drive", b.loc())

    # ---- R3.4 / R3.5 from the dispatch tables -----------------------------------------------------------------
    sr = check.Report("tmp", "quick")
    c04.r4_1_tables(sr, facts)
    for i in sr.instances:
        inst = i["instance"]
        site = inst.split("/")[0]
        leaf = inst.split("/")[1] if "/" in inst else ""
        if leaf in ("unknown-version", "decode-error", "unknown-type", "short-header"):
            rid = "R3.4" if (site == "stream" and leaf in ("unknown-version", "decode-error")) else "R3.5"
            (rep.ok if i["status"] == "ok" else rep.violation)(rid, inst, i["detail"], i["loc"])
        if site == "stream" and leaf == "abort":
            (rep.ok if i["status"] == "ok" else rep.violation)("R3.4", inst, i["detail"], i["loc"])
        if site == "header" and leaf in ("begin-bad-len", "begin-null-id", "begin-body-error", "begin-short"):
            (rep.ok if i["status"] == "ok" else rep.violation)("R3.5", inst, i["detail"], i["loc"])

    # ---- R3.6 ---------------------------------------------------------------------------------------------
    tb, tab = c11.io_error_table(facts)
    if tab == c11.DOCUMENTED_IO_TABLE:
        rep.ok("R3.6", "io-error-table", "%s" % tab, tb.loc())
    else:
        rep.violation("R3.6", "io-error-table", "table is %s" % tab, tb.loc())

    # ---- R3.7 ---------------------------------------------------------------------------------------------
    sr = check.Report("tmp", "quick")
    c05.run(sr, facts)
    for i in sr.instances:
        if i["instance"] in ("into_request", "into_stream_parser", "into_request_parser", "into_input"):
            (rep.ok if i["status"] == "ok" else rep.violation)("R3.7", i["instance"], i["detail"], i["loc"])

    # ---- R3.8 ---------------------------------------------------------------------------------------------
    b, g, rows = rows_of(facts, SP + "::parse")
    n = 0
    bad = 0
    for r in rows:
        if r.end != 'return' or r.ret is None or variant_of(r.ret) != 'Ok':
            continue
        n += 1
        looptest = False
        for (e, lab) in nonconst_conds(r):
            pe = ir.peel(e, casts=False)
            if pe[0] == 'bin' and pe[1] == 'Lt' and self_field(pe[2], 'raw_start') and self_field(pe[3], 'free_start'):
                looptest = True
        w = [pl for (pl, val, nd, s_) in r.writes if pl[2] == 'free_start']
        if not looptest or not w:
            bad += 1
    if n and not bad:
        rep.ok("R3.8", "stream-parse/always-processes", "all %d Ok paths add new_input to free_start and pass the `raw_start < free_start` loop test" % n, b.loc())
    else:
        rep.violation("R3.8", "stream-parse/always-processes", "%d of %d Ok paths return without entering the processing loop" % (bad, n), b.loc())

    # ---- R3.9: chunking-invariance of the emitted GetValues reply needs the decoder bounded by the record's payload ----
    sr = check.Report("tmp", "quick")
    c04.r4_2_getvalues(sr, facts)
    for i in sr.instances:
        if i["instance"].endswith("/decoder-bounded") or i["instance"].endswith("/complete-body"):
            (rep.ok if i["status"] == "ok" else rep.violation)("R3.9", i["instance"], i["detail"], i["loc"])

    # ---- information only: panic-capable sites -----------------------------------------------------------------
    inv = {}
    for bb in facts.bodies:
        if not bb.npath.startswith("parser::") or bb.promoted:
            continue
        for blk in bb.blocks:
            t = blk["t"]
            if t["k"] == "assert":
                inv[t["msg"].split(":")[0]] = inv.get(t["msg"].split(":")[0], 0) + 1
            if t["k"] == "call" and "path" in t["func"]:
                p = F.norm(t["func"]["path"])
                if p.endswith("::expect") or p.endswith("::unwrap"):
                    inv["expect"] = inv.get("expect", 0) + 1
                if p.startswith("core::panicking::"):
                    inv["explicit panic / assert!"] = inv.get("explicit panic / assert!", 0) + 1
    rep.note("panic-capable sites in parser:: (information only, not armed): %s" % inv)


def main(rep, tier):
    f = F.load(("async", "http"))
    rep.configs.append({"features": "async,http", "profile": "debug", "bodies": len(f.bodies)})
    check.guard(rep, "R3", run, f)
    rep.floor("R3", "rule instances", len([i for i in rep.instances if i["status"] == "ok"]), 25)
    return rep.finish(
        "Structural clauses of the statement: sticky final states, clear-then-drive on every call, panic containment, side-effect-free "
        "error exits of the stream parser (the error repeats, no further output), identical classification of decode failures at the "
        "three header sites, the total error-conversion table, conversions at non-final states.",
        not_decided="absence of panics (arithmetic, slicing, expect: needs relational numeric reasoning across calls; inventory in the evidence notes only) and chunking-invariance of outcomes")
