"""C03 — parsers are total and chunking-invariant on hostile input (structural clauses R3.1–R3.8)."""
import check
import facts as F
import ir
import ieg
import paths
import dispatch
from . import c04, c05, c11
from .c17 import variant_of, agg_field, cv, nonconst_conds, case_value
from .c05 import rows_of, self_field, position_of_call

RP = "parser::request::Parser"
SP = "parser::stream::Parser"
RS = "parser::request::State"


def run(rep, facts):
    rep.rule("R3.1", "sticky final states: State::drive returns (data, self) for Done and Fatal without driving anything or touching the output")
    rep.rule("R3.2", "request::Parser::parse clears the output before the drive on every path and always drives (no early-out); StuckOnInput is stored as Fatal (hence sticky)")
    rep.rule("R3.3", "panic containment: the fallback given to replace_with_and_return leaves State::Fatal(Error::Paniced)")
    rep.rule("R3.4", "stream parser: every Err exit of the header dispatch leaves the parser untouched (no field write, no append), so the same error repeats and nothing more is emitted")
    rep.rule("R3.5", "decode failures are classified identically at all three header sites: unknown version => error without consuming; unknown type => one UnknownType reply and skip; other => Protocol error")
    rep.rule("R3.6", "From<parser::Error> for io::Error is the documented total table")
    rep.rule("R3.7", "conversions at non-final states fail without side effects (Interrupted), final states convert (see R5.1-R5.3)")
    rep.rule("R3.14", "the stream parser's record state is replaced only by the header dispatch and, for the delivering state alone, by a stream switch (R4.5): "
                      "a management body in flight is never cancelled by a call whose timing relative to the chunking the client cannot control")
    rep.rule("R3.15", "the fatal StuckOnInput verdict of the request parser is taken on the buffer fill left after the drive and the compaction (R6.2): "
                      "taken on the fill at call entry, the same byte sequence succeeds or fails depending on the chunking")
    rep.rule("R3.16", "the length decoder both parsers unwrap / treat as 'incomplete' fails only when its input is truncated and accepts every complete one- or four-byte form "
                      "(C15 O4 read/forms, O5): otherwise a well-formed pair panics parse_buffered's expect or is never consumed")
    rep.rule("R3.9", "the GetValues name-value decoder sees at most the record's remaining payload and the reply is emitted only for a complete body (otherwise the emitted bytes would depend on read chunking)")
    rep.rule("R3.8", "stream::Parser::parse: every successful return passes the processing loop's entry test (no early-out that would leave buffered records unparsed)")

    # ---- R3.1 ---------------------------------------------------------------------------------------------
    b, g, rows = rows_of(facts, RS + "::drive", max_visits=2)
    d = facts.enum_discr(RS)
    ok_final = set()
    bad = []
    driven = set()
    for r in rows:
        if r.end not in ('return',):
            continue
        first = None
        for (e, lab) in nonconst_conds(r):
            pe = ir.peel(e)
            if pe[0] == 'discr' and ir.peel(pe[1])[0] == 'param' and first is None:
                first = facts.variant_name(RS, case_value(lab)) if case_value(lab) is not None else 'other'
        drives = [c for c in r.calls if c[0].endswith("::drive")]
        outw = [c for c in r.calls if c[0].startswith("std::vec::Vec::") and ir.peel(c[1][0])[0] == 'param' and ir.peel(c[1][0])[2] == 'out']
        if first in ("Done", "Fatal"):
            ret = ir.peel(r.ret)
            same = ret[0] == 'agg' and ret[1] == 'tuple' and ir.peel(ret[3][0][1])[0] == 'param' and ir.peel(ret[3][1][1])[0] == 'param'
            if drives or outw or not same:
                bad.append("final state %s is driven / modified" % first)
            else:
                ok_final.add(first)
        elif first is not None and drives:
            driven.add(first)
    nonfinal = set(d) - {"Done", "Fatal"}
    if bad:
        rep.violation("R3.1", "state-drive/final-sticky", "; ".join(sorted(set(bad))), b.loc())
    elif ok_final == {"Done", "Fatal"}:
        rep.ok("R3.1", "state-drive/final-sticky", "Done and Fatal return (data, self) untouched", b.loc())
    else:
        rep.undecidable("R3.1", "state-drive/final-sticky", "final arms not found (%s)" % sorted(ok_final), b.loc())
    if driven == nonfinal:
        rep.ok("R3.1", "state-drive/all-states-handled", "every non-final state delegates to its sub-drive: %s" % sorted(driven), b.loc())
    else:
        rep.violation("R3.1", "state-drive/all-states-handled", "states without a sub-drive: %s" % sorted(nonfinal - driven), b.loc())

    # ---- R3.2 / R3.3 ---------------------------------------------------------------------------------------
    b, g, rows = rows_of(facts, RP + "::parse")
    n = 0
    bad = []
    n_direct = 0
    direct_placeholder_ok = False
    for r in rows:
        if r.end != 'return':
            continue
        n += 1
        pc = position_of_call(r, "std::vec::Vec::clear")
        pd = position_of_call(r, "replace_with::replace_with_and_return")
        direct = False
        if pd is None:
            # the same thing without the helper crate: take the state out (leaving the panic placeholder), drive it, store the result
            pd = position_of_call(r, RS + "::drive")
            direct = pd is not None
        if pc is None or pd is None or pc > pd:
            bad.append("a return path does not clear the output and then drive the state machine")
            continue
        cl = r.called("std::vec::Vec::clear")
        if not self_field(cl[0][1][0], 'output'):
            bad.append("the cleared buffer is not self.output")
        if direct:
            n_direct += 1
            dc = r.called(RS + "::drive")[0]
            taken = ir.peel(dc[1][0])
            if not (taken[0] == 'call' and taken[1].endswith("mem::replace") and self_field(taken[2][0], 'state')):
                bad.append("the state machine driven is not the one taken out of self.state")
            else:
                ph = ir.peel(taken[2][1])
                if variant_of(ph) == 'Fatal' and variant_of(agg_field(ph, 0)) == 'Paniced':
                    direct_placeholder_ok = True
            stw = [ir.peel(val) for (pl, val, nd, s_) in r.writes if pl[0] == 'field' and pl[2] == 'state' and r.nodes.index(nd) >= pd]
            if not any(any(y[0] == 'call' and y[1] == RS + "::drive" for y in ir.walk(v)) for v in stw):
                bad.append("the state returned by State::drive is not stored back into self.state")
            continue
        rw = r.called("replace_with::replace_with_and_return")[0]
        if not self_field(rw[1][0], 'state'):
            bad.append("the state machine driven is not self.state")
    if bad:
        rep.violation("R3.2", "parse/clear-then-drive", "; ".join(sorted(set(bad))), b.loc())
    else:
        rep.ok("R3.2", "parse/clear-then-drive", "all %d return paths: output.clear() then replace_with_and_return(&mut self.state, ..)" % n, b.loc())
    # the two closures
    # the two closures handed to replace_with_and_return (wherever that call sits: in parse itself or in a helper of it)
    cl_paths = set()
    for r in rows:
        for c in r.called("replace_with::replace_with_and_return"):
            for a in c[1][1:]:
                for y in ir.walk(a):
                    if y[0] == 'agg' and y[1] == 'closure':
                        cl_paths.add(y[2])
    cl = sorted([bb for bb in facts.bodies if bb.kind == "Closure" and bb.path in cl_paths], key=lambda x: x.path)
    okd = oks = False
    for cb in cl:
        cg = ieg.IEG(facts, cb, inline_filter=lambda x: False)
        for r in paths.rows(cg):
            if r.end != 'return' or r.ret is None:
                continue
            ret = ir.peel(r.ret)
            if variant_of(ret) == 'Fatal' and variant_of(agg_field(ret, 0)) == 'Paniced':
                okd = True
            if ret[0] == 'call' and ret[1] == RS + "::drive":
                oks = True
    if n_direct and not cl:
        okd, oks = direct_placeholder_ok, True
    if okd:
        rep.ok("R3.3", "parse/panic-fallback", "|| State::Fatal(Error::Paniced)" if cl else "mem::replace(&mut self.state, State::Fatal(Error::Paniced)) before the drive", b.loc())
    else:
        rep.violation("R3.3", "parse/panic-fallback", "the fallback state after a panic is not Fatal(Paniced)", b.loc())
    if oks:
        rep.ok("R3.2", "parse/drives-state-machine", "|s| s.drive(data, &mut self.output, self.config)", b.loc())
    else:
        rep.violation("R3.2", "parse/drives-state-machine", "the closure given to replace_with_and_return does not call State::drive", b.loc())

    # ---- R3.4 / R3.5 from the dispatch tables -----------------------------------------------------------------
    sr = check.Report("tmp", "quick")
    c04.r4_1_tables(sr, facts)
    for i in sr.instances:
        inst = i["instance"]
        site = inst.split("/")[0]
        leaf = inst.split("/")[1] if "/" in inst else ""
        if leaf in ("unknown-version", "decode-error", "unknown-type", "short-header"):
            rid = "R3.4" if (site == "stream" and leaf in ("unknown-version", "decode-error")) else "R3.5"
            (rep.ok if i["status"] == "ok" else rep.violation)(rid, inst, i["detail"], i["loc"])
        if site == "stream" and leaf == "abort":
            (rep.ok if i["status"] == "ok" else rep.violation)("R3.4", inst, i["detail"], i["loc"])
        if site == "header" and leaf in ("begin-bad-len", "begin-null-id", "begin-body-error", "begin-short"):
            (rep.ok if i["status"] == "ok" else rep.violation)("R3.5", inst, i["detail"], i["loc"])

    # ---- R3.6 ---------------------------------------------------------------------------------------------
    tb, tab = c11.io_error_table(facts)
    if tab == c11.DOCUMENTED_IO_TABLE:
        rep.ok("R3.6", "io-error-table", "%s" % tab, tb.loc())
    else:
        rep.violation("R3.6", "io-error-table", "table is %s" % tab, tb.loc())

    # ---- R3.7 ---------------------------------------------------------------------------------------------
    sr = check.Report("tmp", "quick")
    c05.run(sr, facts)
    for i in sr.instances:
        if i["instance"] in ("into_request", "into_stream_parser", "into_request_parser", "into_input"):
            (rep.ok if i["status"] == "ok" else rep.violation)("R3.7", i["instance"], i["detail"], i["loc"])

    # ---- R3.8 ---------------------------------------------------------------------------------------------
    b, g, rows = rows_of(facts, SP + "::parse")
    n = 0
    bad = 0
    for r in rows:
        if r.end != 'return' or r.ret is None or variant_of(r.ret) != 'Ok':
            continue
        n += 1
        looptest = False
        for (e, lab) in nonconst_conds(r):
            pe = ir.peel(e, casts=False)
            if pe[0] == 'bin' and pe[1] == 'Lt' and self_field(pe[2], 'raw_start') and self_field(pe[3], 'free_start'):
                looptest = True
        w = [pl for (pl, val, nd, s_) in r.writes if pl[2] == 'free_start']
        if not looptest or not w:
            bad += 1
    if n and not bad:
        rep.ok("R3.8", "stream-parse/always-processes", "all %d Ok paths add new_input to free_start and pass the `raw_start < free_start` loop test" % n, b.loc())
    else:
        rep.violation("R3.8", "stream-parse/always-processes", "%d of %d Ok paths return without entering the processing loop" % (bad, n), b.loc())

    # ---- R3.9: chunking-invariance of the emitted GetValues reply needs the decoder bounded by the record's payload ----
    sr = check.Report("tmp", "quick")
    c04.r4_2_getvalues(sr, facts)
    for i in sr.instances:
        if i["instance"].endswith("/decoder-bounded") or i["instance"].endswith("/complete-body"):
            (rep.ok if i["status"] == "ok" else rep.violation)("R3.9", i["instance"], i["detail"], i["loc"])

    # ---- R3.14: what a partially received record turns into may not depend on when the caller acts ----------------------
    # (a record state in flight -- GetValues body being collected -- is replaced only where C04 R4.5 allows it: otherwise the
    #  reply appears or not depending on where the chunk boundary fell relative to a set_stream call)
    sr = check.Report("tmp", "quick")
    c04.r4_5_state_writers(sr, facts)
    for i in sr.instances:
        (rep.ok if i["status"] == "ok" else rep.violation)("R3.14", i["instance"], i["detail"], i["loc"])

    # ---- R3.15: the stuck verdict is a function of what the parser could not consume, not of how full the buffer was on entry ----
    # (request::Parser::parse latches Fatal(StuckOnInput); decided on the length *after* the drive and the compaction it says "the
    #  longest unit does not fit", decided on anything else the same bytes succeed or fail depending on the chunking: rule R6.2 of C06)
    from . import c06
    sr = check.Report("tmp", "quick")
    c06.run(sr, facts)
    n15 = 0
    for i in sr.instances:
        if i["rule"] == "R6.2":
            n15 += 1
            (rep.ok if i["status"] == "ok" else rep.violation)("R3.15", i["instance"], i["detail"], i["loc"])
    rep.floor("R3.15", "stuck-verdict instances", n15, 2)

    # ---- R3.16: parse_buffered unwraps VarInt::read on bytes it has counted as complete (`expect("both VarInts should be in the buffer")`), and
    # NVIter::next reads every decoding error as "pair incomplete, wait for more": both are right only while the decoder fails on
    # truncated input and on nothing else (C15 O4-read / O5, re-evaluated) -- a decoder that rejects a complete encoding panics the request
    # parser or stalls the pair for good
    from . import c15
    sr = check.Report("tmp", "quick")
    c15.run_codec(sr, facts)
    n16 = 0
    for i in sr.instances:
        if i["instance"].startswith("read/"):
            n16 += 1
            (rep.ok if i["status"] == "ok" else rep.violation)("R3.16", i["instance"], i["detail"], i["loc"])
    rep.floor("R3.16", "decoder obligations", n16, 2)

    # ---- information only: panic-capable sites -----------------------------------------------------------------
    inv = {}
    for bb in facts.bodies:
        if not bb.npath.startswith("parser::") or bb.promoted:
            continue
        for blk in bb.blocks:
            t = blk["t"]
            if t["k"] == "assert":
                inv[t["msg"].split(":")[0]] = inv.get(t["msg"].split(":")[0], 0) + 1
            if t["k"] == "call" and "path" in t["func"]:
                p = F.norm(t["func"]["path"])
                if p.endswith("::expect") or p.endswith("::unwrap"):
                    inv["expect"] = inv.get("expect", 0) + 1
                if p.startswith("core::panicking::"):
                    inv["explicit panic / assert!"] = inv.get("explicit panic / assert!", 0) + 1
    rep.note("panic-capable sites in parser:: (information only, not armed): %s" % inv)


CURSORS = ["parsed_start", "gap_start", "raw_start", "free_start"]


def run_geometry(rep, facts):
    """R3.10: cursor geometry of the buffer-moving functions (engine E8, regions.py)."""
    import regions as R
    rep.rule("R3.10", "buffer geometry (E8: linear cursor forms, entry invariant 0 <= parsed_start <= gap_start <= raw_start <= free_start <= buffer.len()): "
                      "on every path of compress / consume_stream / discard_stream / stream_buffer / input_buffer and request::Parser::move_input no subtraction "
                      "underflows, every copy_within and slice stays inside the buffer, no copy overwrites a live region, the invariant holds again on return, "
                      "and each live region's bytes are where the new cursors say they are (compress additionally closes both gaps)")
    Lin = R.Lin

    def collect(it, fn, b):
        seen = {}
        for o in it.obligations:
            k = (o.kind, o.text, o.loc)
            seen.setdefault(k, []).append(o)
        nbad = 0
        for (kind, text, loc), os in sorted(seen.items()):
            if not all(o.ok for o in os):
                nbad += 1
                badp = next(o for o in os if not o.ok)
                rep.violation("R3.10", "%s/%s[%s]" % (fn, kind, text.split(" cannot")[0].split(" stays")[0].split(" is in")[0][:60]),
                              "not derivable from the entry invariant and the path condition: %s" % text, loc, path=badp.path)
        return len(seen), nbad

    def region_at(ctx, loc, a, b):
        (s, e) = loc
        return (ctx.eq(s, a) and ctx.eq(e, b)) or (ctx.eq(s, e) and ctx.eq(a, b))

    def chain_ok(ctx, heap, cursors, lenf):
        prev = Lin(0)
        for f in cursors:
            v = heap.get(f)
            if not isinstance(v, Lin) or not ctx.le(prev, v):
                return False
            prev = v
        return ctx.le(prev, Lin.sym("len(%s)" % lenf))

    total = 0
    # ---- stream parser -------------------------------------------------------------------------------------
    specs = {
        "compress": {"track": {"parsed": ("parsed_start", "gap_start"), "raw": ("raw_start", "free_start")}},
        "consume_stream": {"track": {"parsed": ("parsed_start", "gap_start"), "raw": ("raw_start", "free_start")}},
        "discard_stream": {"track": {"raw": ("raw_start", "free_start")}},
        "stream_buffer": {"track": {"parsed": ("parsed_start", "gap_start"), "raw": ("raw_start", "free_start")}},
        "input_buffer": {"track": {"parsed": ("parsed_start", "gap_start"), "raw": ("raw_start", "free_start")}},
    }
    for fn, spec in specs.items():
        b = facts.body(SP + "::" + fn)
        it = R.Interp(facts, CURSORS, len_of="buffer", inline={SP + "::compress"}, track=spec["track"])
        ends = it.run(b)
        n, nbad = collect(it, fn, b)
        total += n
        bad = []
        for e in ends:
            ctx, h = e.ctx, e.heap
            if not chain_ok(ctx, h, CURSORS, "buffer"):
                bad.append(("the cursor invariant does not hold on return", e.trace))
                continue
            p_, g_, r_, f_ = (h[c] for c in CURSORS)
            if "raw" in e.regions and not region_at(ctx, e.regions["raw"], r_, f_):
                bad.append(("the unparsed input [raw_start, free_start) is not where the new cursors point (bytes at [%s, %s), cursors [%s, %s))" % (e.regions["raw"] + (r_, f_)), e.trace))
            if fn == "compress":
                if not region_at(ctx, e.regions["parsed"], p_, g_):
                    bad.append(("the stream bytes [parsed_start, gap_start) are not where the new cursors point (bytes at [%s, %s), cursors [%s, %s))" % (e.regions["parsed"] + (p_, g_)), e.trace))
                if not (ctx.eq(p_, 0) and ctx.eq(r_, g_)):
                    bad.append(("compress leaves a gap (parsed_start = %s, raw_start - gap_start = %s)" % (p_, r_ - g_), e.trace))
            elif fn == "consume_stream":
                (s0, e0) = e.regions["parsed"]
                # what remains is a suffix of the old stream bytes, shortened by min(amt, len)
                empty_after = ctx.eq(p_, g_)
                suffix = ctx.eq(g_, e0) and ctx.le(s0, p_)
                if not (suffix or empty_after):
                    bad.append(("what remains of the stream buffer is not a suffix of its previous content", e.trace))
                else:
                    a = e.args[0] if getattr(e, "args", None) else None
                    okamt = False
                    if a is not None:
                        left = g_ - p_
                        okamt = (ctx.eq(left, (e0 - s0) - a) and ctx.le(a, e0 - s0)) or (ctx.eq(left, 0) and ctx.le(e0 - s0, a))
                    if not okamt:
                        bad.append(("the stream buffer does not shrink by exactly min(amt, len)", e.trace))
            elif fn == "discard_stream":
                if not (ctx.eq(p_, 0) and ctx.eq(g_, 0) and ctx.eq(r_, 0)):
                    bad.append(("discard_stream must leave parsed_start = gap_start = raw_start = 0", e.trace))
            elif fn in ("stream_buffer", "input_buffer"):
                sl = [ev for ev in e.events if ev[0] == "slice"]
                want = (p_, g_) if fn == "stream_buffer" else (f_, Lin.sym("len(buffer)"))
                if len(sl) != 1 or not (ctx.eq(sl[0][1], want[0]) and ctx.eq(sl[0][2], want[1])):
                    bad.append(("%s() does not return buffer[%s..%s]" % (fn, want[0], want[1]), e.trace))
        key = "%s/postcondition" % fn
        if bad:
            rep.violation("R3.10", key, bad[0][0], b.loc(), path=bad[0][1])
        elif not ends:
            rep.undecidable("R3.10", key, "no return path interpreted", b.loc())
        elif not nbad:
            rep.ok("R3.10", key, "%d path(s), %d obligation(s): invariant restored, live regions located by the new cursors" % (len(ends), n), b.loc())
    # ---- request parser: move_input ---------------------------------------------------------------------------
    from . import compaction
    cg = compaction.geometry(facts, _contracts())
    b, it, ends, bad = cg["body"], cg["interp"], cg["ends"], cg["bad"]
    n, nbad = collect(it, "move_input", b)
    total += n
    if bad:
        rep.violation("R3.10", "move_input/postcondition", bad[0][0], b.loc(), path=bad[0][1])
    elif not ends:
        rep.undecidable("R3.10", "move_input/postcondition", "no return path interpreted", b.loc())
    elif not nbad:
        rep.ok("R3.10", "move_input/postcondition", "%d path(s), %d obligation(s): the last rem_len bytes end up at [0, input_len)%s"
               % (len(ends), n, " (compaction written out in %s)" % b.npath if cg["hosted"] else ""), b.loc())
    rep.floor("R3.10", "geometry obligations", total, 8)


# ---- R3.11: arithmetic / slicing safety of the framing code ---------------------------------------------------
def _contracts():
    import regions as R

    def c_write(it, st, args, dty):
        # std::io::Write::write: Ok(n) implies n <= buf.len() (trait contract); for `&mut [u8]` also n <= dest.len()
        n = it.new_len("written", st["ctx"])
        for a in args[:2]:
            L = it.slice_len(a, st["ctx"])
            if L is not None:
                st["ctx"].add(L - n)
        return ('ok', n)

    def c_nv_new(it, st, args, dty):
        L = it.slice_len(args[0], st["ctx"])
        return ('nvit', L) if L is not None else it.opaque()

    def c_nv_inner(it, st, args, dty):
        # NVIter only ever replaces its slice by the remainder of a split of itself (C16 R16.1 / R16.2)
        n = it.new_len("rest", st["ctx"])
        if isinstance(args[0], tuple) and args[0][0] == 'nvit':
            st["ctx"].add(args[0][1] - n)
        return ('slice', n)

    def c_parse_stream(it, st, args, dty):
        # verified below: ParamsStateInner::parse_stream returns at most data.len()
        # (in either spelling of the result: the consumed count, or -- like parse_buffered -- the unconsumed tail of data)
        as_tail = str(dty or "").lstrip().startswith("&")
        n = it.new_len("unparsed" if as_tail else "consumed", st["ctx"])
        L = it.slice_len(args[1], st["ctx"])
        if L is not None:
            st["ctx"].add(L - n)
        return ('slice', n) if as_tail else n

    def c_parse_buffered(it, st, args, dty):
        # verified below: ParamsStateInner::parse_buffered returns a slice no longer than data
        n = it.new_len("unparsed", st["ctx"])
        L = it.slice_len(args[1], st["ctx"])
        if L is not None:
            st["ctx"].add(L - n)
        return ('slice', n)

    def c_replace_with(it, st, args, dty):
        # the closure returns State::drive's remainder, a `&'a mut [u8]` reborrowed from `&mut self.input[..input_len]`
        # (the only `'a` source in scope): it cannot be longer than that slice
        n = it.new_len("rem", st["ctx"])
        il = st["heap"].get("input_len")
        if isinstance(il, R.Lin):
            st["ctx"].add(il - n)
        return ('slice', n)

    def mk_havoc_self(name):
        def c_havoc_self(it, st, args, dty):
            # verified below as separate entries: parse_payload / parse_head keep the cursor invariant; beyond that only a frame condition is
            # used -- a cursor the callee (and what it calls) never writes keeps its value
            it.havoc_cursors(st, it.frame_fields(name))
            return it.opaque()
        return c_havoc_self

    def c_state_drive(it, st, args, dty):
        # request::State::drive(self, data, out, config) -> (rest, state): `rest` is a sub-slice of `data` (its lifetime has no other source)
        n = it.new_len("rem", st["ctx"])
        L = it.slice_len(args[1], st["ctx"]) if len(args) > 1 else None
        if L is not None:
            st["ctx"].add(L - n)
        return ('tuple', [('slice', n), it.opaque()])

    return {
        "parser::request::State::drive": c_state_drive,
        SP + "::parse_payload": mk_havoc_self(SP + "::parse_payload"),
        SP + "::parse_head": mk_havoc_self(SP + "::parse_head"),
        "std::io::impls::write": c_write,
        "protocol::nv::NVIter::new": c_nv_new,
        "protocol::nv::NVIter::into_inner": c_nv_inner,
        "parser::request::ParamsStateInner::parse_stream": c_parse_stream,
        "parser::request::ParamsStateInner::parse_buffered": c_parse_buffered,
        "replace_with::replace_with_and_return": c_replace_with,
    }


ARITH_KINDS = ("sub", "add", "cast", "slice", "split", "index", "copy", "clobber", "inv", "escape", "loop")


def run_arith(rep, facts):
    import re
    import regions as R
    rep.rule("R3.11", "arithmetic and slicing safety of the framing code (E8): in stream::Parser::parse (+ parse_payload, parse_head), "
                      "request::Parser::parse (+ move_input) and the SkipState / GetValuesState / ParamsState / HeaderState drives, on every path every "
                      "subtraction is non-negative, every u8/u16 addition and every narrowing `as` cast stays in range, every slice, split_at and "
                      "copy_within is inside its slice and every indexed access in bounds, derived from the types' ranges, the path condition and (stream "
                      "parser) the cursor invariant, which is re-established at the loop head and at every return; assumed callee contracts are listed "
                      "in the evidence, the crate-local ones are themselves verified")
    RQ = "parser::request::"
    contracts = _contracts()
    Lin = R.Lin
    table = [
        # (label, body, cursors, len_of, inline, armed kinds or None for all, self by struct)
        ("stream::parse", SP + "::parse", CURSORS, "buffer", {SP + "::is_record_boundary"}, None),
        ("stream::parse_payload", SP + "::parse_payload", CURSORS, "buffer", {SP + "::is_record_boundary"}, None),
        ("stream::parse_head", SP + "::parse_head", CURSORS, "buffer", {SP + "::is_record_boundary"}, None),
        ("request::parse", RP + "::parse", ["input_len"], "input", {RP + "::move_input"} if facts.body(RP + "::move_input", required=False) else set(), None),
        ("into_skip", RQ + "StateBuilder::into_skip", [], None, set(), None),
        ("SkipState::drive", RQ + "SkipState::drive", [], None, set(), None),
        ("GetValuesState::drive", RQ + "GetValuesState::drive", [], None, set(), None),
        ("ParamsState::drive", RQ + "ParamsState::drive", [], None, set(), None),
        ("HeaderState::drive", RQ + "HeaderState::drive", [], None, set(), None),
        ("parse_stream", RQ + "ParamsStateInner::parse_stream", [], None, set(), None),
        ("parse_buffered", RQ + "ParamsStateInner::parse_buffered", [], None, set(), ("post", "refuted", "mixed")),
    ]
    total = 0
    used = {}
    for (label, name, cursors, lenf, inline, armed) in table:
        b = facts.body(name)
        it = R.Interp(facts, cursors, len_of=lenf, inline=inline, contracts={k: v for k, v in contracts.items() if k != name})
        ends = it.run(b)
        for k, v in it.stats["contract_uses"].items():
            used[k] = used.get(k, 0) + v
        # postconditions
        post_bad = []
        for e in ends:
            if cursors and not it.chain_holds(e.ctx, e.heap):
                post_bad.append(("the cursor invariant does not hold on return", e.trace))
            if label == "parse_stream":
                L = it.slice_len(it.arg_env[2], e.ctx)
                if isinstance(e.ret, Lin):
                    if not e.ctx.le(e.ret, L):
                        post_bad.append(("the consumed count returned may exceed data.len()", e.trace))
                else:
                    Lr = it.slice_len(e.ret, e.ctx) if e.ret is not None else None
                    if Lr is None or not e.ctx.le(Lr, L):
                        post_bad.append(("the consumed count returned may exceed data.len()" if Lr is None else "the returned remainder may be longer than data", e.trace))
            if label == "parse_buffered":
                L = it.slice_len(it.arg_env[2], e.ctx)
                Lr = it.slice_len(e.ret, e.ctx) if e.ret is not None else None
                if Lr is None or not e.ctx.le(Lr, L):
                    post_bad.append(("the returned remainder may be longer than data", e.trace))
        groups = {}
        # "mixed": where only some kinds are armed (value-level arithmetic the domain cannot follow), a split / slice / index site that is
        # derivable on some paths and not on others is still reported -- the code itself checks the bound on one way to the operation and
        # not on another (Engler et al.: one of the two beliefs is wrong)
        mixed = set()
        if armed is not None and "mixed" in armed:
            by_site = {}
            for o in it.obligations:
                if o.kind in ("split", "slice", "index"):
                    by_site.setdefault((o.kind, o.loc), set()).add(bool(o.ok))
            mixed = {k for k, v in by_site.items() if v == {True, False}}
        for o in it.obligations:
            if armed is not None and o.kind not in armed and not ("refuted" in armed and o.refuted) and not ((o.kind, o.loc) in mixed and not o.ok):
                continue        # ("refuted": operations the path condition proves out of range are reported even where underivable ones are not armed)
            txt = re.sub(r"[#@]\d+", "", o.text)
            groups.setdefault((o.kind, txt), []).append(o)
        bykind = {}
        for (kind, txt), os in sorted(groups.items()):
            ok = all(o.ok for o in os)
            bykind.setdefault(kind, [0, 0])
            bykind[kind][0] += 1
            total += 1
            if not ok:
                bykind[kind][1] += 1
                badp = next(o for o in os if not o.ok)
                rep.violation("R3.11", "%s/%s[%s]" % (label, kind, txt[:90]), "not derivable on some path: %s" % txt, badp.loc, path=badp.path[-10:])
        if post_bad:
            rep.violation("R3.11", "%s/postcondition" % label, post_bad[0][0], b.loc(), path=post_bad[0][1][-10:])
        if not ends:
            rep.undecidable("R3.11", "%s/paths" % label, "no return path interpreted", b.loc())
            continue
        if not post_bad and not any(v[1] for v in bykind.values()):
            rep.ok("R3.11", label, "%d path(s); obligations discharged: %s%s" % (
                len(ends), ", ".join("%d %s" % (v[0], k) for k, v in sorted(bykind.items())) or "none",
                "; invariant / postcondition holds at every return" if (cursors or armed) or label == "parse_stream" else ""), b.loc())
        rep.stats.setdefault("geometry", {})[label] = {"paths": len(ends), "obligations": {k: v[0] for k, v in bykind.items()},
                                                       "loop_heads": it.stats["loop_heads"], "inlined_calls": it.stats["inlined"]}
    rep.stats.setdefault("geometry", {})["assumed_contracts_used"] = used
    rep.note("R3.11 callee contracts used (count): %s; write / NVIter / replace_with are assumptions with the stated reasons, parse_stream / parse_buffered are verified as postconditions" % used)
    rep.floor("R3.11", "arithmetic / slicing obligations", total, 60)

# ---- R3.12: the stream parser's call returns (loop progress) ---------------------------------------------------------
def run_progress(rep, facts):
    """stream::Parser::parse: `free_start - raw_start` (the unparsed input) strictly decreases on every iteration of the
    processing loop.  Modular like R3.11: the two callees are verified against the postconditions the loop argument uses."""
    import regions as R
    Lin = R.Lin
    rep.rule("R3.12", "stream::Parser::parse cannot spin (E8): on every path around its processing loop the unparsed input `free_start - raw_start` "
                      "strictly decreases while `free_start` stays put; used callee postconditions, each verified on the callee's own paths: parse_head "
                      "returning Ok(Continue) has advanced raw_start by at least one byte, parse_head / parse_payload never move raw_start backwards and "
                      "never move free_start")
    base = _contracts()
    raw0, free0 = Lin.sym("raw_start"), Lin.sym("free_start")

    def shape(ret):
        """'continue' | 'break' | 'err' | None (unknown) for a Result<ControlFlow, _> or ControlFlow value."""
        if isinstance(ret, tuple) and ret[0] == 'enum':
            return ret
        return None

    # -- the callees' postconditions --------------------------------------------------------------------------------------
    # parse_head's result tells parse() whether to go round again.  Whatever type carries that verdict (ControlFlow, bool, ..), the
    # result values are grouped into tokens; a token on which *every* path of parse_head has consumed input may be continued on.
    def token_of(ret):
        if isinstance(ret, tuple) and ret[0] == 'enum' and ret[1] == 1:
            return ('err',)
        if isinstance(ret, tuple) and ret[0] == 'enum' and ret[1] == 0 and ret[2]:
            inner = ret[2][0]
            if isinstance(inner, tuple) and inner[0] == 'enum':
                return ('enum', inner[1])
            if isinstance(inner, tuple) and inner[0] == 'bool':
                return ('bool', inner[1])
        return ('unknown',)
    okc = True
    tokens = {}
    for fn, is_result in (("parse_head", True), ("parse_payload", False)):
        name = SP + "::" + fn
        b = facts.body(name)
        it = R.Interp(facts, CURSORS, len_of="buffer", inline={SP + "::is_record_boundary"}, contracts={k: v for k, v in base.items() if k != name})
        ends = it.run(b)
        bad = []
        for e in ends:
            h, ctx = e.heap, e.ctx
            r_, f_ = h.get("raw_start"), h.get("free_start")
            if not (isinstance(r_, Lin) and isinstance(f_, Lin)):
                bad.append(("cursor values are not tracked to the return", e.trace))
                continue
            if not ctx.eq(f_, free0):
                bad.append(("free_start is moved (%s)" % f_, e.trace))
            if not ctx.le(raw0, r_):
                bad.append(("raw_start may move backwards (%s)" % r_, e.trace))
            if is_result:
                tk = token_of(e.ret)
                tokens.setdefault(tk, []).append(ctx.le(raw0 + 1, r_))
        key = "%s/progress-contract" % fn
        names = {('enum', 0): "Ok(Continue)", ('enum', 1): "Ok(Break)", ('bool', 1): "Ok(true)", ('bool', 0): "Ok(false)", ('err',): "Err", ('unknown',): "untracked result"}
        if bad:
            okc = False
            rep.violation("R3.12", key, bad[0][0], b.loc(), path=bad[0][1][-10:])
        elif not ends:
            okc = False
            rep.undecidable("R3.12", key, "no return path interpreted", b.loc())
        elif is_result and not any(all(v) for k, v in tokens.items() if k != ('err',)):
            okc = False
            rep.violation("R3.12", key, "no result of parse_head guarantees that input was consumed (%s): the processing loop could go round without progress"
                          % {names.get(k, str(k)): "%d/%d paths advance raw_start" % (sum(v), len(v)) for k, v in tokens.items()}, b.loc())
        else:
            rep.ok("R3.12", key, "%d path(s): free_start untouched, raw_start monotone%s" % (
                len(ends), "; results after which raw_start has advanced on every path: %s" % sorted(names.get(k, str(k)) for k, v in tokens.items() if all(v) and k != ('err',)) if is_result else ""), b.loc())

    # -- the loop, using them ---------------------------------------------------------------------------------------------
    def havoc(it, st, strict):
        old = st["heap"]
        r_old, f_old = old.get("raw_start"), old.get("free_start")
        syms = ["%s@%d" % (f, next(it.fresh)) for f in it.cursors]
        it.chain(st["ctx"], syms)
        st["heap"] = {f: Lin.sym(x) for f, x in zip(it.cursors, syms)}
        st["regions"] = {}
        h = st["heap"]
        cons = []
        if isinstance(r_old, Lin) and isinstance(f_old, Lin):
            st["ctx"].add(h["free_start"] - f_old)
            st["ctx"].add(f_old - h["free_start"])
            st["ctx"].add(h["raw_start"] - r_old)
            cons = [h["raw_start"] - r_old - 1]
        return cons

    def c_head(it, st, args, dty):
        cons = havoc(it, st, True)
        unit = ('tuple', [])
        alts = []
        for tk, vs in sorted(tokens.items()):
            if tk == ('err',):
                val = ('enum', 1, (it.opaque(),))
            elif tk[0] == 'enum':
                val = ('enum', 0, (('enum', tk[1], (unit,)),))
            elif tk[0] == 'bool':
                val = ('enum', 0, (('bool', tk[1]),))
            else:
                val = it.opaque()
            alts.append((val, cons if all(vs) else [], "parse_head returns %s" % (tk,)))
        return alts

    def c_payload(it, st, args, dty):
        havoc(it, st, False)
        return it.opaque()

    cs = dict(base)
    cs[SP + "::parse_head"] = c_head
    cs[SP + "::parse_payload"] = c_payload
    b = facts.body(SP + "::parse")
    it = R.Interp(facts, CURSORS, len_of="buffer", inline={SP + "::is_record_boundary"}, contracts=cs)
    it.variant = lambda heap: heap["free_start"] - heap["raw_start"]
    it.variant_text = "free_start - raw_start"
    ends = it.run(b)
    prog = [o for o in it.obligations if o.kind == "progress"]
    badp = [o for o in prog if not o.ok]
    if badp:
        rep.violation("R3.12", "stream::parse/progress", "not derivable on a path around the loop: %s" % badp[0].text, badp[0].loc, path=badp[0].path[-12:])
    elif not prog or not it.stats["loop_heads"]:
        rep.undecidable("R3.12", "stream::parse/progress", "no loop / no back edge interpreted in stream::Parser::parse", b.loc())
    elif not okc:
        rep.undecidable("R3.12", "stream::parse/progress", "the callee postconditions the argument rests on do not hold (see above)", b.loc())
    else:
        rep.ok("R3.12", "stream::parse/progress", "%d back-edge path(s): free_start - raw_start strictly smaller than at the loop head on each" % len(prog), b.loc())
    rep.floor("R3.12", "back-edge paths", len(prog), 1)

# ---- R3.13: the request parser's call returns (progress of State::drive) ---------------------------------------------------
def run_request_progress(rep, facts):
    """request::State::drive loops over the per-state drives.  Each iteration that stays in the loop either consumes input
    ("strict" states) or hands over, without growing the input, to a state that does ("weak" states: skip / values wrappers
    whose Continue goes to `next.into_state()`); 2 * len(data) + [state is weak] therefore strictly decreases."""
    import regions as R
    Lin = R.Lin
    RQ = "parser::request::"
    ST = RQ + "State"
    rep.rule("R3.13", "request::State::drive cannot spin: the loop feeds each drive's Continue((rest, state)) back unchanged; Header / Params drives "
                      "return Continue only with a strictly shorter `rest` (E8); Skip / GetValues drives return Continue with `rest` no longer than their "
                      "input and the state `next.into_state()`, and every StateBuilder::into_state builds a consuming or final state")
    b, g, rows = rows_of(facts, ST + "::drive")
    pnames = {b.local_name(i): i for i in range(1, b.argc + 1)}
    l_self, l_data = pnames.get("self", 1), pnames.get("data", 2)
    dispatch_map = {}
    bad = []
    nloop = 0
    for r in rows:
        drives = [(nm, args, n) for (nm, args, n) in r.calls if nm.startswith(RQ) and nm.endswith("::drive")]
        if not drives:
            continue
        nm, args, nd = drives[0]
        a0, a1 = ir.peel(args[0]), ir.peel(args[1]) if len(args) > 1 else None
        if not (a0[0] == 'field' and a0[1][0] == 'variant' and ir.peel(a0[1][1])[0] == 'param' and a1 is not None and a1[0] == 'param' and a1[1] == l_data):
            bad.append("a drive is not called with the current state's payload and the current input (%s)" % ir.show(args[0])[:60])
            continue
        v = a0[1][2]
        if dispatch_map.setdefault(v, nm) != nm:
            bad.append("variant %s is dispatched to two drives" % v)
        if r.end == 'loop':
            nloop += 1
            pr = paths.PathResolver(g, r.nodes)
            i = len(r.nodes) - 1
            want = ('call', nm)
            for l, k in ((l_data, 0), (l_self, 1)):
                e = ir.peel(pr.local(g.root, l, i, 0))
                okf = (e[0] == 'field' and str(e[2]) == str(k) and ir.peel(e[1])[0] == 'field' and str(ir.peel(e[1])[2]) == '0'
                       and ir.peel(ir.peel(e[1])[1])[0] == 'variant' and ir.peel(ir.peel(e[1])[1])[2] == 'Continue'
                       and ir.peel(ir.peel(ir.peel(e[1])[1])[1])[:2] == want)
                if not okf:
                    bad.append("the loop does not continue with component %d of the drive's Continue value (%s)" % (k, ir.show(e)[:80]))
    variants = {v["name"] for v in facts.adts[ST]["variants"]}
    final = {v for v in variants if v not in dispatch_map}
    if bad:
        rep.violation("R3.13", "State::drive/feedback", "; ".join(sorted(set(bad))), b.loc())
    elif not nloop:
        rep.undecidable("R3.13", "State::drive/feedback", "no path around the loop found", b.loc())
    else:
        rep.ok("R3.13", "State::drive/feedback", "%d loop path(s): (data, self) <- the drive's Continue payload; dispatch %s; returning at once: %s"
               % (nloop, {k: v.split("::")[-2] for k, v in sorted(dispatch_map.items())}, sorted(final)), b.loc())

    # -- the drives ------------------------------------------------------------------------------------------------------------
    cs = _contracts()
    klass = {}
    early = {}
    for nm in sorted(set(dispatch_map.values())):
        db = facts.body(nm)
        it = R.Interp(facts, [], len_of=None, contracts=cs)
        it.pre_fields = [("payload_rem", "u16"), ("padding_rem", "u8")]
        ends = it.run(db)
        data_arg = it.arg_env.get(2)
        L0 = it.slice_len(data_arg, R.Ctx()) if data_arg is not None else None
        strict = weak = True
        ncont = 0
        early[nm] = []
        for e in ends:
            ret = e.ret
            if not (isinstance(ret, tuple) and ret[0] == 'enum' and ret[2] and isinstance(ret[2][0], tuple) and ret[2][0][0] == 'tuple'):
                strict = weak = False
                continue
            if ret[1] != 0:
                # Break: leaves the loop.  Remember whether the record this state is skipping / collecting was incomplete
                if L0 is not None and not e.ctx.le(L0 + 1, it.entry_syms["payload_rem"] + it.entry_syms["padding_rem"]):
                    early[nm].append(e.trace)
                continue
            ncont += 1
            L = it.slice_len(ret[2][0][1][0], e.ctx)
            if L is None or L0 is None:
                strict = weak = False
                continue
            if not e.ctx.le(L + 1, L0):
                strict = False
            if not e.ctx.le(L, L0):
                weak = False
        klass[nm] = 'strict' if (strict and ncont) else 'weak' if (weak and ncont) else None
    # weak drives must hand over to `next.into_state()`
    into_state = RQ + "StateBuilder::into_state"
    for nm, k in sorted(klass.items()):
        db = facts.body(nm)
        short = nm.split("::")[-2]
        if k == 'strict':
            rep.ok("R3.13", "%s::drive/consumes" % short, "every Continue returns a strictly shorter input", db.loc())
            continue
        if k is None:
            rep.violation("R3.13", "%s::drive/consumes" % short, "a Continue result may carry an input longer than the drive was given (or is not tracked)", db.loc())
            continue
        b2, g2, rows2 = rows_of(facts, nm)
        okn = True
        nn = 0
        for r in rows2:
            if r.end != 'return' or r.ret is None or variant_of(r.ret) != 'Continue':
                continue
            nn += 1
            pay = ir.peel(agg_field(r.ret, 0))
            stv = ir.peel(agg_field(pay, 1)) if pay[0] == 'agg' else None
            if not (stv is not None and stv[0] == 'call' and stv[1].endswith("::into_state") and stv[2]
                    and ir.peel(stv[2][0])[0] == 'field' and ir.peel(stv[2][0])[2] == 'next'):
                okn = False
        if okn and nn and early.get(nm):
            rep.violation("R3.13", "%s::drive/stops-only-when-incomplete" % short, "the drive hands control back (Break) on a path where the record's remaining payload and padding "
                          "are completely in the input: what follows in the same chunk would wait for a read that may never come", db.loc(), path=early[nm][0][-10:])
        elif okn and nn:
            rep.ok("R3.13", "%s::drive/hands-over" % short, "Continue never grows the input and continues with next.into_state() (%d path(s)); Break only while "
                   "len(data) < payload_rem + padding_rem" % nn, db.loc())
        else:
            rep.violation("R3.13", "%s::drive/hands-over" % short, "a Continue that may consume nothing does not continue with next.into_state()", db.loc())
    # every into_state builds a consuming or final state
    strict_variants = {v for v, nm in dispatch_map.items() if klass.get(nm) == 'strict'}
    impls = [bb for bb in facts.bodies if bb.npath.endswith("StateBuilder>::into_state") or (bb.npath.endswith("::into_state") and " as " in bb.npath and "StateBuilder" in bb.npath)]
    n_impl = 0
    for ib in impls:
        n_impl += 1
        b3, g3, rows3 = rows_of(facts, ib.npath) if len(facts.by_npath.get(ib.npath, [])) == 1 else (ib, None, [])
        got = set()
        for r in rows3:
            if r.end == 'return' and r.ret is not None:
                got.add(variant_of(r.ret))
        if got and got <= (strict_variants | final):
            rep.ok("R3.13", "into_state[%s]" % ib.npath.split(" as ")[0].strip("<").split("::")[-1], "builds %s" % sorted(got), ib.loc())
        else:
            rep.violation("R3.13", "into_state[%s]" % ib.npath.split(" as ")[0].strip("<").split("::")[-1],
                          "builds %s, which is not a state whose drive consumes input (%s) or returns at once (%s)" % (sorted(map(str, got)), sorted(strict_variants), sorted(final)), ib.loc())
    rep.floor("R3.13", "StateBuilder::into_state implementations", n_impl, 3)
    rep.floor("R3.13", "drives classified", len([k for k in klass.values() if k]), 4)


def main(rep, tier):
    f = F.load(("async", "http"))
    rep.configs.append({"features": "async,http", "profile": "debug", "bodies": len(f.bodies)})
    check.guard(rep, "R3", run, f)
    check.guard(rep, "R3.10", run_geometry, f)
    check.guard(rep, "R3.11", run_arith, f)
    check.guard(rep, "R3.12", run_progress, f)
    check.guard(rep, "R3.13", run_request_progress, f)
    rep.floor("R3", "rule instances", len([i for i in rep.instances if i["status"] == "ok"]), 25)
    return rep.finish(
        "Structural clauses of the statement: sticky final states, clear-then-drive on every call, panic containment, side-effect-free "
        "error exits of the stream parser (the error repeats, no further output), identical classification of decode failures at the "
        "three header sites, the total error-conversion table, conversions at non-final states; buffer bookkeeping (R3.10), "
        "arithmetic / slicing safety of the framing code (R3.11) and loop progress of both parsers (R3.12 / R3.13: no hang) by path-sensitive abstract "
        "interpretation in linear cursor forms; necessary conditions of chunking-invariance (R3.9, R3.13 break discipline, R3.14, R3.15).",
        not_decided="panics from expect/unwrap on Option/Result values outside the modelled ones (parse_buffered's VarInt arithmetic; inventory in the evidence notes only) "
                    "and chunking-invariance of outcomes beyond the listed necessary conditions")
