"""C05 — no input byte is lost, duplicated or reordered across parser hand-offs (R5.1–R5.4)."""
import check
import facts as F
import ir
import ieg
import paths
from .c17 import variant_of, agg_field, cv, nonconst_conds, case_value

RP = "parser::request::Parser"
SP = "parser::stream::Parser"


def rows_of(facts, name, inline=None, **kw):
    b = facts.body(name)
    g = ieg.IEG(facts, b, inline_filter=(lambda x: x.npath.startswith(inline)) if inline else (lambda x: False))
    return b, g, paths.rows(g, max_paths=60000, **kw)


def self_field(e, name):
    e = ir.peel(e)
    return e[0] == 'field' and e[2] == name and ir.peel(e[1])[0] == 'param'


def position_of_call(row, callee):
    for i, n in enumerate(row.nodes):
        t = n.term
        if t["k"] == "call" and "path" in t["func"]:
            nm = F.norm(t["func"]["res"]["path"] if t["func"].get("res") else t["func"]["path"])
            if nm == callee or nm.endswith(callee):
                return i
    return None


def first_load(row, field, start=0):
    """(node index) of the first statement at/after `start` that reads self.<field> into a temporary."""
    for i in range(start, len(row.nodes)):
        n = row.nodes[i]
        for st in n.stmts:
            if st["k"] != "assign":
                continue
            rv = st["rv"]
            ops = []
            if rv["k"] == "use":
                ops = [rv["op"]]
            for o in ops:
                p = o.get("copy") or o.get("move")
                if p and any(el.get("n") == field for el in p.get("p", [])):
                    return i
    return None


def load_position_of_arg(g, row, call_idx, arg_idx, field):
    """Node index of the statement that read self.<field> into the value passed as argument `arg_idx` of the call at
    path position `call_idx` (following plain moves backwards), or None."""
    pr = paths.PathResolver(g, row.nodes)
    n = row.nodes[call_idx]
    op = n.term["args"][arg_idx]
    p = op.get("copy") or op.get("move")
    i, si = call_idx, -1
    for _ in range(20):
        if p is None:
            return None
        if any(el.get("n") == field for el in p.get("p", [])):
            return i
        if "p" in p:
            return None
        d = pr._def_on_path(row.nodes[i].frame if i == call_idx else frame, p["l"], i, si)
        frame = row.nodes[i].frame
        if d is None:
            return None
        j, k = d
        if k == -1:
            return None
        st = row.nodes[j].stmts[k]
        rv = st["rv"]
        if rv["k"] != "use":
            return None
        p = rv["op"].get("copy") or rv["op"].get("move")
        i, si = j, k
        frame = row.nodes[j].frame
    return None


def last_write(row, field):
    last = None
    for i, n in enumerate(row.nodes):
        for st in n.stmts:
            if st["k"] == "assign" and any(el.get("n") == field for el in st["place"].get("p", [])):
                last = i
    return last


def run(rep, facts):
    rep.rule("R5.1", "into_request: Done -> Ok((request, Vec::from(self.input) truncated to self.input_len)), Fatal(e) -> Err(e), else Err(Interrupted)")
    rep.rule("R5.2", "into_stream_parser hands (self.input, self.input_len) to the stream parser, whose constructor starts all cursors at 0 and free_start at that length")
    rep.rule("R5.3", "into_request_parser / into_input: the record-boundary guard (Err(Interrupted)) dominates every mutation; buffered stream data is discarded (parsed_start, gap_start <- 0) and the buffer compacted before free_start is read for the hand-over; the request parser's constructor stores that length and starts in the initial state")
    rep.rule("R5.4", "move_input keeps exactly the tail [input_len - rem_len, input_len) at offset 0 and sets input_len <- rem_len")

    # ---- R5.1 / R5.2: request parser conversions ----------------------------------------------------------
    for fn, target in (("into_request", None), ("into_stream_parser", SP + "::from_parser")):
        b, g, rows = rows_of(facts, "%s::%s" % (RP, fn))
        tab = {}
        okpay = True
        for r in rows:
            if r.end != 'return' or r.ret is None:
                continue
            st = None
            for (e, lab) in nonconst_conds(r):
                pe = ir.peel(e)
                if pe[0] == 'discr' and self_field(pe[1], 'state'):
                    st = facts.variant_name("parser::request::State", case_value(lab)) if case_value(lab) is not None else 'other'
            res = variant_of(r.ret)
            if res == 'Ok':
                tab[st] = 'Ok'
                pay = ir.peel(agg_field(r.ret, 0))
                if fn == "into_request":
                    # (request, input): input = Vec::from(self.input) truncated to self.input_len
                    tr = r.called("std::vec::Vec::truncate")
                    fr = [c for c in r.calls if c[0].endswith("From>::from") or c[0].endswith("::from") or c[0].endswith("Into>::into") or c[0].endswith("::into")
                          or c[0].endswith("::into_vec")]     # Vec::from(b) == b.into() == b.into_vec() for Box<[u8]>
                    okpay = okpay and len(tr) == 1 and self_field(tr[0][1][1], 'input_len') and any(self_field(c[1][0], 'input') for c in fr)
                    req = ir.peel(pay[3][0][1]) if pay[0] == 'agg' else None
                    okpay = okpay and req is not None and req[0] == 'field' and req[1][0] == 'variant' and req[1][2] == 'Done'
                else:
                    okpay = okpay and pay[0] == 'call' and pay[1] == target
                    if pay[0] == 'call':
                        a = [ir.peel(x) for x in pay[2]]
                        okpay = okpay and self_field(a[0], 'config') and a[1][0] == 'field' and a[1][1][0] == 'variant' and a[1][1][2] == 'Done' \
                            and self_field(a[2], 'input') and self_field(a[3], 'input_len') and self_field(a[4], 'output')
                    okpay = okpay and len(r.called("std::vec::Vec::clear")) == 1
            else:
                e = ir.peel(agg_field(r.ret, 0))
                if e[0] == 'agg':
                    tab[st] = 'Err(%s)' % e[2].split("::")[-1]
                elif e[0] == 'field' and e[1][0] == 'variant' and e[1][2] == 'Fatal':
                    tab[st] = 'Err(stored error)'
                else:
                    tab[st] = 'Err(?)'
        want = {'Done': 'Ok', 'Fatal': 'Err(stored error)', 'other': 'Err(Interrupted)'}
        rid = "R5.1" if fn == "into_request" else "R5.2"
        if tab == want and okpay:
            rep.ok(rid, fn, "Done => Ok(%s), Fatal(e) => Err(e), otherwise Err(Interrupted)" % ("request + input[..input_len]" if fn == "into_request" else "stream::from_parser(config, request, input, input_len, cleared output)"), b.loc())
        else:
            rep.violation(rid, fn, "conversion table is %s (payload ok: %s); expected %s" % (tab, okpay, want), b.loc())
    # stream::from_parser constructor
    ctor = [c for c in F.aggregates_of(facts, SP) if c[0].npath == SP + "::from_parser"]
    if len(ctor) != 1:
        rep.undecidable("R5.2", "stream-constructor", "%d construction sites in %s::from_parser" % (len(ctor), SP))
    else:
        (b2, bi, si, st) = ctor[0]
        r_ = ir.Resolver(b2)
        f = {k: ir.peel(r_.operand(v, (bi, si))) for k, v in zip(st["rv"]["fields"], st["rv"]["ops"])}
        ok = all(cv(f[k]) == 0 for k in ("parsed_start", "gap_start", "raw_start", "output_start", "payload_rem", "padding_rem")) \
            and f["free_start"][0] == 'param' and f["free_start"][2] == 'input_len' and f["buffer"][0] == 'param' and variant_of(f["state"]) == 'Skip'
        if ok:
            rep.ok("R5.2", "stream-constructor", "cursors 0, free_start <- input_len, no record in flight, state Skip", b2.loc())
        else:
            rep.violation("R5.2", "stream-constructor", "initial geometry is %s" % {k: ir.show(v)[:30] for k, v in f.items() if k in ("parsed_start", "gap_start", "raw_start", "free_start", "payload_rem", "padding_rem")}, b2.loc())

    # ---- R5.3: stream parser conversions --------------------------------------------------------------------
    for fn, sink, sink_arg in (("into_request_parser", RP + "::from_parser", 2), ("into_input", "std::vec::Vec::truncate", 1)):
        b, g, rows = rows_of(facts, "%s::%s" % (SP, fn), inline=SP + "::")
        n_ok = n_err = 0
        bad = []
        for r in rows:
            if r.end != 'return' or r.ret is None:
                continue
            res = variant_of(r.ret)
            conds = [(ir.peel(e, casts=False), lab) for (e, lab) in nonconst_conds(r)]
            # the record-boundary guard: both remaining-length counters are known to be zero (one test of their
            # bit-or, or one test each), or one of them is known to be non-zero
            guard = None
            zero_known = set()
            for (e, lab) in conds:
                fact = ir.cmp_fact(e, lab)
                if fact is None or fact[0] not in ('eq', 'ne'):
                    continue
                a_, b_ = fact[1], fact[2]
                if cv(b_) != 0 and cv(a_) == 0:
                    a_, b_ = b_, a_
                if cv(b_) != 0:
                    continue
                flds = {y[2] for y in ir.walk(a_) if y[0] == 'field'} & {'payload_rem', 'padding_rem'}
                if not flds:
                    continue
                if fact[0] == 'eq':
                    zero_known |= flds
                else:
                    guard = False
            if guard is None and zero_known == {'payload_rem', 'padding_rem'}:
                guard = True
            writes = [(pl, val) for (pl, val, n, s_) in r.writes if pl[0] == 'field' and ir.peel(pl[1])[0] == 'param']
            if res == 'Err':
                n_err += 1
                e = ir.peel(agg_field(r.ret, 0))
                if writes or guard is not False or variant_of(e) != 'Interrupted':
                    bad.append("an Err path is not {guard false, no mutation, Err(Interrupted)}")
                continue
            n_ok += 1
            if guard is not True:
                bad.append("an Ok path does not pass the record-boundary guard")
                continue
        # what is handed over, decided on values (E8): the unparsed input [raw_start, free_start) sits at [0, n) of the buffer, n being
        # the length given to the next owner -- however discard / compaction / the hand-over are spelled
        hb = handover_geometry(facts, "%s::%s" % (SP, fn), sink, sink_arg)
        bad += hb
        key = fn
        if bad:
            rep.violation("R5.3", key, "; ".join(sorted(set(bad))), b.loc())
        elif n_ok and n_err:
            rep.ok("R5.3", key, "guard false => Err(Interrupted) untouched; guard true => discard (parsed_start, gap_start <- 0), compact, then read free_start for %s (%d ok / %d err paths)" % (sink.split("::")[-1], n_ok, n_err), b.loc())
        else:
            rep.undecidable("R5.3", key, "expected both Ok and Err paths (%d/%d)" % (n_ok, n_err), b.loc())
    # request::from_parser constructor
    ctor = [c for c in F.aggregates_of(facts, RP) if c[0].npath == RP + "::from_parser"]
    if len(ctor) != 1:
        rep.undecidable("R5.3", "request-constructor", "%d construction sites" % len(ctor))
    else:
        (b2, bi, si, st) = ctor[0]
        r_ = ir.Resolver(b2)
        f = {k: ir.peel(r_.operand(v, (bi, si))) for k, v in zip(st["rv"]["fields"], st["rv"]["ops"])}
        ok = f["input"][0] == 'param' and f["input_len"][0] == 'param' and f["input_len"][2] == 'input_len' and variant_of(f["state"]) == 'Header'
        if ok:
            rep.ok("R5.3", "request-constructor", "input <- buffer, input_len <- handed-over length, state Header", b2.loc())
        else:
            rep.violation("R5.3", "request-constructor", "constructor stores %s" % {k: ir.show(v)[:30] for k, v in f.items()}, b2.loc())

    # ---- R5.4 ---------------------------------------------------------------------------------------------
    # decided on values by E8 (rules/compaction.py): whatever the arithmetic is spelled like, on every return path the
    # drive's remainder sits at [0, input_len) and input_len is its length
    from . import compaction
    cg = compaction.geometry(facts, _c03_contracts())
    b = cg["body"]
    unsafe = [o for o in cg["interp"].obligations if not o.ok]
    if cg["bad"]:
        rep.violation("R5.4", "move_input", cg["bad"][0][0], b.loc(), path=cg["bad"][0][1])
    elif unsafe:
        rep.violation("R5.4", "move_input", "not derivable on a path of the compaction: %s" % unsafe[0].text, unsafe[0].loc, path=unsafe[0].path)
    elif not cg["ends"]:
        rep.undecidable("R5.4", "move_input", "no return path interpreted", b.loc())
    else:
        rep.ok("R5.4", "move_input", "the drive's remainder [input_len - rem_len, input_len) ends up at offset 0 and input_len <- rem_len on all %d path(s)%s"
               % (len(cg["ends"]), " (compaction written out in %s)" % b.npath if cg["hosted"] else ""), b.loc())


def _c03_contracts():
    from . import c03
    return c03._contracts()


def handover_geometry(facts, fn_npath, sink, sink_arg):
    import regions as R
    Lin = R.Lin
    cs = dict(_c03_contracts())
    def c_sink(it, st, args, dty):
        n = args[sink_arg - 1] if sink == "std::vec::Vec::truncate" or True else None
        n = args[sink_arg] if len(args) > sink_arg else None
        st["events"].append(("handover", n, st["regions"].get("raw")))
        return it.opaque()
    cs[sink] = c_sink
    b = facts.body(fn_npath)
    it = R.Interp(facts, ["parsed_start", "gap_start", "raw_start", "free_start"], len_of="buffer",
                  inline={SP + "::is_record_boundary", SP + "::discard_stream", SP + "::compress"},
                  track={"raw": ("raw_start", "free_start")}, contracts=cs)
    ends = it.run(b)
    bad = []
    seen = 0
    for o in it.obligations:
        if not o.ok and o.kind in ("copy", "clobber", "sub", "slice"):
            bad.append("on the way to the hand-over: %s" % o.text)
    for e in ends:
        hs = [ev for ev in e.events if ev[0] == "handover"]
        if not hs:
            continue
        seen += 1
        (_, n, loc) = hs[-1]
        if not isinstance(n, Lin) or loc is None:
            bad.append("the length handed over or the location of the unparsed input is not tracked")
            continue
        (s0, e0) = loc
        at0 = (e.ctx.eq(s0, 0) and e.ctx.eq(e0, n)) or (e.ctx.eq(s0, e0) and e.ctx.eq(n, 0))
        if not at0:
            bad.append("the unparsed input is at [%s, %s) of the buffer when %s byte(s) are handed over: the next owner would not read exactly the unread suffix" % (s0, e0, n))
    if not seen and not bad:
        bad.append("no path reaching the hand-over was interpreted")
    return bad


def run_input_accounting(rep, facts):
    """R5.6: every byte the caller reports with parse(n) enters the parser's bookkeeping, also after the parser reached a final state
    (a read-ahead driver keeps feeding until it converts the parser): rule R3.2 of C03 re-evaluated -- parse() has no early exit in front
    of `input_len += new_input` / the drive."""
    import check as _check
    from . import c03
    rep.rule("R5.6", "request::Parser::parse accounts for new_input and drives on every return path, final states included (R3.2): bytes fed after `done` are part of the leftover")
    sr = _check.Report("tmp", "quick")
    c03.run(sr, facts)
    n = 0
    for i in sr.instances:
        if i["rule"] == "R3.2":
            n += 1
            (rep.ok if i["status"] == "ok" else rep.violation)("R5.6", i["instance"], i["detail"], i["loc"])
    rep.floor("R5.6", "R3.2 instances", n, 1)



def run_skip_arith(rep, facts, rid, why):
    """R5.7: records a finished request left unread are skipped by the next request parser; the skip arithmetic must be exact for any amount of buffered look-ahead (R3.11 re-evaluated)."""
    import check as _check
    from . import c03
    rep.rule(rid, why)
    sr = _check.Report("tmp", "quick")
    c03.run_arith(sr, facts)
    n = 0
    for i in sr.instances:
        inst = i["instance"]
        if i["rule"] == "R3.11" and (inst.startswith("into_skip") or inst.startswith("SkipState::drive")):
            n += 1
            (rep.ok if i["status"] == "ok" else rep.violation)(rid, inst, i["detail"], i["loc"])
    rep.floor(rid, "skip arithmetic instances", n, 2)

def run_async_handoff(rep, facts):
    """R5.5: between two requests of a connection the stream parser is not driven while it already stands at a record
    boundary -- with no active stream it would skip (swallow) whatever part of the next request is already buffered."""
    import events as E
    from . import common
    rep.rule("R5.5", "inside Request::close (after writeable) every stream::Parser::parse call lies on the false edge of an is_record_boundary() "
                     "test taken since the previous parse: at a boundary the buffered look-ahead belongs to the next request and is handed over untouched")
    if not facts.has_feature("async"):
        rep.note("R5.5 skipped: the async layer is not compiled in this configuration")
        return
    g, ev = common.build(facts, "async_io::Token::run::{closure#0}")

    def eff(n, m, lab):
        gens, kills = set(), set()
        if n.term["k"] == "switch" and isinstance(lab, tuple):
            de = ev.switch_expr(n)
            x = ir.peel(de) if de is not None else None
            neg = False
            while x is not None and x[0] == 'un' and x[1] == 'Not':
                neg = not neg
                x = ir.peel(x[2])
            if x is not None and x[0] == 'call' and x[1] == "parser::stream::Parser::is_record_boundary":
                truth = (lab[0] == 'otherwise') or (lab[0] == 'case' and lab[1] != 0)
                if neg:
                    truth = not truth
                if not truth:
                    gens.add("NOT_AT_BOUNDARY")
        e = ev.at(n)
        if e is not None and e[0] == 'PARSE' and e[1] == 'str':
            kills.add("NOT_AT_BOUNDARY")
        return gens, kills
    md = common.must_dataflow(g, frozenset(), eff)
    n_parse = 0
    for n in g.all_nodes():
        e = ev.at(n)
        if e is None or e[0] != 'PARSE' or e[1] != 'str' or n.key not in md:
            continue
        stack = [fr.body.npath for fr in n.frame.stack()]
        if not any(x.startswith("async_io::Request::close") for x in stack) or any(x.startswith("async_io::Request::writeable") for x in stack):
            continue
        n_parse += 1
        key = "close/%s/parse-only-inside-a-record" % common.fn_of(n)
        if "NOT_AT_BOUNDARY" in md[n.key]:
            rep.ok("R5.5", key, "reached only after is_record_boundary() returned false (since the previous parse)", n.loc())
        else:
            rep.violation("R5.5", key, "close() can drive the stream parser (active stream None) while it is at a record boundary: records of the next request that are "
                                       "already buffered are skipped instead of being handed to the next request's parser", n.loc())
    rep.floor("R5.5", "stream-parser drives inside close()", n_parse, 1)


def run_count_used_once(rep, facts):
    """R5.9: "no input byte ... duplicated": the number of bytes a transport read put into a parser's input buffer is handed to that
    parser's parse() at most once. A forward may-dataflow over every body of the async layer: a local that was passed as `new_input` is
    *spent* until it is assigned again (from the next read, or a constant); passing a spent local to parse() again -- a retry or `continue`
    that reaches the parse call without a new assignment -- makes the parser count the same bytes twice, and it then treats whatever follows
    them in its buffer as input it never received."""
    rep.rule("R5.9", "a byte count is handed to Parser::parse at most once: on no path does a parse call receive a local that an earlier parse call already took and that "
                     "was not assigned since")
    from facts import norm
    n_sites = 0
    for b in facts.bodies:
        if not (b.npath.startswith("async_io::") or b.npath.startswith("<async_io::")) or b.promoted:
            continue
        sites = []
        for bi, blk in enumerate(b.blocks):
            t = blk["t"]
            if blk.get("cleanup") or t["k"] != "call" or "path" not in t["func"] or len(t["args"]) < 2:
                continue
            if norm(t["func"]["path"]) in ("parser::request::Parser::parse", "parser::stream::Parser::parse"):
                sites.append(bi)
        if not sites:
            continue
        # single-definition copies of a local stand for that local (`_t = copy read; parse(.., move _t)`)
        defs = {}
        for bi, blk in enumerate(b.blocks):
            for st in blk["st"]:
                if st["k"] == "assign" and "p" not in st["place"]:
                    defs.setdefault(st["place"]["l"], []).append(st["rv"])
            t = blk["t"]
            if t["k"] == "call" and "p" not in t["dest"]:
                defs.setdefault(t["dest"]["l"], []).append(None)

        def root(l, depth=0):
            d = defs.get(l, [])
            if depth < 8 and len(d) == 1 and d[0] is not None and d[0]["k"] == "use":
                pl = d[0]["op"].get("copy") or d[0]["op"].get("move")
                if pl is not None and "p" not in pl:
                    return root(pl["l"], depth + 1)
            return l
        found = {}

        def transfer(bi, spent, report):
            spent = set(spent)
            blk = b.blocks[bi]
            for st in blk["st"]:
                if st["k"] == "assign" and "p" not in st["place"]:
                    spent.discard(st["place"]["l"])
            t = blk["t"]
            if t["k"] == "call":
                if bi in sites:
                    a = t["args"][1]
                    pl = a.get("copy") or a.get("move")
                    if pl is not None and "p" not in pl:
                        r = root(pl["l"])
                        if r in spent and report:
                            found[bi] = r
                        spent.add(r)
                if "p" not in t["dest"]:
                    spent.discard(t["dest"]["l"])
            return frozenset(spent)
        IN = {0: frozenset()}
        work = [0]
        while work:
            bi = work.pop()
            out = transfer(bi, IN[bi], False)
            for s_ in b.succs(bi):
                if b.blocks[s_].get("cleanup"):
                    continue
                old = IN.get(s_)
                new_ = out if old is None else (old | out)
                if new_ != old:
                    IN[s_] = new_
                    work.append(s_)
        for bi in IN:
            transfer(bi, IN[bi], True)
        fn = b.npath.split("::{closure")[0].split("::")[-1]
        for bi in sites:
            t = b.blocks[bi]["t"]
            a = t["args"][1]
            if "const" in a or not (a.get("copy") or a.get("move")):
                continue
            n_sites += 1
            key = "%s/count-used-once" % fn
            loc = "%s:%d" % (t["sp"]["f"], t["sp"]["l"])
            if bi in found:
                rep.violation("R5.9", key, "parse() can be reached again with the count `%s` it already took, without a new assignment in between: the same input bytes are counted twice" % b.local_name(found[bi]), loc)
            else:
                rep.ok("R5.9", key, "every path back to this parse call assigns the count anew", loc)
    rep.floor("R5.9", "parse calls of the async layer with a non-constant count", n_sites, 3)


def run_finished_keeps_lookahead(rep, facts):
    """R5.8: "request parser to request plus leftover ... with a full buffer of look-ahead at the hand-off": a finished request parser may be fed
    look-ahead until its buffer is full; the conversion then still yields the request and the leftover only if those calls leave the Done
    state alone (the buffer-full verdict is for an unfinished parser only: instances of R6.2, re-evaluated)."""
    import check
    from . import c06
    rep.rule("R5.8", "look-ahead fed to a finished request parser -- up to a full buffer -- does not turn it into a failed one: final states are reported as done "
                     "without touching the state, StuckOnInput is stored only while the parser is not done (R6.2)")
    sr = check.Report("tmp", "quick")
    c06.run(sr, facts)
    n = 0
    for i in sr.instances:
        if i["rule"] == "R6.2" and i["instance"].startswith("parse/"):
            n += 1
            (rep.ok if i["status"] == "ok" else rep.violation)("R5.8", i["instance"], i["detail"], i["loc"])
    rep.floor("R5.8", "stuck-verdict instances", n, 1)


def main(rep, tier):
    f = F.load(("async", "http"))
    rep.configs.append({"features": "async,http", "profile": "debug", "bodies": len(f.bodies)})
    check.guard(rep, "R5", run, f)
    check.guard(rep, "R5.5", run_async_handoff, f)
    check.guard(rep, "R5.6", run_input_accounting, f)
    check.guard(rep, "R5.8", run_finished_keeps_lookahead, f)
    check.guard(rep, "R5.9", run_count_used_once, f)
    check.guard(rep, "R5.7", lambda r_, f_: run_skip_arith(r_, f_, "R5.7", "unread records are skipped exactly whatever amount of look-ahead is buffered: no truncating cast or overflow in into_skip / SkipState::drive (R3.11)"), f)
    rep.floor("R5", "rule instances", len([i for i in rep.instances if i["status"] == "ok"]), 7)
    import check as _c
    _c.witnesses(rep, "C05", f)
    return rep.finish(
        "Hand-off provenance: (buffer, length) pairs passed at each conversion, constructor field initialisation, guard dominance, and the "
        "location of the unparsed input at [0, n) at every hand-over (E8 region tracking through discard and compaction), input accounting on every parse path, "
        "exact skip arithmetic, and no parser drive at a record boundary during close().",
        not_decided="equivalence of k sequential requests with k separate connections (behavioural consequence; depends on C01/C02 value-level clauses)")
