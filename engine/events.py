"""Event recognisers over the interprocedural event graph (async layer).

Events are recognised by resolved external identity and type shape (trait + method + whether the
receiver type is a type parameter), by the crate's public API names, and by value provenance —
never by private helper names or source text.
"""
import ir
from ieg import is_await_poll

REQ_PARSE = "parser::request::Parser::parse"
STR_PARSE = "parser::stream::Parser::parse"
OUT_BUF = "parser::stream::Parser::output_buffer"
STREAM_BUF = "parser::stream::Parser::stream_buffer"
CONSUME_OUT = "parser::stream::Parser::consume_output"
CONSUME_STREAM = "parser::stream::Parser::consume_stream"
INTO_STREAM = "parser::request::Parser::into_stream_parser"
INTO_REQ = "parser::stream::Parser::into_request_parser"
REQ_NEW = "parser::request::Parser::new"
STR_NEW = "parser::stream::Parser::new"
EPILOGUE = "protocol::body::make_request_epilogue"

READ_TRAITS = ("futures_util::AsyncRead", "futures_io::AsyncRead", "futures_util::io::AsyncRead")
WRITE_TRAITS = ("futures_util::AsyncWrite", "futures_io::AsyncWrite", "futures_util::io::AsyncWrite")


def subject_class(e):
    """What a byte-slice expression is, by provenance."""
    e = ir.peel(e)
    # unwrap slicing helpers that keep provenance
    while e[0] == 'call' and e[1] in ("core::slice::index::index", "core::slice::index::index_mut",
                                     "<smallvec::SmallVec as std::ops::Deref>::deref",
                                     "<std::vec::Vec as std::ops::Deref>::deref") and e[2]:
        e = ir.peel(e[2][0])
    if e[0] == 'call' and e[1] == OUT_BUF:
        return 'str_out'
    if e[0] == 'call' and e[1] == STREAM_BUF:
        return 'stream_buf'
    if e[0] == 'field' and e[2] == 'output':
        b = ir.peel(e[1])
        if b[0] == 'call' and b[1] == REQ_PARSE:
            return 'req_out'
        # a loop-carried `status`: the Yield of whichever parse call ran last
        if b[0] == 'phi' and b[1] and all(ir.peel(x)[0] == 'call' and ir.peel(x)[1] == REQ_PARSE for x in b[1]):
            return 'req_out'
    if e[0] == 'call' and e[1] == EPILOGUE:
        return 'epilogue'
    if e[0] == 'phi':
        cs = {subject_class(x) for x in e[1]}
        if len(cs) == 1:
            return cs.pop()
    return None


def _len_of(e):
    e = ir.peel(e, casts=False)
    if e[0] == 'un' and e[1] == 'PtrMetadata':
        return e[2]
    if e[0] == 'call' and (e[1].endswith("::len") and len(e[2]) == 1):
        return e[2][0]
    return None


def _const_int(e):
    v = ir.const_value(e)
    return v if isinstance(v, int) else None


def emptiness(de):
    """If the switch discriminant tests emptiness of a slice-like value, return
    (subject expr, value_for_case0, value_otherwise) with values in {'empty','nonempty'}."""
    de = ir.peel(de, casts=False)
    flip = False
    while de[0] == 'un' and de[1] == 'Not':
        flip = not flip
        de = ir.peel(de[2], casts=False)
    res = None
    if de[0] == 'call' and de[1].endswith("::is_empty") and len(de[2]) == 1:
        res = (de[2][0], 'nonempty', 'empty')
    elif de[0] == 'bin':
        op, a, b = de[1], de[2], de[3]
        la, lb = _len_of(a), _len_of(b)
        ca, cb = _const_int(a), _const_int(b)
        if la is not None and cb is not None:
            if (op == 'Ge' and cb == 1) or (op == 'Gt' and cb == 0) or (op == 'Ne' and cb == 0):
                res = (la, 'empty', 'nonempty')
            elif (op == 'Eq' and cb == 0) or (op == 'Lt' and cb == 1) or (op == 'Le' and cb == 0):
                res = (la, 'nonempty', 'empty')
        elif lb is not None and ca is not None:
            if (op == 'Le' and ca == 1) or (op == 'Lt' and ca == 0) or (op == 'Ne' and ca == 0):
                res = (lb, 'empty', 'nonempty')
            elif (op == 'Eq' and ca == 0) or (op == 'Gt' and ca == 1) or (op == 'Ge' and ca == 0):
                res = (lb, 'nonempty', 'empty')
    if res is None:
        return None
    subj, c0, other = res
    if flip:
        c0, other = other, c0
    return subj, c0, other


class Events:
    def __init__(self, g):
        self.g = g
        self._cache = {}
        self._edge = {}

    def at(self, n):
        k = n.key
        if k not in self._cache:
            self._cache[k] = self._classify(n)
        return self._cache[k]

    def _is_param_ty(self, tyd):
        return bool(tyd) and ("param" in tyd or (tyd.get("s", "").startswith("&mut ") and tyd.get("params") and not tyd.get("adts")))

    def _classify(self, n):
        g = self.g
        t = n.term
        k = t["k"]
        if k == "yield":
            return ('SUSPEND',)
        if k != "call" or n.noise():
            return None
        name = g.callee(n)
        if is_await_poll(t):
            aw = g.awaited(n)
            s = aw.get("s", "")
            fe = g.resolve(n.frame, t["args"][0], (n.bb, -1))
            sel = s.startswith("futures_util::future::Select<") and not g.coroutine_of(aw)
            # select(stop, transport future): the transport future is polled by the select; the other side only cancels
            if s.startswith("futures_util::io::Read<") or (sel and "futures_util::io::Read<" in s):
                return ('READ', 'await', self._future_call(fe, "futures_util::AsyncReadExt::read"))
            if s.startswith("futures_util::io::WriteAll<") or (sel and "futures_util::io::WriteAll<" in s):
                c = self._future_call(fe, "futures_util::AsyncWriteExt::write_all")
                data = c[2][1] if c is not None and len(c[2]) > 1 else None
                recv = c[2][0] if c is not None else None
                return ('WRITE', 'await_all', data, recv)
            for fut, meth in (("futures_util::io::Write<", "write"), ("futures_util::io::WriteVectored<", "write_vectored")):
                if s.startswith(fut) or (sel and fut in s):
                    # a single write whose result is a byte count (possibly 0): same obligations as poll_write
                    c = self._future_call(fe, "futures_util::AsyncWriteExt::" + meth)
                    data = c[2][1] if c is not None and len(c[2]) > 1 else None
                    recv = c[2][0] if c is not None else None
                    return ('WRITE', 'await_count', data, recv)
            if aw.get("dyn"):
                return ('HANDLER', 'await')
            if g.coroutine_of(aw):
                return ('AWAIT_LOCAL', s)
            return ('AWAIT_EXT', s)
        tc = g.trait_call(n)
        if tc is not None:
            tr, m, st = tc
            if tr in READ_TRAITS and m in ("poll_read", "poll_read_vectored") and self._is_param_ty(st):
                return ('READ', 'poll', None)
            if tr in WRITE_TRAITS and m in ("poll_write", "poll_write_vectored") and self._is_param_ty(st):
                data = g.arg(n, 2) if len(t["args"]) > 2 else None
                return ('WRITE', m, data, g.arg(n, 0))
            if tr in WRITE_TRAITS and m in ("poll_flush", "poll_close") and self._is_param_ty(st):
                return ('FLUSH', m, g.arg(n, 0))
            if tr.endswith("FnMut") or tr.endswith("FnOnce") or tr.endswith("::Fn"):
                if self._is_param_ty(st):
                    return ('HANDLER', 'call')
        if name in (REQ_PARSE,):
            return ('PARSE', 'req')
        if name in (STR_PARSE,):
            return ('PARSE', 'str')
        if name in (INTO_STREAM, INTO_REQ, REQ_NEW, STR_NEW, "parser::request::Parser::into_request",
                    "parser::stream::Parser::into_input"):
            return ('HANDOFF', name)
        if name == CONSUME_OUT:
            return ('CONSUME_OUT', g.arg(n, 1))
        return ('CALL', name)

    def _future_call(self, fe, fname):
        for sub in ir.walk(fe):
            if sub[0] == 'call' and sub[1] == fname:
                return sub
        return None

    # -- edge facts at switch nodes ---------------------------------------------------------------
    def switch_expr(self, n):
        t = n.term
        if t["k"] != "switch":
            return None
        k = n.key
        if k not in self._edge:
            self._edge[k] = self.g.resolve(n.frame, t["discr"], (n.bb, -1))
        return self._edge[k]

    def emptiness_edges(self, n):
        """For a switch node testing emptiness: (subject class, subject expr, {label_kind: 'empty'|'nonempty'})."""
        de = self.switch_expr(n)
        if de is None:
            return None
        r = emptiness(de)
        if r is None:
            return None
        subj, c0, other = r
        return subject_class(subj), subj, c0, other

    def poll_switches(self, n):
        """If n switches on the discriminant of call results (possibly several, joined by a phi, e.g. the
        value returned by an inlined helper), return [(event of that call node, call node), ...]."""
        de = self.switch_expr(n)
        if de is None or de[0] != 'discr':
            return []
        from ieg import Node
        out = []
        work = [ir.peel(de[1])]
        while work:
            x = work.pop()
            if x[0] == 'phi':
                work.extend(ir.peel(y) for y in x[1])
            elif x[0] == 'call' and isinstance(x[3][0], int):
                cn = Node(self.g.frames[x[3][0]], x[3][1], None)
                out.append((self.at(cn), cn))
        return out

    def poll_switch(self, n):
        """Single-call form of poll_switches (first transport event if any, else first call)."""
        ps = self.poll_switches(n)
        if not ps:
            return None
        for (e, cn) in ps:
            if e is not None and e[0] in ('READ', 'WRITE', 'FLUSH'):
                return e, cn
        return ps[0]

    @staticmethod
    def edge_value(lab, c0, other):
        """Map an IEG edge label at a 0/otherwise switch to the c0/other verdict."""
        if isinstance(lab, tuple) and lab[0] == 'case':
            return c0 if lab[1] == 0 else other
        if isinstance(lab, tuple) and lab[0] == 'otherwise':
            return other
        return None
