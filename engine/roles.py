"""Role discovery: private items are found by effect / signature, never by name.

The rules read against today's source use today's names of private helpers (`poll_input`, `parse_head`,
`move_input`, `SkipState`, ...).  Those names are not API: renaming a private function, type or trait method is
a behaviour-preserving edit and must not raise an alarm.  This module looks every such item up by what it *does*
(who calls it, what it calls, its signature, its fields) in the extracted facts and returns a map
`actual identifier -> canonical identifier`; `facts.load` rewrites the fact document with it before the rules
run, so the rules keep reading canonical names.  On the pinned tree the map is empty.

An item that cannot be identified uniquely is left alone (the rule that needs it then fails closed with a
missing anchor, as before).  Anchors that remain by name: public API, the fields named in the properties'
own `anchors.state`, and the private `State` enums with their variant names.
"""
import re
from facts import norm


def _callees(b, include_noise=False):
    out = set()
    for blk in b.blocks:
        t = blk["t"]
        if t["k"] != "call" or "path" not in t["func"]:
            continue
        if not include_noise and t.get("sp", {}).get("n"):
            continue
        f = t["func"]
        out.add(norm(f["res"]["path"]) if f.get("res") else norm(f["path"]))
    return out


def _ident(path):
    """last identifier of a def path (generic args already stripped)"""
    p = path
    if p.endswith(">") and " as " in p:
        p = p.split(" as ", 1)[0].lstrip("<")
    return p.split("::")[-1]


def discover(f, found=None):
    ren = {}
    fns = f.fns
    found = found if found is not None else {}

    def restricted(path):
        d = fns.get(path)
        return d is not None and d.get("vis") != "pub"

    def bodies_under(prefix):
        return [b for b in f.bodies if b.npath.startswith(prefix) and not b.promoted and "{" not in b.npath[len(prefix):]]

    def coroutine_callees(fn_npath):
        """callees of an async fn = callees of its coroutine body"""
        out = set()
        for b in f.by_npath.get(fn_npath + "::{closure#0}", []):
            out |= _callees(b)
        for b in f.by_npath.get(fn_npath, []):
            out |= _callees(b)
        return out

    def propose(canonical_path, candidates):
        cands = sorted(set(candidates))
        found[canonical_path] = cands
        if len(cands) != 1:
            return None
        actual = cands[0]
        a, c = _ident(actual), _ident(canonical_path)
        if a != c and "::" in actual:       # (a crate-root item keeps its name: rules reach it through facts.role_paths)
            ren[actual] = c
        return actual

    def sig(path):
        return (fns.get(path) or {}).get("sig", "")

    # ---- async_io::Request ---------------------------------------------------------------------------------
    REQ = "async_io::Request::"
    pr = [b for b in f.bodies if b.npath.endswith("::poll_read") and norm(b.raw.get("impl_trait", "")).endswith("AsyncRead")
          and "async_io::Request" in norm(b.raw.get("impl_self", {}).get("s", ""))]
    if len(pr) == 1:
        propose(REQ + "poll_input", [c for c in _callees(pr[0]) if c.startswith(REQ) and restricted(c)])
    meths = [p for p in fns if p.startswith(REQ) and p.count("::") == 2 and restricted(p)]
    propose(REQ + "poll_output", [p for p in meths if "parser::stream::Parser::consume_output" in coroutine_callees(p)])
    propose(REQ + "record_boundary", [p for p in meths if fns[p].get("asyncness") and "parser::stream::Parser::is_record_boundary" in coroutine_callees(p)])
    TOK = "async_io::Token::"
    propose(TOK + "parse_request", [p for p in fns if p.startswith(TOK) and p.count("::") == 2 and restricted(p)
                                    and "parser::request::Parser::parse" in coroutine_callees(p)])
    # the repeatable lock future: type of Request.lock
    a = f.adts.get("async_io::Request")
    if a:
        for fld in a["variants"][0]["fields"]:
            if fld["name"] == "lock":
                m = re.search(r"Option<([\w:]+)", norm(fld["ty"]) if "<" not in fld["ty"] else fld["ty"])
                if m:
                    ident = m.group(1).split("::")[-1]
                    if ident != "RepeatableLockFuture":
                        ren[m.group(1)] = "RepeatableLockFuture"

    # ---- Config: the buffer-size alignment helper = the non-public Config function returning usize that both parser
    # constructors call (method on &self or associated function of the configured size)
    cfg = [p for p in fns if (p.startswith("Config::") and p.count("::") == 1 or p.count("::") == 0) and restricted(p) and sig(p).replace(" ", "").endswith("->usize")]
    ctor_callees = []
    for ctor in ("parser::request::Parser::new", "parser::stream::Parser::new"):
        cs_ = set()
        for b_ in f.by_npath.get(ctor, []):
            cs_ |= _callees(b_)
        ctor_callees.append(cs_)
    if len(ctor_callees) == 2:
        propose("Config::aligned_bufsize", [p for p in cfg if p in ctor_callees[0] and p in ctor_callees[1]])

    # ---- parser::request -------------------------------------------------------------------------------------
    RP = "parser::request::Parser::"
    rmeths = [p for p in fns if p.startswith(RP) and p.count("::") == 3 and restricted(p)]
    propose(RP + "move_input", [p for p in rmeths if any(c.endswith("copy_within") for c in coroutine_callees(p))])
    RQ = "parser::request::"
    # framing state structs, by their fields
    structs = {p: a for p, a in f.adts.items() if p.startswith(RQ) and p.count("::") == 2 and a.get("kind") == "Struct"}
    skip, vals, params, unit = [], [], [], []
    for p, a in structs.items():
        flds = a["variants"][0]["fields"] if a.get("variants") else []
        names = {x["name"] for x in flds}
        tys = [x["ty"] for x in flds]
        if {"payload_rem", "padding_rem"} <= names:
            if any("ProtocolVariables" in t for t in tys):
                vals.append(p)
            elif any(re.fullmatch(r"[A-Z]\w?", t) for t in tys):
                skip.append(p)
            else:
                params.append(p)
        elif not flds and a.get("vis") != "pub":
            unit.append(p)
    sk = propose(RQ + "SkipState", skip)
    gv = propose(RQ + "GetValuesState", vals)
    pa = propose(RQ + "ParamsState", params)
    hd = propose(RQ + "HeaderState", unit)
    inner = None
    if pa:
        others = [x["ty"] for x in f.adts[pa]["variants"][0]["fields"] if x["name"] not in ("payload_rem", "padding_rem")]
        if len(others) == 1:
            inner = propose(RQ + "ParamsStateInner", [norm(others[0])])
    # parse_stream / parse_buffered by signature: (&mut X, &mut [u8], bool) -> usize | &mut [u8]
    cand_s, cand_b = [], []
    for p, d in fns.items():
        if not p.startswith(RQ) or not restricted(p):
            continue
        s = re.sub(r"for<[^>]*> ", "", d.get("sig", ""))
        s = re.sub(r"'\w+ ", "", s)
        m = re.fullmatch(r"fn\(&mut ([\w:]+), &mut \[u8\], bool\) -> (.+)", s)
        if m:
            (cand_s if m.group(2) == "usize" else cand_b if m.group(2) == "&mut [u8]" else []).append(p)
    canon_inner = RQ + "ParamsStateInner::"
    propose(canon_inner + "parse_stream", cand_s)
    propose(canon_inner + "parse_buffered", cand_b)
    # the state-builder trait and its methods, by signature
    traits = {}
    for p, d in fns.items():
        if p.startswith(RQ) and p.count("::") == 3 and "Self" in (d.get("generics") or []):
            traits.setdefault(p.rsplit("::", 1)[0], []).append(p)
    tcands = [t for t, ms in traits.items() if any(re.fullmatch(r"fn\(Self, u16, u8\) -> [\w:]+", sig(m)) for m in ms)]
    if len(tcands) == 1:
        t = tcands[0]
        if _ident(t) != "StateBuilder":
            ren[t] = "StateBuilder"
        impl_selfs = [norm(i["self"].get("adt") or i["self"].get("s", "")) for i in f.impls if norm(i.get("trait", "")) == t]

        def propose_tm(canon, m):
            propose(canon, [m])
            if m in ren:
                # the same method as implemented / overridden by each implementing type
                for sp_ in impl_selfs:
                    if sp_:
                        ren[sp_ + "::" + _ident(m)] = ren[m]
        for m in traits[t]:
            s = sig(m)
            if re.fullmatch(r"fn\(Self, u16, u8\) -> [\w:]+", s):
                propose_tm(RQ + "StateBuilder::into_skip", m)
            elif re.fullmatch(r"fn\(Self\) -> [\w:]+", s):
                propose_tm(RQ + "StateBuilder::into_state", m)
            elif sk and re.fullmatch(r"fn\(%s<Self>\) -> [\w:]+" % re.escape(sk), s):
                propose_tm(RQ + "StateBuilder::wrap_skip", m)
            elif gv and re.fullmatch(r"fn\(%s<Self>\) -> [\w:]+" % re.escape(gv), s):
                propose_tm(RQ + "StateBuilder::wrap_values", m)

    # inherent look-alikes on the Params state struct (same role, not trait items)
    if pa:
        for p_, d in fns.items():
            if p_.startswith(pa + "::") and p_.count("::") == 3 and restricted(p_):
                s_ = d.get("sig", "")
                if re.fullmatch(r"fn\(%s, u16, u8\) -> [\w:]+" % re.escape(pa), s_):
                    propose(RQ + "ParamsState::into_skip", [p_])
                elif re.fullmatch(r"fn\(%s\) -> [\w:]+State" % re.escape(pa), s_):
                    propose(RQ + "ParamsState::into_state", [p_])

    # ---- parser::stream ---------------------------------------------------------------------------------------
    SP = "parser::stream::Parser::"
    smeths = [p for p in fns if p.startswith(SP) and p.count("::") == 3 and restricted(p)]
    propose(SP + "discard_stream", [p for p in smeths if SP + "compress" in coroutine_callees(p)])
    head = propose(SP + "parse_head", [p for p in smeths if "protocol::RecordHeader::from_bytes" in coroutine_callees(p)])
    parse_b = f.by_npath.get(SP + "parse", [])
    if len(parse_b) == 1:
        cs = [c for c in _callees(parse_b[0]) if c in smeths and c != head]
        propose(SP + "parse_payload", cs)
    propose("parser::stream::cmp_input_streams", [p for p, d in fns.items() if p.startswith("parser::stream::") and p.count("::") == 2 and restricted(p)
                                                  and d.get("sig", "").endswith("-> std::cmp::Ordering")])
    # ---- protocol ----------------------------------------------------------------------------------------------
    propose("protocol::body::make_request_epilogue", [p for p, d in fns.items() if p.startswith("protocol::body::") and p.count("::") == 2 and restricted(p)
                                                     and re.search(r"fn\(u16, [\w:]*ExitStatus, &(?:'\w+ )?\[[\w:]*RecordType\]\)", d.get("sig", ""))])
    # ---- cgi: the private representation enum behind the public name type ---------------------------------------
    ov = f.adts.get("cgi::OwnedVarName")
    if ov and ov.get("variants") and len(ov["variants"][0]["fields"]) == 1:
        t0 = norm(ov["variants"][0]["fields"][0]["ty"])
        if t0.startswith("cgi::") and t0 in f.adts and f.adts[t0].get("vis") != "pub":
            propose("cgi::VarNameInner", [t0])
    # the non-public borrowing view / normalising constructor of the owned name, by signature
    OV = "cgi::OwnedVarName::"
    propose(OV + "as_var", [p for p, d in fns.items() if p.startswith(OV) and p.count("::") == 2 and restricted(p)
                            and re.search(r"fn\(&'?\w* ?cgi::OwnedVarName\) -> &'?\w* ?cgi::VarName$", d.get("sig", ""))])
    propose(OV + "from_compact", [p for p, d in fns.items() if p.startswith(OV) and p.count("::") == 2 and restricted(p)
                                  and re.search(r"fn\([\w:]*CompactString\) -> cgi::OwnedVarName$", d.get("sig", ""))])

    # ---- private fields, by their type within the struct (the rules name them) -----------------------------------
    fren = {}

    def fields_of(adt):
        a = f.adts.get(adt)
        return a["variants"][0]["fields"] if a and a.get("kind") == "Struct" and a.get("variants") else []

    def pick(adt, canonical, pred):
        fl = [x for x in fields_of(adt) if pred(x["ty"])]
        if len(fl) == 1 and fl[0]["name"] != canonical:
            fren[(adt, fl[0]["name"])] = canonical
        return fl[0]["name"] if len(fl) == 1 else None

    def rest(adt, canonical, known):
        fl = [x for x in fields_of(adt) if x["name"] not in known]
        if len(fl) == 1 and fl[0]["name"] != canonical:
            fren[(adt, fl[0]["name"])] = canonical

    T = "async_io::Token"
    k = [pick(T, "config", lambda t: "Config" in t), pick(T, "_sg", lambda t: "SemaphoreGuardArc" in t), pick(T, "stop_fut", lambda t: "EventListener" in t)]
    if all(k):
        rest(T, "_tt", set(k))
    R_ = "async_io::Runner"
    k = [pick(R_, "config", lambda t: "Config" in t), pick(R_, "sema", lambda t: "Semaphore" in t), pick(R_, "stop", lambda t: "event_listener::Event" in t)]
    if all(k):
        rest(R_, "wg", set(k))
    W = "async_io::StreamWriter"
    pick(W, "writer", lambda t: t.startswith("std::sync::Arc<"))
    pick(W, "lock", lambda t: t.startswith("std::option::Option<"))
    pick(W, "head", lambda t: t.endswith("RecordHeader"))
    pick(W, "head_idx", lambda t: t == "u8")
    pick(W, "orig_len", lambda t: t == "u16")
    Q = "async_io::Request"
    pick(Q, "parser", lambda t: t.startswith("parser::stream::Parser"))
    pick(Q, "output", lambda t: t.startswith("std::sync::Arc<"))
    pick(Q, "lock", lambda t: t.startswith("std::option::Option<"))
    pick(Q, "writeable", lambda t: t == "bool")
    pick(Q, "input", lambda t: re.fullmatch(r"[A-Z]\w?", t) is not None)
    P = "parser::request::Parser"
    pick(P, "input", lambda t: t.startswith("std::boxed::Box<[u8]"))
    pick(P, "input_len", lambda t: t == "usize")
    pick(P, "output", lambda t: t.startswith("std::vec::Vec<u8"))
    pick(P, "state", lambda t: t.endswith("::State"))
    S = "parser::stream::Parser"
    pick(S, "buffer", lambda t: t.startswith("std::boxed::Box<[u8]"))
    pick(S, "output", lambda t: t.startswith("std::vec::Vec<u8"))
    pick(S, "request", lambda t: t.endswith("parser::Request"))
    pick(S, "stream", lambda t: t.startswith("std::option::Option<"))
    pick(S, "state", lambda t: t.endswith("::State"))
    pick(S, "payload_rem", lambda t: t == "u16")
    pick(S, "padding_rem", lambda t: t == "u8")
    for adt in (sk, gv):
        if adt:
            pick(adt, "next", lambda t: re.fullmatch(r"[A-Z]\w?", t) is not None)
    if gv:
        pick(gv, "vars", lambda t: "ProtocolVariables" in t)
    if pa:
        rest(pa, "inner", {"payload_rem", "padding_rem"})
    if inner:
        pick(inner, "req", lambda t: t.endswith("parser::Request"))
        pick(inner, "buffer", lambda t: t.startswith("std::vec::Vec<u8"))
    pick("async_io::util::WaitGroupInner", "waker", lambda t: "AtomicWaker" in t)

    # never map onto an identifier that is already in use for something else in the same parent
    allpaths = set(fns) | set(f.adts)
    for a, c in list(ren.items()):
        if a.rsplit("::", 1)[0] + "::" + c in allpaths:
            del ren[a]
    for (adt, a), c in list(fren.items()):
        if any(x["name"] == c for x in fields_of(adt)):
            del fren[(adt, a)]
    out = dict(ren)
    if fren:
        out["__fields__"] = {"%s.%s" % k: v for k, v in fren.items()}
    return out


def _rewrite_fields(doc, fmap, type_ren):
    """structured rename of struct fields: place projections, aggregate field lists, ADT definitions"""
    def canon_adt(p):
        p = norm(p)
        for a, c in type_ren.items():
            p = re.sub(r"\b%s\b" % re.escape(a), c, p)
        return p

    def fix_place(pl):
        for el in pl.get("p", []):
            if "n" in el and "of" in el:
                k = "%s.%s" % (canon_adt(el["of"]), el["n"])
                if k in fmap:
                    el["n"] = fmap[k]

    def walk(x):
        if isinstance(x, dict):
            if "l" in x and "p" in x and isinstance(x.get("p"), list):
                fix_place(x)
            if x.get("k") == "agg" and x.get("ak") == "adt" and "fields" in x:
                adt = canon_adt(x["adt"])
                x["fields"] = [fmap.get("%s.%s" % (adt, n), n) for n in x["fields"]]
            for v in x.values():
                walk(v)
        elif isinstance(x, list):
            for v in x:
                walk(v)
    walk(doc["bodies"])
    for a in doc["adts"]:
        adt = canon_adt(a["path"])
        for v in a.get("variants", []):
            for fl in v.get("fields", []):
                k = "%s.%s" % (adt, fl["name"])
                if k in fmap:
                    fl["name"] = fmap[k]


_G = r"(?:::<(?:[^<>]|<(?:[^<>]|<[^<>]*>)*>)*>)?"      # optional generic arguments, nested up to three deep


def _path_rx(path):
    segs = path.split("::")
    parent = (_G + "::").join(re.escape(x) for x in segs[:-1]) + _G
    return re.compile(r"(%s>?::)%s\b" % (parent, re.escape(segs[-1])))


def apply(doc, ren):
    """Return a fact document in which the discovered items carry their canonical names."""
    import json
    if not ren:
        return doc
    ren = dict(ren)
    fmap = ren.pop("__fields__", {})
    if ren:
        text = json.dumps(doc)
        # types and traits first (they are the parents of methods), then functions; every occurrence is matched
        # with its full def path (generic arguments between segments allowed), never as a bare identifier
        types = {a: c for a, c in ren.items() if a[a.rfind("::") + 2:a.rfind("::") + 3].isupper()}
        funcs = {a: c for a, c in ren.items() if a not in types}

        def subst_parents(p):
            for a, c in types.items():
                p = re.sub(r"(?<![\w])%s\b" % re.escape(a), a.rsplit("::", 1)[0] + "::" + c, p)
            return p
        for a in sorted(types, key=len, reverse=True):
            text = _path_rx(a).sub(lambda m, c=types[a]: m.group(1) + c, text)
        for a in sorted(funcs, key=len, reverse=True):
            text = _path_rx(subst_parents(a)).sub(lambda m, c=funcs[a]: m.group(1) + c, text)
        doc = json.loads(text)
    if fmap:
        _rewrite_fields(doc, fmap, {})
    return doc


# Parameter names are not API either: rules that speak of a parameter mean a *position*.  The names the rules use
# are installed by position on the functions concerned (after the renames above, so canonical paths apply).
PARAMS = {
    "parser::request::ParamsStateInner::parse_stream": ["self", "data", "rec_end"],
    "parser::request::ParamsStateInner::parse_buffered": ["self", "data", "rec_end"],
    "parser::request::ParamsState::drive": ["self", "data", "out"],
    "parser::request::HeaderState::drive": ["self", "data", "out"],
    "parser::request::SkipState::drive": ["self", "data"],
    "parser::request::GetValuesState::drive": ["self", "data", "out", "config"],
    "parser::request::State::drive": ["self", "data", "out", "config"],
    "parser::request::GetValuesState::new": ["next", "payload_rem", "padding_rem"],
    "parser::request::StateBuilder::into_skip": ["self", "payload_rem", "padding_rem"],
    "parser::request::ParamsState::into_skip": ["self", "payload_rem", "padding_rem"],
    "parser::request::Parser::move_input": ["self", "rem_len"],
    "parser::request::Parser::from_parser": ["config", "buffer", "input_len", "output"],
    "parser::request::Parser::parse": ["self", "new_input"],
    "parser::stream::Parser::from_parser": ["config", "request", "buffer", "input_len", "output"],
    "parser::stream::Parser::parse": ["self", "new_input", "dest"],
    "parser::stream::Parser::parse_payload": ["self", "res", "dest"],
    "parser::stream::Parser::parse_head": ["self", "res"],
    "parser::stream::Parser::consume_stream": ["self", "amt"],
    "parser::stream::Parser::set_stream": ["self", "stream"],
    "async_io::Request::poll_input": ["self", "cx", "dest"],
    "parser::Request::new": ["request_id", "body"],
}


def canon_params(f):
    n = 0
    for path, names in PARAMS.items():
        for b in f.by_npath.get(path, []):
            if b.argc == len(names):
                for i, nm in enumerate(names, 1):
                    if b.varnames.get(i) != nm:
                        b.varnames[i] = nm
                        n += 1
    for b in f.bodies:
        tr = norm(b.raw.get("impl_trait", "") or "")
        if b.argc == 2 and tr.split("::")[-1] in ("PartialEq", "PartialOrd", "Ord") and not b.promoted and b.kind != "Closure":
            for i, nm in ((1, "self"), (2, "other")):
                if b.varnames.get(i) != nm:
                    b.varnames[i] = nm
                    n += 1
    return n
