"""Check driver: collects rule instances, applies the known-findings file, writes evidence, sets exit code."""
import json
import os
import sys
import time
import traceback

VERIF = os.path.dirname(os.path.dirname(os.path.abspath(__file__)))
EVIDENCE = os.environ.get("FCGI_VERIF_EVIDENCE") or os.path.join(VERIF, "evidence")
KNOWN = os.path.join(VERIF, "known_findings.json")

TRUSTED_BASE = [
    "rustc's type checking and MIR construction (nightly 1.97.0, -Zmir-opt-level=0, pre-borrowck MIR captured at mir_promoted)",
    "the fact extractor /verif/driver (serialises MIR, resolved callees, constants, ADT tables; no evaluation)",
    "documented semantics of the external APIs that events stand for (futures-io poll_read/poll_write, AsyncReadExt::read = one poll_read, AsyncWriteExt::write_all completes iff all bytes were accepted, futures Mutex exclusion, async_lock::Semaphore permits, event_listener notify, AtomicWaker, Arc/Weak)",
]


class Report:
    def __init__(self, prop, tier):
        self.prop = prop
        self.tier = tier
        self.t0 = time.time()
        self.instances = []      # dicts: rule, instance, status, detail, loc
        self.violations = []     # dicts: key, rule, detail, path
        self.notes = []
        self.rules = {}          # rule id -> description
        self.stats = {}
        self.configs = []
        self.assumptions = []

    # -- recording ----------------------------------------------------------------------------------
    def rule(self, rid, text):
        self.rules[rid] = text

    def ok(self, rule, instance, detail="", loc=None):
        self.instances.append({"rule": rule, "instance": instance, "status": "ok", "detail": detail, "loc": loc})

    def violation(self, rule, key, detail, loc=None, path=None):
        full = "%s/%s/%s" % (self.prop, rule, key)
        for v in self.violations:
            if v["key"] == full:
                return
        self.instances.append({"rule": rule, "instance": key, "status": "violation", "detail": detail, "loc": loc})
        self.violations.append({"key": full, "rule": rule, "detail": detail, "loc": loc, "path": path or []})

    def undecidable(self, rule, key, detail, loc=None):
        self.violation(rule + "/undecidable", key, "cannot discharge: " + detail, loc)

    def floor(self, rule, what, got, floor):
        """Fail closed when fewer instances were found than were counted by hand."""
        if got < floor:
            self.undecidable(rule, "floor:" + what, "%d instance(s) of %s found, at least %d expected" % (got, what, floor))
            return False
        return True

    def note(self, text):
        self.notes.append(text)

    def assume(self, text):
        if text not in self.assumptions:
            self.assumptions.append(text)

    # -- finishing ------------------------------------------------------------------------------------
    def finish(self, explanation, level="other", not_decided=""):
        known = {"findings": [], "fixed": []}
        if os.path.exists(KNOWN):
            with open(KNOWN) as f:
                known = json.load(f)
        known_keys = {k["key"]: k for k in known.get("findings", []) if k.get("property") == self.prop}
        new = []
        listed = []
        for v in self.violations:
            if v["key"] in known_keys:
                listed.append(v)
            else:
                new.append(v)
        os.makedirs(os.path.join(EVIDENCE, "violations"), exist_ok=True)
        lines = []
        for v in listed:
            lines.append("KNOWN-FINDING: property=%s %s — %s" % (self.prop, v["key"], known_keys[v["key"]].get("what", v["detail"])))
        for i, v in enumerate(new):
            rp = os.path.join(EVIDENCE, "violations", "%s-%d.json" % (self.prop, i))
            with open(rp, "w") as f:
                json.dump({"property": self.prop, "tier": self.tier, **v}, f, indent=1)
            lines.append("VIOLATION property=%s replay=%s" % (self.prop, rp))
            lines.append("  key: %s" % v["key"])
            lines.append("  at: %s" % v["loc"])
            lines.append("  why: %s" % v["detail"])
            for step in v["path"][:40]:
                lines.append("    %s" % step)
        ok_inst = [i for i in self.instances if i["status"] == "ok"]
        distinct = len({(i["rule"], i["instance"]) for i in ok_inst})
        samples = []
        seen_rules = set()
        for i in self.instances:
            if i["rule"] not in seen_rules or i["status"] != "ok":
                seen_rules.add(i["rule"])
                samples.append(i)
            if len(samples) >= 60:
                break
        wall = time.time() - self.t0
        ev = {
            "property_id": self.prop,
            "tier": self.tier,
            "seed": int(os.environ.get("VERIF_SEED", "0") or 0),
            "level": level,
            "coverage": {
                "explanation": explanation,
                "not_decided": not_decided,
                "rules": self.rules,
                "obligations": len(self.instances),
                "discharged": len(ok_inst),
                "evaluations": max(1, len(self.instances)),
                "distinct_nontrivial": distinct,
                "rule": "one evaluation per rule instance found in the dumped MIR (call site, field write, table row, path, event); an instance is non-trivial if it matched at least one concrete construct of /repo; distinct = distinct (rule, instance) pairs",
                "samples": samples,
                "checker_cmd": "bin/fcgi-verif check %s --tier %s" % (self.prop, self.tier),
                "trusted_base": TRUSTED_BASE,
                "configurations": self.configs,
                "analysed": self.stats,
                "notes": self.notes,
                "known_findings_listed": [v["key"] for v in listed],
                "exhaustive": False,
            },
            "assumptions": TRUSTED_BASE + self.assumptions,
            "wall_s": round(wall, 2),
            "violations": len(new),
        }
        os.makedirs(EVIDENCE, exist_ok=True)
        with open(os.path.join(EVIDENCE, "%s.json" % self.prop), "w") as f:
            json.dump(ev, f, indent=1, default=str)
        for l in lines:
            print(l)
        print("%s %s: %d rule instance(s), %d discharged, %d new violation(s), %d known finding(s), %.1fs" % (
            self.prop, self.tier, len(self.instances), len(ok_inst), len(new), len(listed), wall))
        return 1 if new else 0


def guard(report, rule, fn, *args):
    """Run a rule; an exception inside it (missing anchor, unmodelled construct) fails closed."""
    from facts import MissingAnchor
    from ieg import Undecidable
    try:
        fn(report, *args)
    except MissingAnchor as e:
        report.undecidable(rule, "missing-anchor", str(e))
    except Undecidable as e:
        report.undecidable(rule, "unmodelled", str(e))
    except Exception as e:  # a crash of the checker must never read as a pass
        report.undecidable(rule, "checker-error", "%s: %s\n%s" % (type(e).__name__, e, traceback.format_exc()[-1500:]))


def witnesses(report, prop, fx):
    """E7: compile-fail witnesses of the property (only in the default configuration: they test the public API's types)."""
    if fx.features != "async,http" or fx.doc.get("release"):
        return
    import witness
    report.rule("E7", "compile-fail witnesses: programs that would violate the type-level part of the property are rejected by the compiler with the stated error code; their twins without the offending line compile")
    guard(report, "E7", witness.run, prop)
