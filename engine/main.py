"""CLI: fcgi-verif check <ID> [--tier quick|thorough] | explain <file> | dump <pattern>"""
import argparse
import importlib
import json
import os
import sys

import check
import facts


REQUIRES = {"C07": "async", "C08": "async", "C09": "async", "C10": "async", "C11": "async", "C12": "async",
            "C13": "async", "C14": "async", "C20": "http"}


def all_configs():
    feats = facts.ALL_FEATURES
    out = []
    for mask in range(1 << len(feats)):
        fs = tuple(f for i, f in enumerate(feats) if mask & (1 << i))
        for release in (False, True):
            out.append((fs, release))
    return out


def run_thorough(prop, mod):
    """Every rule in every feature configuration that compiles its subject (16 feature sets x debug / release),
    then the self-validation corpus of the property (seeded breaking edits must fire, benign edits must stay silent)."""
    import subprocess
    rep = check.Report(prop, "thorough")
    captured = {}
    orig_load = facts.load
    need = REQUIRES.get(prop)
    ok_keys = None
    per_cfg = []
    try:
        for (fs, release) in all_configs():
            label = "%s/%s" % (",".join(fs) or "none", "release" if release else "debug")
            if need and need not in fs:
                per_cfg.append({"config": label, "skipped": "subject needs feature %s" % need})
                continue
            try:
                fx = orig_load(fs, release)
            except facts.ExtractError as e:
                rep.undecidable("E1", "extraction[%s]" % label, str(e)[-400:])
                continue
            sr = check.Report(prop, "thorough")

            def fake_finish(explanation, level="other", not_decided="", _sr=sr):
                captured["explanation"] = explanation
                captured["not_decided"] = not_decided
                return 0
            sr.finish = fake_finish
            facts.load = lambda *a, _fx=fx, **k: _fx
            mod.main(sr, "quick")
            keys = sorted(i["instance"] for i in sr.instances if i["status"] == "ok")
            per_cfg.append({"config": label, "bodies": len(fx.bodies), "instances": len(sr.instances), "violations": len(sr.violations)})
            for v in sr.violations:
                rep.violation(v["rule"], "%s [%s]" % (v["key"].split("/", 2)[2] if v["key"].count("/") >= 2 else v["key"], label), v["detail"], v["loc"], v["path"])
            if not rep.rules:
                rep.rules.update(sr.rules)
                rep.assumptions.extend(a for a in sr.assumptions if a not in rep.assumptions)
            if label == "async,http/debug":
                for i in sr.instances:
                    if i["status"] == "ok":
                        rep.instances.append(i)
                rep.stats.update(sr.stats)
                rep.notes.extend(sr.notes)
            else:
                rep.ok("CFG", "all-rules[%s]" % label, "%d rule instances discharged in this configuration" % len(keys))
    finally:
        facts.load = orig_load
    rep.configs = per_cfg
    if os.environ.get("FCGI_VERIF_NO_CORPUS"):
        # development aid only (never set by a registered command): configurations without the self-validation corpora
        return rep.finish(captured.get("explanation", ""), not_decided=captured.get("not_decided", ""))
    # self-validation corpus
    st = os.path.join(check.VERIF, "selftest", "run.py")
    r = subprocess.run([sys.executable, st, prop], capture_output=True, text=True)
    results = []
    for line in r.stdout.splitlines():
        parts = line.split(None, 1)
        if len(parts) == 2:
            results.append({"mutant": parts[0], "result": parts[1]})
            if parts[1].startswith("FAIL") or parts[1].startswith("ERROR"):
                rep.undecidable("SELFTEST", parts[0], "self-validation failed: %s" % parts[1])
            elif parts[1].startswith("ok"):
                rep.ok("SELFTEST", parts[0], parts[1])
    rep.stats["selftest"] = results
    # behaviour-preserving refactorings: this property's check must stay silent on each of them
    rep.stats["benign"] = run_benign(rep, prop)
    rep.rule("CFG", "every rule holds in every feature configuration that compiles its subject (16 feature sets x debug/release)")
    rep.rule("SELFTEST", "each seeded property-breaking edit of the corpus makes its rule fire; each benign edit leaves the check silent (skipped when /repo was edited so that the anchor text no longer applies)")
    return rep.finish(captured.get("explanation", ""), not_decided=captured.get("not_decided", ""))


def run_benign(rep, prop):
    import concurrent.futures as cf
    import glob
    import shutil
    import subprocess
    import tempfile
    diffs = sorted(glob.glob(os.path.join(check.VERIF, "selftest", "benign", "*.diff")))
    repo = os.environ.get("FCGI_VERIF_REPO", facts.REPO)

    def one(d):
        w = tempfile.mkdtemp(prefix="fcgi-bn.")
        wt = os.path.join(w, "wt")
        try:
            # a plain copy of the analysed tree (tracked files only), so this also works when /repo itself was edited
            os.makedirs(wt)
            r = subprocess.run("git -C %s ls-files -z | (cd %s && xargs -0 cp --parents -t %s)" % (repo, repo, wt), shell=True, capture_output=True, text=True)
            r = subprocess.run(["git", "apply", "--unsafe-paths", "--directory", wt, d], cwd=wt, capture_output=True, text=True)
            if r.returncode != 0:
                r = subprocess.run(["patch", "-s", "-p1", "-i", d], cwd=wt, capture_output=True, text=True)
                if r.returncode != 0:
                    return os.path.basename(d), "skipped (does not apply to this tree)"
            env = dict(os.environ, FCGI_VERIF_REPO=wt, FCGI_VERIF_EVIDENCE=os.path.join(w, "ev"), VERIF_TIER="quick")
            r = subprocess.run([os.path.join(check.VERIF, "bin", "fcgi-verif"), "check", prop, "--tier", "quick"], capture_output=True, text=True, env=env)
            keys = [l.split("key:", 1)[1].strip() for l in r.stdout.splitlines() if l.strip().startswith("key:")]
            return os.path.basename(d), ("silent" if r.returncode == 0 and not keys else "ALARM %s" % keys[:3])
        finally:
            shutil.rmtree(w, ignore_errors=True)
    out = []
    with cf.ThreadPoolExecutor(14) as ex:
        for name, res in ex.map(one, diffs):
            out.append({"refactoring": name, "result": res})
            if res.startswith("ALARM"):
                rep.undecidable("BENIGN", name, "the check fires on a behaviour-preserving refactoring: %s" % res)
    n_silent = sum(1 for o in out if o["result"] == "silent")
    rep.rule("BENIGN", "the check stays silent on every behaviour-preserving refactoring of selftest/benign/ that applies to the analysed tree")
    rep.ok("BENIGN", "corpus", "%d refactorings silent, %d not applicable to this tree" % (n_silent, sum(1 for o in out if o["result"].startswith("skipped"))))
    return out


def run_check(prop, tier):
    rep = check.Report(prop, tier)
    try:
        mod = importlib.import_module("rules." + prop.lower())
    except ModuleNotFoundError:
        print("no rules for %s" % prop)
        return 2
    try:
        if tier == "thorough":
            return run_thorough(prop, mod)
        return mod.main(rep, tier)
    except facts.ExtractError as e:
        rep.undecidable("E1", "extraction", str(e))
        return rep.finish("fact extraction failed")


def main(argv):
    ap = argparse.ArgumentParser()
    sub = ap.add_subparsers(dest="cmd")
    c = sub.add_parser("check")
    c.add_argument("prop")
    c.add_argument("--tier", default=os.environ.get("VERIF_TIER", "quick"))
    e = sub.add_parser("explain")
    e.add_argument("file")
    d = sub.add_parser("dump")
    d.add_argument("pattern")
    d.add_argument("--features", default="async,http")
    a = ap.parse_args(argv)
    if a.cmd == "check":
        return run_check(a.prop.upper(), a.tier)
    if a.cmd == "explain":
        v = json.load(open(a.file))
        print("property %s  rule %s" % (v["property"], v["rule"]))
        print("key  %s" % v["key"])
        print("at   %s" % v["loc"])
        print("why  %s" % v["detail"])
        for s in v.get("path", []):
            print("   " + s)
        print("re-run: bin/fcgi-verif check %s --tier %s" % (v["property"], v.get("tier", "quick")))
        return 0
    if a.cmd == "dump":
        import pp
        f = facts.load(tuple(x for x in a.features.split(",") if x))
        for b in f.bodies:
            if a.pattern in b.npath or a.pattern in b.path:
                pp.dump(b)
        return 0
    ap.print_help()
    return 2
