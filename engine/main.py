"""CLI: fcgi-verif check <ID> [--tier quick|thorough] | explain <file> | dump <pattern>"""
import argparse
import importlib
import json
import os
import sys

import check
import facts


def run_check(prop, tier):
    rep = check.Report(prop, tier)
    try:
        mod = importlib.import_module("rules." + prop.lower())
    except ModuleNotFoundError:
        print("no rules for %s" % prop)
        return 2
    try:
        return mod.main(rep, tier)
    except facts.ExtractError as e:
        rep.undecidable("E1", "extraction", str(e))
        return rep.finish("fact extraction failed")


def main(argv):
    ap = argparse.ArgumentParser()
    sub = ap.add_subparsers(dest="cmd")
    c = sub.add_parser("check")
    c.add_argument("prop")
    c.add_argument("--tier", default=os.environ.get("VERIF_TIER", "quick"))
    e = sub.add_parser("explain")
    e.add_argument("file")
    d = sub.add_parser("dump")
    d.add_argument("pattern")
    d.add_argument("--features", default="async,http")
    a = ap.parse_args(argv)
    if a.cmd == "check":
        return run_check(a.prop.upper(), a.tier)
    if a.cmd == "explain":
        v = json.load(open(a.file))
        print("property %s  rule %s" % (v["property"], v["rule"]))
        print("key  %s" % v["key"])
        print("at   %s" % v["loc"])
        print("why  %s" % v["detail"])
        for s in v.get("path", []):
            print("   " + s)
        print("re-run: bin/fcgi-verif check %s --tier %s" % (v["property"], v.get("tier", "quick")))
        return 0
    if a.cmd == "dump":
        import pp
        f = facts.load(tuple(x for x in a.features.split(",") if x))
        for b in f.bodies:
            if a.pattern in b.npath or a.pattern in b.path:
                pp.dump(b)
        return 0
    ap.print_help()
    return 2
