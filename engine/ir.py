"""E4 — value provenance over dumped MIR: def-use index, reaching definitions, expression trees.

Expressions are plain tuples (hashable, printable):
  ('param', i, name)            parameter i of the body the expression was resolved in
  ('upvar', i, name)            captured variable i of a closure / coroutine (field i of _1)
  ('local', l, name)            unresolved local (no or several definitions)
  ('const', value, ty)          value: int | bytes | str | None
  ('fn', path)                  function item constant
  ('field', base, name)         field projection (name or index)
  ('variant', base, name)       enum downcast
  ('index', base, idx)          slice / array element (idx expr or int)
  ('slice', base, from, to, from_end)
  ('ref', base) / ('deref', base)       kept only when `keep_refs` is set; erased otherwise
  ('call', callee, args, site)  result of a call; site = (body path, block)
  ('bin', op, a, b) ('un', op, a) ('cast', kind, a, ty) ('discr', base)
  ('agg', kind, name, fields)   fields: tuple of (fieldname, expr)
  ('phi', exprs)                several reaching definitions
  ('resume',)                   resume argument of a yield
Nothing is evaluated; the trees only record where a value comes from.
"""
from facts import norm

MAX_DEPTH = 40


class DefUse:
    """Definition sites of every local of one body."""

    def __init__(self, body):
        self.body = body
        self.defs = {}  # local -> list of (bb, idx) ; idx == -1 for terminator
        for bi, blk in enumerate(body.blocks):
            for si, st in enumerate(blk["st"]):
                if st["k"] == "assign":
                    p = st["place"]
                    if "p" not in p:
                        self.defs.setdefault(p["l"], []).append((bi, si))
            t = blk["t"]
            if t["k"] == "call":
                p = t["dest"]
                if "p" not in p:
                    self.defs.setdefault(p["l"], []).append((bi, -1))
            elif t["k"] == "yield":
                p = t["resume_arg"]
                if "p" not in p:
                    self.defs.setdefault(p["l"], []).append((bi, -1))
        # partial writes (field assignments to a local aggregate): local -> list of sites
        self.partial = {}
        for bi, blk in enumerate(body.blocks):
            for si, st in enumerate(blk["st"]):
                if st["k"] == "assign" and "p" in st["place"]:
                    pr = st["place"]["p"]
                    if not any("deref" in e for e in pr):
                        self.partial.setdefault(st["place"]["l"], []).append((bi, si))

    def reaching(self, l, at):
        """Definition sites of local `l` that reach program point `at` = (bb, idx)."""
        ds = self.defs.get(l, [])
        if not ds:
            return []
        if len(ds) == 1:
            return list(ds)
        by_block = {}
        for (b, i) in ds:
            by_block.setdefault(b, []).append(i)
        bb, idx = at
        res = []
        # definitions earlier in the same block
        best = None
        for i in by_block.get(bb, []):
            pos = i if i >= 0 else 10 ** 9
            cur = idx if idx >= 0 else 10 ** 9
            if pos < cur and (best is None or pos > best[0]):
                best = (pos, i)
        if best is not None:
            return [(bb, best[1])]
        preds = self.body.preds()
        seen = set()
        work = list(preds[bb])
        while work:
            b = work.pop()
            if b in seen:
                continue
            seen.add(b)
            if b in by_block:
                # last def in that block
                last = max(by_block[b], key=lambda i: i if i >= 0 else 10 ** 9)
                res.append((b, last))
                continue
            work.extend(preds[b])
        return res


_DU = {}


def defuse(body):
    k = id(body)
    if k not in _DU:
        _DU[k] = DefUse(body)
    return _DU[k]


def const_expr(c):
    """('const', value, ty) for literals; ('constdef', name, ty, value) for named constants."""
    if "fn" in c:
        return ('fn', norm(c["fn"]))
    if "promoted" in c:
        return ('promoted', c["promoted"], c.get("def"))
    k = c.get("k")
    v = None
    if k == "int":
        v = int(c["v"])
    elif "bytes" in c:
        v = bytes(c["bytes"])
        # a reference to a slice / str stored in memory: fat pointer (address, length) with one relocation
        if c.get("ptrs") and c.get("ty", "").startswith("&") and len(v) == 16:
            for (off, tgt) in c["ptrs"]:
                if off == 0 and tgt is not None:
                    n = int.from_bytes(v[8:16], "little")
                    if n <= len(tgt):
                        v = bytes(tgt[:n])
    if "def" in c:
        return ('constdef', norm(c["def"]), c["ty"], v)
    return ('const', v, c["ty"])


def const_value(e):
    """Value of a literal or named constant expression (int / bytes), else None."""
    e = peel(e, casts=False)
    if e[0] == 'const':
        return e[1]
    if e[0] == 'constdef':
        return e[3]
    return None


class Resolver:
    """Resolve operands / places of one body into expression trees."""

    def __init__(self, body, keep_refs=False, opaque_mut_borrowed=False):
        self.body = body
        self.du = defuse(body)
        self.keep_refs = keep_refs
        self.is_closure = body.kind == "Closure"
        # locals whose address is taken mutably can change behind the resolver's back: optionally keep them opaque
        self.opaque = set()
        if opaque_mut_borrowed:
            for blk in body.blocks:
                for st in blk["st"]:
                    if st["k"] == "assign" and st["rv"]["k"] == "ref" and st["rv"].get("bk") == "mut" and "p" not in st["rv"]["place"]:
                        self.opaque.add(st["rv"]["place"]["l"])

    # -- places ---------------------------------------------------------------------------------
    def place(self, p, at, depth=0, seen=()):
        base = self.local(p["l"], at, depth, seen)
        return self.project(base, p.get("p", []), at, depth, seen)

    def project(self, base, proj, at, depth=0, seen=()):
        e = base
        for el in proj:
            if "deref" in el:
                if self.keep_refs:
                    e = ('deref', e)
            elif "f" in el:
                if self.is_closure and e == ('param', 1, self.body.local_name(1)):
                    e = ('upvar', el["f"], self.body.upvars.get(el["f"], str(el["f"])))
                elif e[0] == 'agg' and e[1] != 'adt':
                    # projection out of a known tuple / capture aggregate (struct fields are mutable state)
                    name = el.get("n", el["f"])
                    hit = None
                    for (fn, fe) in e[3]:
                        if fn == name or fn == el["f"]:
                            hit = fe
                    e = hit if hit is not None else ('field', e, name)
                else:
                    e = ('field', e, el.get("n", el["f"]))
            elif "variant" in el:
                e = ('variant', e, el.get("vn", el["variant"]))
            elif "idx" in el:
                e = ('index', e, self.local(el["idx"], at, depth + 1, seen))
            elif "cidx" in el:
                e = ('index', e, ('const', (-el["cidx"] if el["from_end"] else el["cidx"]), 'usize'))
            elif "sub_from" in el:
                e = ('slice', e, el["sub_from"], el["sub_to"], el["from_end"])
            if e[0] == 'field' and str(e[2]) == '0' and e[1][0] == 'bin' and e[1][1].endswith("WithOverflow"):
                e = ('bin', e[1][1][:-len("WithOverflow")], e[1][2], e[1][3])
        return e

    def local(self, l, at, depth=0, seen=()):
        body = self.body
        name = body.local_name(l)
        if depth > MAX_DEPTH or l in self.opaque:
            return ('local', l, name)
        ds = self.du.reaching(l, at) if at is not None else self.du.defs.get(l, [])
        if not ds:
            if 1 <= l <= body.argc:
                return ('param', l, name)
            return ('local', l, name)
        if len(ds) == 1:
            return self.at_def(l, ds[0], depth, seen)
        outs = []
        for d in ds:
            e = self.at_def(l, d, depth, seen)
            if e not in outs:
                outs.append(e)
        if 1 <= l <= body.argc:
            # parameter reassigned on some paths
            pass
        if len(outs) == 1:
            return outs[0]
        return ('phi', tuple(outs))

    def at_def(self, l, d, depth, seen):
        key = (l, d)
        if key in seen:
            return ('local', l, self.body.local_name(l))
        seen = seen + (key,)
        bb, idx = d
        blk = self.body.blocks[bb]
        if idx == -1:
            t = blk["t"]
            if t["k"] == "call":
                return self.call_expr(t, bb, depth + 1, seen)
            return ('resume',)
        st = blk["st"][idx]
        return self.rvalue(st["rv"], (bb, idx), depth + 1, seen)

    # -- operands / rvalues ---------------------------------------------------------------------
    def operand(self, o, at, depth=0, seen=()):
        if "copy" in o:
            return self.place(o["copy"], at, depth, seen)
        if "move" in o:
            return self.place(o["move"], at, depth, seen)
        if "const" in o:
            c = const_expr(o["const"])
            if c[0] == 'promoted':
                r = self.promoted(c[1])
                if r is not None:
                    return r
            return c
        return ('const', None, '?')

    def promoted(self, idx):
        """Value of a promoted constant of this body (a tiny body that builds `_0`)."""
        facts = self.body.facts
        base = self.body.path
        if self.body.promoted:
            return None
        pb = facts.by_path.get("%s::{promoted#%d}" % (base, idx))
        if pb is None:
            return None
        r = Resolver(pb, self.keep_refs)
        # the value of `_0` at the return block
        for bi, blk in enumerate(pb.blocks):
            if blk["t"]["k"] == "return":
                return r.local(0, (bi, -1))
        return None

    def callee_name(self, f):
        if "path" not in f:
            return 'indirect'
        if "res" in f:
            return norm(f["res"]["path"])
        return norm(f["path"])

    def call_expr(self, t, bb, depth=0, seen=()):
        f = t["func"]
        args = tuple(self.operand(a, (bb, -1), depth + 1, seen) for a in t["args"])
        return ('call', self.callee_name(f), args, (self.body.path, bb))

    def rvalue(self, r, at, depth=0, seen=()):
        k = r["k"]
        if k == "use":
            return self.operand(r["op"], at, depth, seen)
        if k in ("ref", "rawptr"):
            e = self.place(r["place"], at, depth, seen)
            return ('ref', e) if self.keep_refs else e
        if k == "cast":
            return ('cast', r["ck"], self.operand(r["op"], at, depth, seen), r["ty"])
        if k == "bin":
            return ('bin', r["op"], self.operand(r["a"], at, depth, seen), self.operand(r["b"], at, depth, seen))
        if k == "un":
            return ('un', r["op"], self.operand(r["a"], at, depth, seen))
        if k == "discr":
            return ('discr', self.place(r["place"], at, depth, seen), norm(r.get("of", "")))
        if k == "agg":
            ops = [self.operand(o, at, depth, seen) for o in r["ops"]]
            ak = r["ak"]
            if ak == "adt":
                names = r.get("fields", [])
                if len(names) != len(ops):
                    names = list(range(len(ops)))
                return ('agg', 'adt', norm(r["adt"]) + "::" + r["vn"], tuple(zip(names, ops)))
            if ak in ("closure", "coroutine", "coroutine_closure"):
                return ('agg', ak, r["def"], tuple(enumerate(ops)))
            return ('agg', ak, r.get("ety", ""), tuple(enumerate(ops)))
        if k == "repeat":
            return ('agg', 'repeat', r["n"], ((0, self.operand(r["op"], at, depth, seen)),))
        return ('const', None, '?')


# -------------------------------------------------------------------------------------------------
# helpers over expression trees

TRANSPARENT = {
    "std::pin::Pin::new", "std::pin::Pin::new_unchecked", "std::pin::Pin::get_mut", "std::pin::Pin::as_mut",
    "std::pin::Pin::into_ref", "std::pin::Pin::get_ref", "std::pin::Pin::get_unchecked_mut",
    "std::ops::Deref::deref", "std::ops::DerefMut::deref_mut",
    "std::convert::AsRef::as_ref", "std::convert::AsMut::as_mut", "std::borrow::Borrow::borrow",
    "std::borrow::BorrowMut::borrow_mut",
    "std::convert::Into::into", "std::convert::From::from",
    "std::future::IntoFuture::into_future",
    "std::option::Option::as_deref_mut", "std::option::Option::as_deref", "std::option::Option::as_mut",
    "std::option::Option::as_ref",
    "std::iter::IntoIterator::into_iter",
}


def is_transparent(name):
    if name in TRANSPARENT:
        return True
    # the lossless integer widenings `impl From<u16> for usize` etc. (core::convert::num)
    if name == "std::convert::num::from" or name == "core::convert::num::from":
        return True
    # resolved impls of the same traits: `<X as std::ops::Deref>::deref`
    for t in ("std::ops::Deref>::deref", "std::ops::DerefMut>::deref_mut", "std::convert::AsRef>::as_ref",
              "std::convert::Into>::into", "std::convert::From>::from", "std::borrow::Borrow>::borrow",
              "std::future::IntoFuture>::into_future", "std::convert::AsMut>::as_mut",
              "std::iter::IntoIterator>::into_iter"):
        if name.endswith(t):
            return True
    return False


def peel(e, casts=True):
    """Strip borrow noise: refs, derefs, transparent calls, (optionally) casts."""
    while True:
        if e[0] in ('ref', 'deref'):
            e = e[1]
        elif e[0] == 'cast' and casts:
            e = e[2]
        elif e[0] == 'call' and is_transparent(e[1]) and len(e[2]) >= 1:
            e = e[2][0]
        else:
            return e


TRY_BRANCH_RESULT = "<std::result::Result as std::ops::Try>::branch"
FROM_RESIDUAL_RESULT = "<std::result::Result as std::ops::FromResidual>::from_residual"


_SIMP = {}


def _unwiden(e):
    """x if e is x widened from a narrower integer (`u16::from(x)`, `x.into()`, `x as u16`), else None."""
    while e[0] in ('ref', 'deref'):
        e = e[1]
    if e[0] == 'cast':
        return e[2]
    if e[0] == 'call' and len(e[2]) == 1 and (e[1] in ("std::convert::Into::into", "std::convert::From::from") or e[1].endswith("From>::from")
                                              or e[1].endswith("Into>::into") or e[1].startswith("std::convert::num::")):
        return e[2][0]
    return None


def simplify(e):
    """Fold projections out of known aggregates: (agg{..} as V).k -> field k.  Results are remembered by object identity
    (expressions are immutable tuples that are shared between the rows of a decision table)."""
    key = id(e)
    hit = _SIMP.get(key)
    if hit is not None and hit[0] is e:
        return hit[1]
    r = _simplify(e)
    if len(_SIMP) > 3000000:
        _SIMP.clear()
    _SIMP[key] = (e, r)
    _SIMP[id(r)] = (r, r)
    return r


def _simplify(e):
    k = e[0]
    if k == 'field':
        b = simplify(e[1])
        # checked arithmetic: (a +? b).0  ==  a + b   (debug builds emit AddWithOverflow + assert, release plain Add)
        if b[0] == 'bin' and b[1].endswith("WithOverflow") and str(e[2]) == '0':
            return ('bin', b[1][:-len("WithOverflow")], b[2], b[3])
        inner = b
        # projection distributes over a join of alternatives: (phi(a, b) as V).f == phi((a as V).f, (b as V).f), where
        # alternatives that are visibly another variant drop out
        if inner[0] == 'variant' and peel(inner[1])[0] == 'phi':
            alts = []
            for a in peel(inner[1])[1]:
                pa = peel(a)
                if pa[0] == 'agg' and pa[1] == 'adt' and not pa[2].endswith("::" + str(inner[2])):
                    continue
                alts.append(simplify(('field', ('variant', a, inner[2]), e[2])))
            if len(alts) == 1:
                return alts[0]
            if alts:
                return ('phi', tuple(alts))
        # `?` on a Result: (Try::branch(R) as Continue).0 == (R as Ok).0
        if inner[0] == 'variant' and inner[2] == 'Continue' and str(e[2]) == '0':
            br = peel(inner[1])
            if br[0] == 'call' and br[1] == TRY_BRANCH_RESULT and br[2]:
                return simplify(('field', ('variant', br[2][0], 'Ok'), e[2]))
        if inner[0] == 'variant':
            inner2 = inner[1]
            if inner2[0] == 'agg' and inner2[1] == 'adt' and inner2[2].endswith("::" + str(inner[2])):
                for (n, x) in inner2[3]:
                    if n == e[2]:
                        return x
        if inner[0] == 'agg' and inner[1] != 'adt':
            # tuples, arrays, closure / coroutine captures; struct fields are mutable state and are not folded
            for (n, x) in inner[3]:
                if n == e[2]:
                    return x
        if inner[0] == 'agg' and inner[1] == 'adt' and len(inner[3]) == 1 and str(inner[3][0][0]) == '0' and str(e[2]) == '0' \
                and inner[2].rsplit("::", 1)[0].rsplit("::", 1)[-1] == inner[2].rsplit("::", 1)[-1]:
            # a private newtype `Wrapper(x)`: `.0` of the literal is x (a struct, not an enum variant: path ends Name::Name)
            return inner[3][0][1]
        return (k, b, e[2])
    if k == 'variant':
        return (k, simplify(e[1]), e[2])
    if k in ('ref', 'deref', 'discr'):
        return (k, simplify(e[1])) + tuple(e[2:])
    if k == 'call':
        args = tuple(simplify(a) for a in e[2])
        # `?` on a Result, error side: from_residual((Try::branch(R) as Break).0) == Err(From::from((R as Err).0))
        if e[1] == FROM_RESIDUAL_RESULT and len(args) == 1:
            x = peel(args[0])
            if x[0] == 'field' and str(x[2]) == '0' and x[1][0] == 'variant' and x[1][2] == 'Break':
                br = peel(x[1][1])
                if br[0] == 'call' and br[1] == TRY_BRANCH_RESULT and br[2]:
                    pay = simplify(('field', ('variant', br[2][0], 'Err'), '0'))
                    return ('agg', 'adt', 'std::result::Result::Err', (('0', pay),))
        return (k, e[1], args, e[3])
    if k == 'bin':
        a, b = simplify(e[2]), simplify(e[3])
        if e[1] == 'BitOr':
            # big-endian composition spelled with shifts: (wide(hi) << 8) | wide(lo)  ==  from_be_bytes([hi, lo])
            for hi_, lo_ in ((a, b), (b, a)):
                sh = peel(hi_, casts=False)
                if sh[0] == 'field' and peel(sh[1], casts=False)[0] == 'bin':
                    sh = peel(sh[1], casts=False)
                if sh[0] == 'bin' and sh[1].replace("WithOverflow", "").replace("Unchecked", "") == 'Shl' and const_value(peel(sh[3])) == 8:
                    hi = _unwiden(sh[2])
                    lo = _unwiden(lo_)
                    if hi is not None and lo is not None:
                        return ('call', "core::num::from_be_bytes", (('agg', 'array', 'u8', ((0, hi), (1, lo))),), ('synthetic', 0))
        return (k, e[1], a, b)
    if k == 'un':
        return (k, e[1], simplify(e[2]))
    if k == 'cast':
        return (k, e[1], simplify(e[2]), e[3])
    if k == 'agg':
        return (k, e[1], e[2], tuple((n, simplify(x)) for n, x in e[3]))
    if k == 'phi':
        return (k, tuple(simplify(x) for x in e[1]))
    if k == 'index':
        return (k, simplify(e[1]), simplify(e[2]) if isinstance(e[2], tuple) else e[2])
    return e


_CMP_FACT = {('Lt', True): ('lt', 0, 1), ('Lt', False): ('le', 1, 0), ('Le', True): ('le', 0, 1), ('Le', False): ('lt', 1, 0),
             ('Gt', True): ('lt', 1, 0), ('Gt', False): ('le', 0, 1), ('Ge', True): ('le', 1, 0), ('Ge', False): ('lt', 0, 1),
             ('Eq', True): ('eq', 0, 1), ('Eq', False): ('ne', 0, 1), ('Ne', True): ('ne', 0, 1), ('Ne', False): ('eq', 0, 1)}


def cmp_fact(e, lab):
    """The order fact known on a switch edge, in canonical orientation: ('lt'|'le'|'eq'|'ne', a, b), i.e. a < b,
    a <= b, ...; independent of how the test was spelled (`a < b` taken, `b > a` taken, `!(a >= b)`, `a >= b` not taken)."""
    pe = peel(e, casts=False)
    neg = False
    while pe[0] == 'un' and pe[1] == 'Not':
        neg = not neg
        pe = peel(pe[2], casts=False)
    if pe[0] != 'bin' or pe[1] not in ('Lt', 'Le', 'Gt', 'Ge', 'Eq', 'Ne') or not isinstance(lab, tuple):
        return None
    if lab[0] == 'otherwise':
        t = True
    elif lab[0] == 'case':
        t = lab[1] != 0
    else:
        return None
    if neg:
        t = not t
    k, i, j = _CMP_FACT[(pe[1], t)]
    ops = (pe[2], pe[3])
    return (k, ops[i], ops[j])


def walk(e):
    """All sub-expressions, pre-order."""
    yield e
    k = e[0]
    if k in ('field', 'variant', 'ref', 'deref', 'discr', 'slice'):
        yield from walk(e[1])
    elif k == 'index':
        yield from walk(e[1])
        if isinstance(e[2], tuple):
            yield from walk(e[2])
    elif k == 'call':
        for a in e[2]:
            yield from walk(a)
    elif k == 'bin':
        yield from walk(e[2])
        yield from walk(e[3])
    elif k == 'un':
        yield from walk(e[2])
    elif k == 'cast':
        yield from walk(e[2])
    elif k == 'agg':
        for (_, x) in e[3]:
            yield from walk(x)
    elif k == 'phi':
        for x in e[1]:
            yield from walk(x)


def mentions(e, pred):
    return any(pred(x) for x in walk(e))


def calls_in(e, name=None):
    return [x for x in walk(e) if x[0] == 'call' and (name is None or x[1] == name)]


def show(e, depth=0):
    if depth > 12:
        return "…"
    k = e[0]
    d = depth + 1
    if k == 'param':
        return str(e[2])
    if k == 'upvar':
        return "^" + str(e[2])
    if k == 'local':
        return str(e[2])
    if k == 'const':
        v = e[1]
        if isinstance(v, bytes):
            try:
                return "b%r" % v.decode("ascii")
            except Exception:
                return "bytes(%d)" % len(v)
        if v is None:
            return "<%s>" % e[2]
        return "%s" % (v,)
    if k == 'fn':
        return "fn " + e[1]
    if k == 'constdef':
        return e[1].split("::", 1)[-1] if e[1].count("::") > 2 else e[1]
    if k == 'promoted':
        return "promoted#%s" % e[1]
    if k == 'field':
        return "%s.%s" % (show(e[1], d), e[2])
    if k == 'variant':
        return "(%s as %s)" % (show(e[1], d), e[2])
    if k == 'index':
        i = e[2]
        return "%s[%s]" % (show(e[1], d), show(i, d) if isinstance(i, tuple) else i)
    if k == 'slice':
        return "%s[%s..%s%s]" % (show(e[1], d), e[2], "-" if e[4] else "", e[3])
    if k == 'ref':
        return "&" + show(e[1], d)
    if k == 'deref':
        return "*" + show(e[1], d)
    if k == 'call':
        return "%s(%s)" % (e[1].split("::")[-1] if not e[1].startswith("<") else e[1], ", ".join(show(a, d) for a in e[2]))
    if k == 'bin':
        return "%s(%s, %s)" % (e[1], show(e[2], d), show(e[3], d))
    if k == 'un':
        return "%s(%s)" % (e[1], show(e[2], d))
    if k == 'cast':
        return "(%s as %s)" % (show(e[2], d), e[3])
    if k == 'discr':
        return "discr(%s)" % show(e[1], d)
    if k == 'agg':
        return "%s{%s}" % (e[2] if e[1] in ('adt', 'closure', 'coroutine') else e[1], ", ".join("%s: %s" % (n, show(x, d)) for n, x in e[3]))
    if k == 'phi':
        return "phi(%s)" % " | ".join(show(x, d) for x in e[1])
    if k == 'resume':
        return "<resume>"
    return str(e)
