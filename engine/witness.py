"""E7 — run the compile-fail witnesses (and their compiling twins) of one property.

The witness crate is instantiated in a scratch directory under .cache with a path dependency on the
analysed tree; nothing of the analysed crate is executed: every doctest either must fail to compile with
the stated error code, or (twins) is compiled and trivially run (the twins only define functions)."""
import fcntl
import os
import re
import shutil
import subprocess
import tempfile

import facts as F


def _prune(tdir):
    """The shared target directory keeps the compiled dependencies (they never change); what was built from the analysed tree and from the
    scratch witness crate is keyed by their paths, differs for every analysed copy and is removed again (≈40 MB per copy otherwise)."""
    import glob
    for sub, pats in (("deps", ("libfastcgi_server-*", "fastcgi_server-*", "libfcgi_witness-*", "fcgi_witness-*")),
                      (".fingerprint", ("fastcgi-server-*", "fcgi-witness-*")),
                      ("incremental", ("fastcgi_server-*", "fcgi_witness-*"))):
        for pat in pats:
            for f in glob.glob(os.path.join(tdir, "debug", sub, pat)):
                if os.path.isdir(f):
                    shutil.rmtree(f, ignore_errors=True)
                else:
                    try:
                        os.unlink(f)
                    except OSError:
                        pass


def run(rep, prop, rule="E7"):
    repo = os.environ.get("FCGI_VERIF_REPO", F.REPO)
    src = os.path.join(F.VERIF, "witness")
    os.makedirs(F.CACHE, exist_ok=True)
    work = tempfile.mkdtemp(prefix="witness-", dir=F.CACHE)
    try:
        os.makedirs(os.path.join(work, "src"))
        shutil.copy(os.path.join(src, "src", "lib.rs"), os.path.join(work, "src", "lib.rs"))
        with open(os.path.join(src, "Cargo.toml.in")) as f:
            toml = f.read().replace("@REPO@", repo)
        with open(os.path.join(work, "Cargo.toml"), "w") as f:
            f.write(toml)
        shutil.copy(os.path.join(repo, "Cargo.lock"), os.path.join(work, "Cargo.lock"))
        env = dict(os.environ, CARGO_NET_OFFLINE="true", CARGO_INCREMENTAL="0",
                   CARGO_TARGET_DIR=os.path.join(F.CACHE, "witness-target"))
        env.pop("RUSTC_WORKSPACE_WRAPPER", None)
        env.pop("RUSTFLAGS", None)
        flt = prop.lower() + "_"
        lock = open(os.path.join(F.CACHE, "witness.lock"), "w")
        fcntl.flock(lock, fcntl.LOCK_EX)
        try:
            r = subprocess.run(["cargo", "+nightly", "test", "--doc", "--offline", "--", flt],
                               cwd=work, env=env, capture_output=True, text=True)
        finally:
            try:
                _prune(env["CARGO_TARGET_DIR"])
            finally:
                fcntl.flock(lock, fcntl.LOCK_UN)
                lock.close()
        out = r.stdout + r.stderr
        tests = re.findall(r"^test (src/lib\.rs - (\S+) \(line \d+\)( - compile fail)?) \.\.\. (\w+)", out, re.M)
        if not tests:
            rep.undecidable(rule, "witnesses", "no witness ran for %s: %s" % (prop, out[-600:]))
            return 0
        n = 0
        for (full, name, cf, res) in tests:
            n += 1
            kind = "compile_fail" if cf else "twin"
            key = "%s[%s]" % (name, kind)
            if res == "ok":
                rep.ok(rule, key, "rejected by the compiler with the stated error code" if cf else "the twin without the offending line compiles")
            else:
                why = ("the program that must be rejected compiles (or fails with a different error): the type-level guarantee is gone"
                       if cf else "the compiling twin no longer compiles: the public API changed, the witness cannot be trusted")
                if cf:
                    rep.violation(rule, key, why)
                else:
                    rep.undecidable(rule, key, why)
        return n
    finally:
        shutil.rmtree(work, ignore_errors=True)
