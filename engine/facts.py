"""Fact base: runs the rustc driver (E1) on /repo and loads the JSON it emits.

Nothing here executes code of the analysed crate: the driver stops after type checking and MIR
construction (cargo check), and everything downstream works on the dumped CFGs.
"""
import fcntl
import json
import os
import re
import shutil
import subprocess
import sys
import tempfile
import time
import uuid

VERIF = os.path.dirname(os.path.dirname(os.path.abspath(__file__)))
REPO = os.environ.get("FCGI_VERIF_REPO", "/repo")
CACHE = os.path.join(VERIF, ".cache")
DRIVER = os.path.join(VERIF, "driver", "target", "release", "fcgi-facts")

ALL_FEATURES = ["async", "http", "log", "trace-more"]
# floors measured on the pinned tree (bodies incl. promoted ones) for the default configuration
BODY_FLOOR = {"async,http": 800}


class ExtractError(Exception):
    pass


def _sysroot():
    out = subprocess.run(["rustc", "+nightly", "--print", "sysroot"], capture_output=True, text=True)
    if out.returncode != 0:
        raise ExtractError("nightly toolchain not available: " + out.stderr)
    return out.stdout.strip()


def ensure_driver():
    if os.path.exists(DRIVER):
        src = os.path.join(VERIF, "driver", "src", "main.rs")
        if os.path.getmtime(src) <= os.path.getmtime(DRIVER):
            return
    env = dict(os.environ, CARGO_NET_OFFLINE="true")
    r = subprocess.run(["cargo", "build", "--release", "--offline"], cwd=os.path.join(VERIF, "driver"),
                       env=env, capture_output=True, text=True)
    if r.returncode != 0:
        raise ExtractError("driver build failed:\n" + r.stderr[-4000:])


def _tree_key(repo, feats, release):
    import hashlib
    h = hashlib.sha1()
    h.update(("%s|%s|" % (feats, release)).encode())
    for root, dirs, files in os.walk(os.path.join(repo, "src")):
        dirs.sort()
        for fn in sorted(files):
            if fn.endswith(".rs"):
                p = os.path.join(root, fn)
                h.update(os.path.relpath(p, repo).encode())
                h.update(open(p, "rb").read())
    for fn in ("Cargo.toml", "Cargo.lock"):
        p = os.path.join(repo, fn)
        if os.path.exists(p):
            h.update(open(p, "rb").read())
    return h.hexdigest()


def extract(features=("async", "http"), release=False, repo=None, keep=False):
    """Run the driver over `repo` with the given cargo features; return the parsed JSON document."""
    repo = repo or REPO
    ensure_driver()
    os.makedirs(CACHE, exist_ok=True)
    feats = ",".join(sorted(features))
    # optional content-addressed cache (used by the self-test / seed-matrix tools only; never by registered checks)
    cdir = os.environ.get("FCGI_VERIF_FACTS_CACHE")
    ckey = None
    if cdir:
        os.makedirs(cdir, exist_ok=True)
        ckey = os.path.join(cdir, _tree_key(repo, feats, release) + ".json")
        if os.path.exists(ckey):
            with open(ckey) as f:
                doc = json.load(f)
            doc["features"] = feats
            doc["release"] = release
            return doc
    tdir = os.path.join(CACHE, "target")
    nonce = uuid.uuid4().hex
    out = os.path.join(CACHE, "facts-%s-%s-%s.json" % (feats.replace(",", "_") or "none", "rel" if release else "dbg", nonce[:8]))
    env = dict(os.environ)
    env.update({
        "CARGO_NET_OFFLINE": "true",
        "CARGO_INCREMENTAL": "0",
        "LD_LIBRARY_PATH": os.path.join(_sysroot(), "lib") + ":" + env.get("LD_LIBRARY_PATH", ""),
        "RUSTFLAGS": "-Zmir-opt-level=0 -Awarnings",
        "RUSTC_WORKSPACE_WRAPPER": DRIVER,
        "CARGO_TARGET_DIR": tdir,
        "FCGI_FACTS_OUT": out,
        "FCGI_FACTS_NONCE": nonce,
    })
    env.pop("RUSTC_WRAPPER", None)
    cmd = ["cargo", "+nightly", "check", "--offline", "--lib", "--no-default-features"]
    if feats:
        cmd += ["--features", feats]
    if release:
        cmd += ["--release"]
    lock = open(os.path.join(CACHE, "cargo.lock"), "w")
    fcntl.flock(lock, fcntl.LOCK_EX)
    try:
        # cargo's freshness cache would skip the wrapper: drop the member crate's fingerprints
        prof = "release" if release else "debug"
        fdir = os.path.join(tdir, prof, ".fingerprint")
        if os.path.isdir(fdir):
            for n in os.listdir(fdir):
                if n.startswith("fastcgi-server-"):
                    shutil.rmtree(os.path.join(fdir, n), ignore_errors=True)
        r = subprocess.run(cmd, cwd=repo, env=env, capture_output=True, text=True)
    finally:
        fcntl.flock(lock, fcntl.LOCK_UN)
        lock.close()
    if r.returncode != 0:
        raise ExtractError("cargo check failed (features=%s):\n%s" % (feats, r.stderr[-6000:]))
    if not os.path.exists(out):
        raise ExtractError("driver produced no fact file (features=%s); stderr:\n%s" % (feats, r.stderr[-3000:]))
    with open(out) as f:
        doc = json.load(f)
    if not keep:
        os.unlink(out)
    if doc.get("nonce") != nonce:
        raise ExtractError("stale fact file (nonce mismatch)")
    if doc.get("crate") != "fastcgi_server":
        raise ExtractError("unexpected crate " + str(doc.get("crate")))
    doc["features"] = feats
    doc["release"] = release
    if ckey:
        tmp = ckey + ".%d.tmp" % os.getpid()
        with open(tmp, "w") as f:
            json.dump(doc, f)
        os.replace(tmp, ckey)
    return doc


# ------------------------------------------------------------------------------------------------
# path normalisation

_CRATE_ROOTS = ("protocol", "parser", "async_io", "cgi", "ext")


def norm(path):
    """Strip generic arguments from a rustc def_path_str: `a::B::<'x, T>::f` -> `a::B::f`,
    `<a::B<'_, R> as t::Tr>::m` -> `<a::B as t::Tr>::m`."""
    out = []
    i = 0
    n = len(path)
    while i < n:
        c = path[i]
        if c == '<':
            prev = path[i - 1] if i > 0 else ''
            if i == 0 or not (prev.isalnum() or prev in '_:>'):
                # qualified self `<T as Trait>`: keep brackets, normalise inside
                j = _match(path, i)
                out.append('<' + norm(path[i + 1:j]) + '>')
                i = j + 1
                continue
            # generic args: drop (and a preceding `::`)
            j = _match(path, i)
            inner = path[i + 1:j]
            ty0 = inner[5:].strip().lstrip("&").split("<")[0].split("::")[0] if inner.startswith("impl ") else ""
            here = ''.join(out).split("::")[0]
            if inner.startswith("impl ") and " for " not in _top_level(inner) and ((ty0 in _CRATE_ROOTS and here == ty0) or (ty0[:1].isupper() and "::" not in inner[5:].split("<")[0])):
                # an inherent impl block that lives in another module than its type (`m::sub::<impl m::Ty>::f`): the item belongs to the
                # type, wherever inside the type's own top-level module the block was written. An impl block in a *different* top-level
                # module (`async_io::<impl parser::request::Parser>::read_request`) stays a function of the module it is written in: the
                # layer rules (who may touch the transport, ...) go by where code lives
                out = list(norm(inner[5:].strip()))
                i = j + 1
                continue
            if len(out) >= 2 and out[-1] == ':' and out[-2] == ':':
                out.pop()
                out.pop()
            i = j + 1
            continue
        out.append(c)
        i += 1
    return ''.join(out)


def _top_level(s):
    """the text of s outside any angle brackets"""
    out, depth = [], 0
    for k, c in enumerate(s):
        if c == '<':
            depth += 1
        elif c == '>' and (k == 0 or s[k - 1] != '-'):
            depth -= 1
        elif depth == 0:
            out.append(c)
    return ''.join(out)


def _match(s, i):
    depth = 0
    j = i
    while j < len(s):
        if s[j] == '<':
            depth += 1
        elif s[j] == '>' and (j == 0 or s[j - 1] != '-'):
            depth -= 1
            if depth == 0:
                return j
        j += 1
    return len(s) - 1


# ------------------------------------------------------------------------------------------------

class Body:
    def __init__(self, raw, facts):
        self.raw = raw
        self.facts = facts
        self.path = raw["path"]
        self.npath = norm(raw["path"])
        self.kind = raw["kind"]
        self.blocks = raw["blocks"]
        self.locals = raw["locals"]
        self.argc = raw["argc"]
        self.is_coroutine = "coroutine" in raw
        self.promoted = raw.get("promoted", 0) == 1
        self.span = raw["span"]
        self.varnames = {}
        self.upvars = {}
        for v in raw.get("vars", []):
            p = v["place"]
            if "p" not in p:
                self.varnames.setdefault(p["l"], v["name"])
            else:
                # captured variables of closures / coroutines: (_1.N) or (*_1).N [plus deref]
                proj = [e for e in p["p"] if "deref" not in e]
                if p["l"] == 1 and len(proj) == 1 and "f" in proj[0]:
                    self.upvars.setdefault(proj[0]["f"], v["name"])
        self._noise = None
        self._succ = None
        self._pred = None

    def loc(self, sp=None):
        sp = sp or self.span
        return "%s:%d" % (sp["f"], sp["l"])

    # -- CFG ------------------------------------------------------------------------------------
    def term(self, b):
        return self.blocks[b]["t"]

    def succs(self, b, unwind=False):
        t = self.blocks[b]["t"]
        k = t["k"]
        res = []
        if k == "goto":
            res = [t["target"]]
        elif k == "switch":
            res = [x[1] for x in t["targets"]] + [t["otherwise"]]
            seen = []
            for x in res:
                if x not in seen:
                    seen.append(x)
            res = seen
        elif k in ("drop", "assert"):
            res = [t["target"]]
        elif k == "call":
            res = [t["target"]] if "target" in t else []
        elif k == "yield":
            res = [t["target"]]
        if unwind and "unwind" in t:
            res = res + [t["unwind"]]
        if unwind and k == "yield" and "drop" in t:
            res = res + [t["drop"]]
        return res

    def preds(self):
        if self._pred is None:
            p = {i: [] for i in range(len(self.blocks))}
            for i in range(len(self.blocks)):
                for s in self.succs(i):
                    p[s].append(i)
            self._pred = p
        return self._pred

    def is_cleanup(self, b):
        return self.blocks[b].get("cleanup", 0) == 1

    def stmt_noise(self, st):
        return st.get("sp", {}).get("n", 0) == 1

    def term_noise(self, b):
        return self.blocks[b]["t"].get("sp", {}).get("n", 0) == 1

    def reachable(self, start=0, unwind=False):
        seen = {start}
        st = [start]
        while st:
            b = st.pop()
            for s in self.succs(b, unwind):
                if s not in seen:
                    seen.add(s)
                    st.append(s)
        return seen

    def local_name(self, l):
        if l in self.varnames:
            return self.varnames[l]
        return "_%d" % l

    def local_ty(self, l):
        return self.locals[l]["ty"]


_KNOWN = None


class Facts:
    def __init__(self, doc):
        self.doc = doc
        self.features = doc.get("features", "")
        self.cfg = doc.get("cfg", [])
        self.bodies = [Body(b, self) for b in doc["bodies"]]
        self.by_path = {}
        self.by_npath = {}
        for b in self.bodies:
            self.by_path[b.path] = b
            self.by_npath.setdefault(b.npath, []).append(b)
        self.adts = {norm(a["path"]): a for a in doc["adts"]}
        self.consts = {}
        for c in doc["consts"]:
            self.consts.setdefault(norm(c["path"]), c)
        self.impls = doc["impls"]
        self.fns = {}
        for f in doc["fns"]:
            self.fns.setdefault(norm(f["path"]), f)

    def is_new_helper(self, npath):
        """A non-public function that did not exist on the pinned tree (engine/known_private.json): a helper
        introduced by a later edit.  The engines inline such helpers instead of treating them as opaque."""
        global _KNOWN
        if _KNOWN is None:
            try:
                _KNOWN = set(json.load(open(os.path.join(os.path.dirname(os.path.abspath(__file__)), "known_private.json"))))
            except Exception:
                _KNOWN = set()
        if not _KNOWN:
            return False
        base = npath.split("::{closure")[0]
        if base in getattr(self, "role_paths", {}).values():
            return False        # a pinned private item recognised by its role (roles.py), wherever it lives now
        d = self.fns.get(base)
        if not (d is not None and d.get("vis") != "pub" and base not in _KNOWN):
            return False
        # a pinned private function that merely *moved* (same name; its old path is gone: free function -> trait method, method of another
        # type, other module) is not a new helper: the rules that name it still mean this function, and it is not looked through
        ident = base.rsplit("::", 1)[-1]
        if ident not in MOVED_ATOMS:
            return True
        moved = self.__dict__.setdefault("_moved_cache", {})
        if ident not in moved:
            old = [k for k in _KNOWN if k.rsplit("::", 1)[-1] == ident]
            moved[ident] = bool(old) and not any(k in self.fns for k in old)
        return not moved[ident]

    def body(self, npath, required=True):
        """Unique body with this normalised path (generic args stripped)."""
        bs = self.by_npath.get(npath, [])
        if len(bs) == 1:
            return bs[0]
        if not bs:
            if required:
                raise MissingAnchor("no body named %s" % npath)
            return None
        raise MissingAnchor("ambiguous body name %s (%d candidates)" % (npath, len(bs)))

    def bodies_matching(self, pred):
        return [b for b in self.bodies if pred(b)]

    def has_feature(self, f):
        return ("feature=%s" % f) in self.cfg

    def enum_discr(self, npath):
        a = self.adts.get(npath)
        if a is None:
            raise MissingAnchor("no ADT named %s" % npath)
        return {v["name"]: int(v["discr"]) for v in a["variants"] if "discr" in v}

    def variant_name(self, adt_npath, value):
        """Name of the enum variant with this discriminant value (local or well-known std enums)."""
        std = {"std::option::Option": {0: "None", 1: "Some"}, "std::result::Result": {0: "Ok", 1: "Err"},
               "std::task::Poll": {0: "Ready", 1: "Pending"}, "std::ops::ControlFlow": {0: "Continue", 1: "Break"},
               "std::cmp::Ordering": {-1: "Less", 255: "Less", 0: "Equal", 1: "Greater"}}
        if adt_npath in std:
            return std[adt_npath].get(value)
        a = self.adts.get(adt_npath)
        if a is None:
            return None
        for v in a["variants"]:
            if "discr" in v and int(v["discr"]) == value:
                return v["name"]
        return None

    def const_int(self, npath):
        c = self.consts.get(npath)
        if c is None:
            raise MissingAnchor("no const named %s" % npath)
        if c.get("k") != "int":
            raise MissingAnchor("const %s is not an integer (%s)" % (npath, c.get("k")))
        return int(c["v"])

    def const_bytes(self, npath):
        c = self.consts.get(npath)
        if c is None:
            raise MissingAnchor("no const named %s" % npath)
        if "bytes" not in c:
            raise MissingAnchor("const %s has no byte image" % npath)
        return bytes(c["bytes"])


# private functions that the rules treat as *atoms* of a decision table (recognised by their name wherever they live): when such a
# function merely moved (free function -> trait method, other type, other module) it must not be looked through like a new helper
MOVED_ATOMS = {"cmp_input_streams"}


class MissingAnchor(Exception):
    """A rule could not find the code construct it is anchored on: fail closed."""
    pass


_CACHE = {}


def _canon_trait_impl(sv):
    """`m::sub::<impl Trait for crate::Ty>::f`  ->  `<crate::Ty as Trait>::f`: the form rustc prints when the impl block sits in the type's own
    module, so a trait impl moved to another module file keeps its path.  Impls for foreign self types (`impl From<X> for u8`) keep the
    module form they always had."""
    out = sv
    pos = 0
    while True:
        i = out.find("::<impl ", pos)
        if i < 0:
            return out
        j = _match(out, i + 2)
        inner = out[i + 3:j]                # "impl Trait for Ty"
        top = _top_level(inner)
        k = -1
        if " for " in top:
            # position of the top-level " for " in inner
            depth = 0
            for q, c in enumerate(inner):
                if c == '<':
                    depth += 1
                elif c == '>' and inner[q - 1] != '-':
                    depth -= 1
                elif depth == 0 and inner.startswith(" for ", q):
                    k = q
                    break
        if k < 0:
            pos = j
            continue
        trait_, ty = inner[5:k].strip(), inner[k + 5:].strip()
        ty0 = ty.lstrip("&").split("<")[0].split("::")[0]
        if ty0 not in _CRATE_ROOTS:
            pos = j
            continue
        # the module prefix: back to the previous non-path character
        st_ = i
        while st_ > 0 and (out[st_ - 1].isalnum() or out[st_ - 1] in "_:"):
            st_ -= 1
        out = out[:st_] + "<" + ty + " as " + trait_ + ">" + out[j + 1:]
        pos = st_ + 1


def _map_strings(x, fn):
    if isinstance(x, str):
        return fn(x) if "<impl " in x else x
    if isinstance(x, list):
        return [_map_strings(v, fn) for v in x]
    if isinstance(x, dict):
        return {k: _map_strings(v, fn) for k, v in x.items()}
    return x


def relocate(doc):
    """Private items that merely *moved* -- into a new private submodule file, or between modules -- keep the def path the rules know them
    by: an item under a module that did not exist on the pinned tree is mapped back to the pinned item of the same name and kind when that
    one is gone from its old place, and every other path through a new module is flattened into the parent module (`m::sub::Item` ->
    `m::Item`: the usual "extract a submodule" edit).  Public paths cannot move without an API break, so only private items are affected.
    On the pinned tree this is the identity."""
    try:
        known = json.load(open(os.path.join(os.path.dirname(os.path.abspath(__file__)), "known_items.json")))
    except Exception:
        return doc
    mods = set(known["mods"])
    doc = _map_strings(doc, _canon_trait_impl)
    cur = {k: [x["path"] for x in doc.get(k, [])] for k in ("fns", "adts", "consts")}
    cur_all = set(p_ for v in cur.values() for p_ in v)
    fn_paths = set(norm(x) for x in cur["fns"]) | set(norm(x) for x in known["fns"])

    def is_mod_seg(seg):
        return bool(re.fullmatch(r"[a-z][a-z0-9_]*", seg))
    new_mods = set()
    for p_ in cur_all:
        if p_.startswith("<"):
            continue
        segs = norm(p_).split("::")
        for i in range(1, len(segs)):
            pre = "::".join(segs[:i])
            if not all(is_mod_seg(x) for x in segs[:i]):
                break
            if pre not in mods and pre not in fn_paths:
                new_mods.add(pre)
    if not new_mods:
        return doc
    mapping = {}
    for kind in ("adts", "fns", "consts"):
        kn = set(known[kind])
        for p_ in cur[kind]:
            np_ = norm(p_)
            if p_ in kn or p_.startswith("<") or "::" not in np_:
                continue
            parent, ident = np_.rsplit("::", 1)
            if not any(parent == m_ or parent.startswith(m_ + "::") for m_ in new_mods):
                continue
            cands = [k_ for k_ in kn if not k_.startswith("<") and norm(k_).rsplit("::", 1)[-1] == ident and k_ not in cur_all
                     and all(is_mod_seg(x) for x in norm(k_).split("::")[:-1])]
            if len(cands) == 1 and norm(cands[0]) != np_:
                mapping[np_] = norm(cands[0])
    text = json.dumps(doc)
    for a in sorted(mapping, key=len, reverse=True):
        text = re.sub(r"(?<![\w:])%s(?![\w])" % re.escape(a), mapping[a], text)
    for m_ in sorted(new_mods, key=len, reverse=True):
        text = re.sub(r"(?<![\w:])%s::" % re.escape(m_), m_.rsplit("::", 1)[0] + "::" if "::" in m_ else "", text)
    return json.loads(text)


def load(features=("async", "http"), release=False, repo=None):
    key = (tuple(sorted(features)), release, repo or REPO)
    if key not in _CACHE:
        doc = extract(features, release, repo)
        try:
            doc = relocate(doc)
        except Exception:
            pass        # (never take a check down: without it the rules fail closed on a missing anchor, as before)
        f = Facts(doc)
        # private items are looked up by effect, not by name (roles.py): a renamed helper is mapped back to the
        # name the rules use; on the pinned tree nothing is renamed
        import roles
        found = {}
        try:
            ren = roles.discover(f, found)
        except Exception as e:      # discovery must never take a check down; without it the rules fail closed as before
            ren = {}
            f.role_discovery_error = repr(e)
        if ren:
            f = Facts(roles.apply(doc, ren))
        f.renames = ren
        # where a private item found by its role lives (canonical path -> path after the renames): a helper may have moved
        # to another parent (associated function -> free function) while keeping its role
        f.role_paths = {}
        for canon, cands in found.items():
            if len(cands) == 1:
                a = cands[0]
                f.role_paths[canon] = a.rsplit("::", 1)[0] + "::" + canon.rsplit("::", 1)[-1] if "::" in a else a
        f.params_renamed = roles.canon_params(f)
        _CACHE[key] = f
    return _CACHE[key]


if __name__ == "__main__":
    t = time.time()
    f = load()
    print("bodies", len(f.bodies), "adts", len(f.adts), "consts", len(f.consts), "in %.1fs" % (time.time() - t))


# ------------------------------------------------------------------------------------------------
# whole-crate queries used by structural rules

def _iter_calls(facts, include_noise=False):
    for b in facts.bodies:
        for bi, blk in enumerate(b.blocks):
            t = blk["t"]
            if t["k"] == "call" and "path" in t["func"]:
                if not include_noise and t.get("sp", {}).get("n"):
                    continue
                f = t["func"]
                name = norm(f["res"]["path"]) if f.get("res") else norm(f["path"])
                yield b, bi, t, name


def calls_to(facts, pred):
    """All call sites (body, block, terminator, callee name) whose resolved callee name satisfies pred."""
    return [(b, bi, t, name) for (b, bi, t, name) in _iter_calls(facts) if pred(name)]


def aggregates_of(facts, adt_npath):
    """All construction sites of an ADT: (body, block, stmt index, rvalue)."""
    out = []
    for b in facts.bodies:
        for bi, blk in enumerate(b.blocks):
            for si, st in enumerate(blk["st"]):
                if st["k"] == "assign" and st["rv"]["k"] == "agg" and st["rv"].get("ak") == "adt" and norm(st["rv"]["adt"]) == adt_npath:
                    out.append((b, bi, si, st))
    return out


def field_accesses(facts, adt_npath, field):
    """All places mentioning field `field` of ADT `adt_npath`: (body, block, kind, span)."""
    out = []

    def scan_place(b, bi, p, how, sp):
        for el in p.get("p", []):
            if el.get("n") == field and norm(el.get("of", "")) == adt_npath:
                out.append((b, bi, how, sp))

    def scan_op(b, bi, o, how, sp):
        p = o.get("copy") or o.get("move")
        if p is not None:
            scan_place(b, bi, p, how + (":move" if "move" in o else ":copy"), sp)
    for b in facts.bodies:
        for bi, blk in enumerate(b.blocks):
            for st in blk["st"]:
                if st["k"] != "assign":
                    continue
                sp = st["sp"]
                scan_place(b, bi, st["place"], "write", sp)
                rv = st["rv"]
                for key in ("op", "a", "b"):
                    if isinstance(rv.get(key), dict):
                        scan_op(b, bi, rv[key], "read", sp)
                if "place" in rv:
                    scan_place(b, bi, rv["place"], "ref:" + rv["k"] + ":" + rv.get("bk", ""), sp)
                for o in rv.get("ops", []):
                    scan_op(b, bi, o, "read", sp)
            t = blk["t"]
            sp = t.get("sp", {})
            if t["k"] == "call":
                for a in t["args"]:
                    scan_op(b, bi, a, "arg", sp)
                scan_place(b, bi, t["dest"], "write", sp)
            elif t["k"] == "switch":
                scan_op(b, bi, t["discr"], "read", sp)
            elif t["k"] == "drop":
                scan_place(b, bi, t["place"], "drop", sp)
    return out
