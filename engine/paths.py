"""E3 — decision-table extraction: enumerate the acyclic paths of a (small) inlined graph and resolve
values *along each path* (the latest definition on the path wins), yielding rows
{conds, effects, ret}. Term substitution only; nothing is evaluated or solved."""
import ir
from facts import norm


class TooManyPaths(Exception):
    pass


class Row:
    def __init__(self, nodes, labels):
        self.nodes = nodes      # list of ieg.Node
        self.labels = labels    # label of the edge taken out of nodes[i] (len = len(nodes)-1)
        self.conds = []         # [(expr, label, node)]
        self.calls = []         # [(callee, args exprs, node)]
        self.writes = []        # [(place expr, value expr, node, stmt)]
        self.ret = None
        self.end = None         # 'return' | 'panic' | 'loop' | 'stop'

    def cond_on(self, pred):
        return [(e, l) for (e, l, n) in self.conds if pred(e)]

    def called(self, name):
        return [c for c in self.calls if c[0] == name]


def enumerate_paths(g, start=None, stop=None, max_paths=4000, follow_noise=False, max_visits=1):
    """All acyclic paths from `start` (default entry) to a node without successors / a stop node.
    A node is visited at most once per path (loop bodies at most once). Noise switches (tracing) follow
    a single successor."""
    start = start or g.entry
    out = []
    if max_visits > 1:
        return _enumerate_multi(g, start, stop, max_paths, follow_noise, max_visits)
    stack = [(start, [start], [], {start.key})]
    while stack:
        n, path, labs, seen = stack.pop()
        if stop is not None and stop(n) and n is not start:
            out.append((path, labs, 'stop'))
            continue
        succs = g.succ.get(n.key, [])
        if n.term["k"] == "switch" and n.noise() and not follow_noise and succs:
            succs = succs[:1]
        if not succs:
            k = n.term["k"]
            end = 'return' if k == 'return' else ('panic' if k in ('call', 'unreachable', 'assert') else k)
            out.append((path, labs, end))
            if len(out) > max_paths:
                raise TooManyPaths("more than %d paths" % max_paths)
            continue
        ext = False
        for (m, lab) in succs:
            if m.key in seen:
                out.append((path + [m], labs + [lab], 'loop'))
                continue
            ext = True
            stack.append((m, path + [m], labs + [lab], seen | {m.key}))
        if len(out) > max_paths or len(stack) > 200000:
            raise TooManyPaths("path explosion")
    return out


def _enumerate_multi(g, start, stop, max_paths, follow_noise, max_visits):
    """Variant that lets a path pass through a node up to `max_visits` times (loops unrolled)."""
    out = []
    stack = [(start, [start], [], {start.key: 1})]
    while stack:
        n, path, labs, cnt = stack.pop()
        if stop is not None and stop(n) and n is not start:
            out.append((path, labs, 'stop'))
            continue
        succs = g.succ.get(n.key, [])
        if n.term["k"] == "switch" and n.noise() and not follow_noise and succs:
            succs = succs[:1]
        if not succs:
            k = n.term["k"]
            end = 'return' if k == 'return' else ('panic' if k in ('call', 'unreachable', 'assert') else k)
            out.append((path, labs, end))
            if len(out) > max_paths:
                raise TooManyPaths("more than %d paths" % max_paths)
            continue
        for (m, lab) in succs:
            c = cnt.get(m.key, 0)
            if c >= max_visits:
                out.append((path + [m], labs + [lab], 'loop'))
                continue
            c2 = dict(cnt)
            c2[m.key] = c + 1
            stack.append((m, path + [m], labs + [lab], c2))
        if len(out) > max_paths or len(stack) > 200000:
            raise TooManyPaths("path explosion")
    return out


class PathResolver:
    """Resolve operands at position i of a path: locals take their latest definition *on the path*."""

    def __init__(self, g, nodes):
        self.g = g
        self.nodes = nodes
        self.depth = 0

    # position of the call that created frame `fr` (its parent's call node) on the path
    def _frame_entry(self, fr, before):
        for j in range(before, -1, -1):
            n = self.nodes[j]
            if n.frame is fr.parent and n.bb == fr.site:
                return j
        return None

    def _def_on_path(self, frame, l, i, si):
        """Latest definition of local l of `frame` strictly before (node i, stmt si). Returns (j, stmt index | -1)."""
        # same node, earlier statements
        n = self.nodes[i]
        if n.frame is frame:
            st = n.stmts
            hi = len(st) if si == -1 else si
            for k in range(hi - 1, -1, -1):
                s = st[k]
                if s["k"] == "assign" and "p" not in s["place"] and s["place"]["l"] == l:
                    return (i, k)
        for j in range(i - 1, -1, -1):
            m = self.nodes[j]
            if m.frame is not frame:
                continue
            t = m.term
            if t["k"] == "call" and "p" not in t["dest"] and t["dest"]["l"] == l:
                return (j, -1)
            if t["k"] == "yield" and "p" not in t["resume_arg"] and t["resume_arg"]["l"] == l:
                return (j, -1)
            st = m.stmts
            for k in range(len(st) - 1, -1, -1):
                s = st[k]
                if s["k"] == "assign" and "p" not in s["place"] and s["place"]["l"] == l:
                    return (j, k)
        return None

    def local(self, frame, l, i, si, depth=0):
        # the value of a local at a path position depends only on its latest definition on the path: memoised per definition site
        body = frame.body
        name = body.local_name(l)
        if depth > 60:
            return ('local', l, name)
        d = self._def_on_path(frame, l, i, si)
        memo = self.__dict__.setdefault("_memo", {})
        mk = (frame.id, l, d)
        if d is not None and mk in memo:
            return memo[mk]
        r = self._local(frame, l, i, si, depth, d, name, body)
        if d is not None and depth < 40:
            memo[mk] = r
        return r

    def _local(self, frame, l, i, si, depth, d, name, body):
        if d is None:
            if 1 <= l <= body.argc:
                return self.param(frame, l, i, depth)
            return ('local', l, name)
        j, k = d
        m = self.nodes[j]
        if k == -1:
            t = m.term
            if t["k"] == "call":
                return self.call_result(m, j, depth + 1)
            return ('resume',)
        return self.rvalue(frame, m.stmts[k]["rv"], j, k, depth + 1)

    def param(self, frame, l, i, depth):
        name = frame.body.local_name(l)
        if frame.parent is None:
            return ('param', l, name)
        if frame.kind == 'call':
            j = self._frame_entry(frame, i)
            if j is not None:
                t = frame.call_term
                idx = l - 1
                if 0 <= idx < len(t["args"]):
                    return self.operand(frame.parent, t["args"][idx], j, -1, depth + 1)
        if frame.kind == 'closurecall' and l >= 2:
            j = self._frame_entry(frame, i)
            if j is not None:
                tup = ir.peel(self.operand(frame.parent, frame.call_term["args"][1], j, -1, depth + 1))
                if tup[0] == 'agg' and tup[1] == 'tuple':
                    for (n_, x) in tup[3]:
                        if n_ == l - 2:
                            return x
                return ('field', tup, l - 2)
        return ('param', l, name)

    def call_result(self, m, j, depth):
        """Value produced by the call at path position j: the callee's returned value if it was inlined
        on this path, else an opaque call expression."""
        g = self.g
        t = m.term
        # inlined? the next node on the path is the callee's entry
        if j + 1 < len(self.nodes) and self.nodes[j + 1].frame.parent is m.frame and self.nodes[j + 1].frame.site == m.bb \
                and self.nodes[j + 1].frame.kind in ('call', 'pollfn', 'closurecall'):
            child = self.nodes[j + 1].frame
            # find the child's return on the path
            for q in range(j + 1, len(self.nodes)):
                x = self.nodes[q]
                if x.frame is child and x.term["k"] == "return":
                    return self.local(child, 0, q, -1, depth + 1)
        f = t["func"]
        name = norm(f["res"]["path"]) if f.get("res") else (norm(f["path"]) if "path" in f else "indirect")
        args = tuple(self.operand(m.frame, a, j, -1, depth + 1) for a in t["args"])
        return ('call', name, args, (m.frame.id, m.bb))

    def place(self, frame, p, i, si, depth=0):
        base = self.local(frame, p["l"], i, si, depth)
        e = base
        for el in p.get("p", []):
            if "deref" in el:
                continue
            if "f" in el:
                if e[0] == 'param' and e[1] == 1 and frame.body.kind == "Closure" and frame.parent is not None:
                    up = self.g._upvar(frame, el["f"])
                    e = up if up is not None else ('upvar', el["f"], frame.body.upvars.get(el["f"], str(el["f"])))
                elif e[0] == 'agg' and e[1] != 'adt':
                    hit = None
                    for (fn, fe) in e[3]:
                        if fn == el["f"] or fn == el.get("n"):
                            hit = fe
                    e = hit if hit is not None else ('field', e, el.get("n", el["f"]))
                else:
                    e = ('field', e, el.get("n", el["f"]))
            elif "variant" in el:
                e = ('variant', e, el.get("vn", el["variant"]))
            elif "idx" in el:
                e = ('index', e, self.local(frame, el["idx"], i, si, depth + 1))
            elif "cidx" in el:
                e = ('index', e, ('const', (-el["cidx"] if el["from_end"] else el["cidx"]), 'usize'))
            elif "sub_from" in el:
                e = ('slice', e, el["sub_from"], el["sub_to"], el["from_end"])
        return ir.simplify(e)

    def operand(self, frame, o, i, si, depth=0):
        if "copy" in o:
            return self.place(frame, o["copy"], i, si, depth)
        if "move" in o:
            return self.place(frame, o["move"], i, si, depth)
        if "const" in o:
            c = ir.const_expr(o["const"])
            if c[0] == 'promoted':
                r = frame.res.promoted(c[1])
                if r is not None:
                    return r
            if c[0] == 'constdef' and c[3] is None:
                return self.g.generic_const(frame, c)
            if c[0] == 'const' and c[1] is None and o["const"].get("k") == "generic" and frame.call_term is not None:
                # the single const generic parameter of an inlined helper, bound at the call (`queue_reply::<16>`)
                cargs = [a for a in frame.call_term["func"].get("args", []) if isinstance(a, dict) and a.get("constarg")]
                if len(cargs) == 1 and str(cargs[0].get("s", "")).isdigit():
                    return ('const', int(cargs[0]["s"]), c[2])
            return c
        return ('const', None, '?')

    def rvalue(self, frame, r, i, si, depth=0):
        k = r["k"]
        if k == "use":
            return self.operand(frame, r["op"], i, si, depth)
        if k in ("ref", "rawptr"):
            return self.place(frame, r["place"], i, si, depth)
        if k == "cast":
            return ('cast', r["ck"], self.operand(frame, r["op"], i, si, depth), r["ty"])
        if k == "bin":
            return ('bin', r["op"], self.operand(frame, r["a"], i, si, depth), self.operand(frame, r["b"], i, si, depth))
        if k == "un":
            return ('un', r["op"], self.operand(frame, r["a"], i, si, depth))
        if k == "discr":
            return ('discr', self.place(frame, r["place"], i, si, depth), norm(r.get("of", "")))
        if k == "agg":
            ops = [self.operand(frame, o, i, si, depth) for o in r["ops"]]
            ak = r["ak"]
            if ak == "adt":
                names = r.get("fields", [])
                if len(names) != len(ops):
                    names = list(range(len(ops)))
                return ('agg', 'adt', norm(r["adt"]) + "::" + r["vn"], tuple(zip(names, ops)))
            if ak in ("closure", "coroutine", "coroutine_closure"):
                return ('agg', ak, r["def"], tuple(enumerate(ops)))
            return ('agg', ak, r.get("ety", ""), tuple(enumerate(ops)))
        if k == "repeat":
            return ('agg', 'repeat', r["n"], ((0, self.operand(frame, r["op"], i, si, depth)),))
        return ('const', None, '?')


def rows(g, start=None, stop=None, max_paths=4000, want_calls=None, max_visits=1):
    """Decision-table rows of the graph: per acyclic path its branch conditions, calls, field writes and
    returned value, all resolved along the path."""
    out = []
    for (nodes, labs, end) in enumerate_paths(g, start, stop, max_paths, max_visits=max_visits):
        row = Row(nodes, labs)
        row.end = end
        pr = PathResolver(g, nodes)
        for i, n in enumerate(nodes):
            last = (i == len(nodes) - 1)
            if end == 'loop' and last:
                break
            for si, st in enumerate(n.stmts):
                if st["k"] == "assign" and "p" in st["place"] and not n.body.stmt_noise(st):
                    pl = pr.place(n.frame, st["place"], i, si)
                    if ir.peel(pl)[0] in ('field', 'index'):
                        row.writes.append((ir.peel(pl), ir.simplify(pr.rvalue(n.frame, st["rv"], i, si)), n, st))
            t = n.term
            if t["k"] == "switch" and not n.noise() and not last:
                e = ir.simplify(pr.operand(n.frame, t["discr"], i, -1))
                row.conds.append((e, labs[i], n))
            elif t["k"] == "call" and not n.noise():
                f = t["func"]
                name = norm(f["res"]["path"]) if f.get("res") else (norm(f["path"]) if "path" in f else "indirect")
                if want_calls is None or want_calls(name):
                    args = tuple(ir.simplify(pr.operand(n.frame, a, i, -1)) for a in t["args"])
                    row.calls.append((name, args, n))
            elif t["k"] == "return" and last and n.frame is g.root:
                row.ret = ir.simplify(pr.local(n.frame, 0, i, -1))
        # a pure condition evaluated twice on one path cannot have two different outcomes -- unless what it reads was changed in
        # between: a store to a field it mentions, or a call that was lent `&mut` that field / `&mut self`
        pos = {id(nd): i for i, nd in enumerate(nodes)}
        clobbers = []           # (path position, field name | '*')
        for (pl, val, nd, s_) in row.writes:
            if pl[0] == 'field':
                clobbers.append((pos.get(id(nd), 0), str(pl[2])))
        for i, nd in enumerate(nodes):
            t_ = nd.term
            if t_["k"] != "call" or nd.noise():
                continue
            for a in t_["args"]:
                pl_ = a.get("move") or a.get("copy")
                if not isinstance(pl_, dict) or "p" in pl_:
                    continue
                ty_ = nd.body.locals[pl_["l"]].get("ty")
                ty_ = ty_.get("s", "") if isinstance(ty_, dict) else (ty_ or "")
                if not ty_.startswith("&mut") and not ty_.startswith("&'") or "mut " not in ty_[:12]:
                    continue
                ae = ir.peel(pr.operand(nd.frame, a, i, -1))
                if ae[0] == 'param' and ae[2] == 'self':
                    clobbers.append((i, '*'))
                elif ae[0] == 'field':
                    clobbers.append((i, str(ae[2])))
        seen = {}
        seen_at = {}
        feasible = True
        for (e, lab, n) in row.conds:
            here = pos.get(id(n), 0)
            if clobbers:
                flds = {str(x[2]) for x in ir.walk(e) if x[0] == 'field'}
                for k_ in list(seen):
                    kf = {str(x[2]) for x in ir.walk(k_) if isinstance(x, tuple) and x and x[0] == 'field'} if isinstance(k_, tuple) else set()
                    if any(seen_at[k_] <= ci < here and (cf == '*' and kf or cf in kf) for (ci, cf) in clobbers):
                        del seen[k_]
                        del seen_at[k_]
            c = ir.const_value(e)
            pe0 = ir.peel(e, casts=False)
            if c is None and pe0[0] == 'bin' and pe0[1] in ('Eq', 'Ne', 'Lt', 'Le', 'Gt', 'Ge'):
                # comparison of two integer constants (e.g. a helper's constant result against a literal): fold
                a_, b_ = ir.const_value(pe0[2]), ir.const_value(pe0[3])
                if isinstance(a_, int) and isinstance(b_, int):
                    c = int({'Eq': a_ == b_, 'Ne': a_ != b_, 'Lt': a_ < b_, 'Le': a_ <= b_, 'Gt': a_ > b_, 'Ge': a_ >= b_}[pe0[1]])
            if isinstance(c, int) and isinstance(lab, tuple):
                # the condition is a constant along this path (e.g. the boolean produced by `matches!`)
                if (lab[0] == 'case' and lab[1] != c) or (lab[0] == 'otherwise' and c in lab[1]):
                    feasible = False
                    break
            if _pure(e):
                k, v = e, lab
                pe = ir.peel(e, casts=False)
                if pe[0] == 'bin' and pe[1] in ('Eq', 'Ne') and isinstance(lab, tuple):
                    t = (lab[0] == 'otherwise') or (lab[0] == 'case' and lab[1] != 0)
                    a, b = sorted([pe[2], pe[3]], key=str)
                    k = ('bin', 'Eq', a, b)
                    v = t if pe[1] == 'Eq' else (not t)
                if k in seen and seen[k] != v:
                    o = seen[k]
                    if isinstance(o, tuple) and isinstance(v, tuple) and o[0] in ('case', 'otherwise') and v[0] in ('case', 'otherwise'):
                        # two switches on one value (a tuple pattern tested column by column): `case c` twice must
                        # agree; `case c` and `not in S` need c outside S; two exclusions accumulate
                        if o[0] == 'case' and v[0] == 'case':
                            ok = (o[1] == v[1])
                        elif o[0] == 'case':
                            ok = o[1] not in v[1]
                            v = o
                        elif v[0] == 'case':
                            ok = v[1] not in o[1]
                        else:
                            ok = True
                            v = ('otherwise', tuple(sorted(set(o[1]) | set(v[1]))))
                        if not ok:
                            feasible = False
                            break
                    else:
                        feasible = False
                        break
                seen[k] = v
                seen_at[k] = here
        if feasible:
            out.append(row)
    return out


def _pure(e):
    """No call to anything but known-pure helpers: the value cannot change between two evaluations on a
    path that performs no write to the fields involved (the dispatch functions only write after deciding)."""
    for x in ir.walk(e):
        if x[0] == 'call':
            nm = x[1]
            if not (nm.endswith("::get") or nm.endswith("::len") or "from_be_bytes" in nm or nm.endswith("::from_bytes")
                    or nm.endswith("try_from") or nm.endswith("try_into") or nm.endswith("::expect") or ir.is_transparent(nm)
                    or nm.endswith("::is_input_stream") or nm.endswith("::is_management") or nm.endswith("index")
                    or nm.endswith("index_mut") or nm.endswith("split_at_mut")):
                return False
    return True
