"""E9 — cell-wise reaching definitions for small fixed-size byte codecs.

The two VarInt codec functions move single bytes between a reader / writer and 1..4-byte scratch arrays.  What they
compute is decided here per path by following, cell by cell, which definition reaches every array element, every byte
handed to `write_all` and the returned value: an abstract interpretation of the function's MIR over *terms*

    in[k]                the k-th byte delivered by `read_exact` on this path
    v                    the u32 wrapped by the `self` argument
    c                    an integer constant
    t & c, t | c, zext t, lo8 t, be(t, k), frombe(t0..t3), t >> c, t << c, cmp(op, a, b)

with a handful of algebraic normalisations (`be(v,3) = lo8 v`, `lo8(v >> 24) = be(v,0)`, or-of-shifted-bytes =
frombe, constant folding).  Nothing is executed and no value is enumerated; branches on terms fork the path and are
recorded as its condition.  The interpreter covers exactly the MIR constructs such functions use (arrays, windows of
arrays, references to locals, `?`, calls of crate-local helpers, which are interpreted in place); anything else makes
the path `opaque` and the rule that consumes it undecidable (fail closed)."""
import facts as F

norm = F.norm

M8 = 0xFF
M32 = 0xFFFFFFFF


class Unsupported(Exception):
    pass


# ---- terms ------------------------------------------------------------------------------------------------
def C(n):
    return ('c', n)


def is_c(t):
    return t[0] == 'c'


def mk_zext(t):
    if is_c(t):
        return t
    return ('zext', t)


def mk_lo8(t):
    if is_c(t):
        return C(t[1] & M8)
    if t[0] == 'zext':
        return t[1]
    if t[0] == 'shr' and is_c(t[2]) and t[2][1] in (8, 16, 24) and t[1][0] not in ('shr', 'shl'):
        return mk_be(t[1], 3 - t[2][1] // 8)
    if t[0] == 'and' and is_c(t[2]) and (t[2][1] & M8) == M8:
        return mk_lo8(t[1])
    if t[0] == 'or' and is_c(t[2]):
        return mk_or(mk_lo8(t[1]), C(t[2][1] & M8))
    return ('lo8', t)


def mk_be(t, k):
    if is_c(t):
        return C((t[1] >> (8 * (3 - k))) & M8)
    if t[0] == 'frombe':
        return t[1][k]
    if t[0] == 'or' and is_c(t[2]):
        # a constant or-ed into the word is or-ed into each of its bytes: be(v | c, k) = be(v, k) | be(c, k)
        return mk_or(mk_be(t[1], k), C((t[2][1] >> (8 * (3 - k))) & M8))
    if k == 3:
        return ('lo8', t)
    return ('be', t, k)


def mk_and(a, b):
    if is_c(a) and not is_c(b):
        a, b = b, a
    if is_c(a) and is_c(b):
        return C(a[1] & b[1])
    if is_c(b) and a[0] == 'and' and is_c(a[2]):
        return mk_and(a[1], C(a[2][1] & b[1]))
    if is_c(b) and a[0] == 'frombe':
        # masking the assembled word masks each of its bytes (the cells are bytes: `& 0xff` is the identity on them)
        cells = []
        for k, c in enumerate(a[1]):
            m = (b[1] >> (8 * (3 - k))) & M8
            cells.append(c if m == M8 else mk_and(c, C(m)))
        return ('frombe', tuple(cells))
    return ('and', a, b)


def mk_or(a, b):
    if is_c(a) and not is_c(b):
        a, b = b, a
    if is_c(a) and is_c(b):
        return C(a[1] | b[1])
    if is_c(b) and b[1] == 0:
        return a
    t = ('or', a, b)
    # (b0 as u32) << 24 | (b1 as u32) << 16 | (b2 as u32) << 8 | b3 as u32
    parts = []

    def flat(x):
        if x[0] == 'or':
            flat(x[1])
            flat(x[2])
        else:
            parts.append(x)
    flat(t)
    if len(parts) == 4:
        by = {}
        for p in parts:
            sh = 0
            if p[0] == 'shl' and is_c(p[2]):
                sh, p = p[2][1], p[1]
            if p[0] == 'zext' and sh in (0, 8, 16, 24):
                by[sh] = p[1]
        if set(by) == {0, 8, 16, 24}:
            return ('frombe', (by[24], by[16], by[8], by[0]))
    return t


def mk_sh(op, a, b):
    if is_c(a) and is_c(b):
        return C((a[1] << b[1]) & M32 if op == 'shl' else a[1] >> b[1])
    return (op, a, b)


def mk_not(a, bits):
    if is_c(a):
        return C(~a[1] & ((1 << bits) - 1))
    return ('not', a)


_NEG = {'eq': 'ne', 'ne': 'eq', 'lt': 'ge', 'ge': 'lt', 'le': 'gt', 'gt': 'le'}
_FLIP = {'eq': 'eq', 'ne': 'ne', 'lt': 'gt', 'gt': 'lt', 'le': 'ge', 'ge': 'le'}


def canon_cond(t, truth):
    """A path condition in canonical form: ('eq'|'lt', a, b, truth) with constants on the right, `<= c` as `< c+1`."""
    if t[0] == 'not1':
        return canon_cond(t[1], not truth)
    if t[0] != 'cmp':
        return ('?', t, None, truth)
    op, a, b = t[1], t[2], t[3]
    if is_c(a) and not is_c(b):
        op, a, b = _FLIP[op], b, a
    if op in ('ne', 'ge', 'gt'):
        op, truth = _NEG[op], not truth
    if op == 'le':
        if is_c(b):
            op, b = 'lt', C(b[1] + 1)
        else:
            # a <= b  ==  !(b < a)
            op, a, b, truth = 'lt', b, a, not truth
    return (op, a, b, truth)


def show(t):
    k = t[0]
    if k == 'c':
        return hex(t[1]) if t[1] > 9 else str(t[1])
    if k == 'in':
        return "in[%d]" % t[1]
    if k == 'v':
        return "v"
    if k in ('and', 'or', 'shl', 'shr'):
        return "(%s %s %s)" % (show(t[1]), {'and': '&', 'or': '|', 'shl': '<<', 'shr': '>>'}[k], show(t[2]))
    if k in ('zext', 'lo8', 'not', 'not1'):
        return "%s(%s)" % (k, show(t[1]))
    if k == 'be':
        return "be(%s)[%d]" % (show(t[1]), t[2])
    if k == 'frombe':
        return "from_be[%s]" % ", ".join(show(x) for x in t[1])
    if k == 'cmp':
        return "%s %s %s" % (show(t[2]), t[1], show(t[3]))
    return str(t)


# ---- interpreter ------------------------------------------------------------------------------------------
class PathOut:
    def __init__(self, st, ret):
        self.conds = [canon_cond(t, tr) for (t, tr) in st["conds"]]
        self.nin = st["nin"]
        self.out = list(st["out"])
        self.ret = ret
        self.io = list(st["io"])
        self.trace = list(st["trace"])


class Cells:
    def __init__(self, facts, self_adt, max_paths=64):
        self.facts = facts
        self.self_adt = self_adt
        self.max_paths = max_paths
        self.fid = 0

    # -- entry ----------------------------------------------------------------------------------------------
    def run(self, body, args):
        """args: values for the parameters (('t', term) | ('adt', ..) | ('io', 'reader'|'writer'))."""
        st = {"env": {}, "stack": [], "conds": [], "nin": 0, "out": [], "io": [], "trace": [], "fid": 0}
        for i, a in enumerate(args):
            st["env"][(0, i + 1)] = a
        self.ends = []
        self.work = [(st, body, 0)]
        n = 0
        while self.work:
            st, b, bb = self.work.pop()
            n += 1
            if n > 4000:
                raise Unsupported("too many steps in %s" % body.npath)
            self.step(st, b, bb)
            if len(self.ends) > self.max_paths:
                raise Unsupported("too many paths in %s" % body.npath)
        return self.ends

    def fork(self, st):
        return {"env": dict(st["env"]), "stack": list(st["stack"]), "conds": list(st["conds"]), "nin": st["nin"], "out": list(st["out"]),
                "io": list(st["io"]), "trace": list(st["trace"]), "fid": st["fid"]}

    # -- places / operands ----------------------------------------------------------------------------------
    def key(self, st, l):
        return (st["fid"], l)

    def read_key(self, st, key):
        return st["env"].get(key, ('opaque', 'uninit'))

    def proj(self, st, v, el):
        if "deref" in el:
            return self.deref(st, v)
        if "f" in el:
            if v[0] == 'adt':
                return v[3].get(el["f"], v[3].get(str(el.get("n", el["f"])), ('opaque', 'field')))
            if v[0] == 'tuple':
                return v[1][el["f"]]
            if v[0] == 't' and is_c(v[1]) and el["f"] == 0:
                return v            # `.0` of a constant of a scalar newtype (VarInt::MAX.0)
            return ('opaque', 'field')
        if "variant" in el:
            return v
        if "idx" in el:
            i = self.read_key(st, self.key(st, el["idx"]))
            if v[0] == 'arr' and i[0] == 't' and is_c(i[1]) and i[1][1] < len(v[1]):
                return ('t', v[1][i[1][1]])
            return ('opaque', 'index')
        if "cidx" in el:
            if v[0] == 'arr':
                i = el["cidx"]
                if el.get("from_end"):
                    i = len(v[1]) - i
                if 0 <= i < len(v[1]):
                    return ('t', v[1][i])
            return ('opaque', 'index')
        return ('opaque', 'proj')

    def deref(self, st, v):
        if v[0] == 'ref':
            base = self.read_key(st, v[1])
            for el in v[4]:
                base = self.proj(st, base, dict(el))
            if v[2] is not None and base[0] == 'arr':
                return ('arr', base[1][v[2]:v[3]])
            return base
        return ('opaque', 'deref')

    def place(self, st, p):
        v = self.read_key(st, self.key(st, p["l"]))
        for el in p.get("p", []):
            v = self.proj(st, v, el)
        return v

    def operand(self, st, o):
        if "copy" in o:
            return self.place(st, o["copy"])
        if "move" in o:
            return self.place(st, o["move"])
        c = o.get("const", {})
        if c.get("k") == "int":
            return ('t', C(int(c["v"])))
        if c.get("k") == "zst":
            return ('unit',)
        if "fn" in c:
            return ('fn', norm(c["fn"]))
        if "bytes" in c:
            return ('opaque', 'const-bytes')
        return ('opaque', 'const')

    def make_ref(self, st, p):
        """&place: a reference remembers the local, the projection path below it and (for arrays) the window."""
        key = self.key(st, p["l"])
        els = list(p.get("p", []))
        # `&*r` / `&mut *r`: the same reference
        if els and "deref" in els[0]:
            r = self.read_key(st, key)
            if r[0] == 'ref':
                rest = els[1:]
                if not rest:
                    return r
                return ('ref', r[1], r[2], r[3], tuple(r[4]) + tuple(_freeze(e) for e in rest)) if r[2] is None else ('opaque', 'ref-of-window-proj')
            return ('opaque', 'ref')
        return ('ref', key, None, None, tuple(_freeze(e) for e in els))

    def store(self, st, p, v):
        key = self.key(st, p["l"])
        els = p.get("p", [])
        if not els:
            st["env"][key] = v
            return
        # through a reference?
        if "deref" in els[0]:
            r = self.read_key(st, key)
            if r[0] != 'ref':
                raise Unsupported("store through a non-reference")
            self.store_ref(st, r, els[1:], v)
            return
        self.store_into(st, key, els, v)

    def store_ref(self, st, r, els, v):
        path = [dict(e) for e in r[4]] + list(els)
        if r[2] is not None:
            # element of a window
            if len(els) == 1 and ("idx" in els[0] or "cidx" in els[0]):
                i = self._index_of(st, els[0])
                if i is None:
                    raise Unsupported("store at an unknown index")
                self.store_into(st, r[1], [dict(e) for e in r[4]] + [{"cidx": r[2] + i}], v)
                return
            raise Unsupported("store through a window")
        if not path:
            st["env"][r[1]] = v
        else:
            self.store_into(st, r[1], path, v)

    def _index_of(self, st, el):
        if "cidx" in el:
            return el["cidx"]
        i = self.read_key(st, self.key(st, el["idx"]))
        if i[0] == 't' and is_c(i[1]):
            return i[1][1]
        return None

    def store_into(self, st, key, els, v):
        base = self.read_key(st, key)
        st["env"][key] = self._upd(st, base, list(els), v)

    def _upd(self, st, base, els, v):
        if not els:
            return v
        el = els[0]
        if "idx" in el or "cidx" in el:
            i = self._index_of(st, el)
            if base[0] != 'arr' or i is None or not (0 <= i < len(base[1])) or v[0] != 't' or len(els) != 1:
                raise Unsupported("array store")
            cells = list(base[1])
            cells[i] = v[1]
            return ('arr', cells)
        if "f" in el and base[0] == 'adt':
            fields = dict(base[3])
            k = el["f"] if el["f"] in fields else str(el.get("n", el["f"]))
            fields[k] = self._upd(st, fields.get(k, ('opaque', 'field')), els[1:], v)
            return ('adt', base[1], base[2], fields)
        if "variant" in el:
            return self._upd(st, base, els[1:], v)
        raise Unsupported("store into %s" % (base[0],))

    # -- rvalues ---------------------------------------------------------------------------------------------
    def rvalue(self, st, r, ty):
        k = r["k"]
        if k == "use":
            return self.operand(st, r["op"])
        if k == "repeat":
            v = self.operand(st, r["op"])
            n = int(r["n"]) if str(r["n"]).isdigit() else None
            if v[0] == 't' and n is not None and n <= 16:
                return ('arr', [v[1]] * n)
            return ('opaque', 'repeat')
        if k in ("ref", "rawptr"):
            return self.make_ref(st, r["place"])
        if k == "agg":
            ops = [self.operand(st, o) for o in r["ops"]]
            if r["ak"] == "array":
                if all(o[0] == 't' for o in ops):
                    return ('arr', [o[1] for o in ops])
                return ('opaque', 'array')
            if r["ak"] == "tuple":
                return ('tuple', ops)
            if r["ak"] == "adt":
                names = r.get("fields", [])
                if len(names) != len(ops):
                    names = list(range(len(ops)))
                fields = {}
                for i, (n_, o) in enumerate(zip(names, ops)):
                    fields[i] = o
                    fields[str(n_)] = o
                return ('adt', norm(r["adt"]), r["vn"], fields)
            return ('opaque', 'agg')
        if k == "cast":
            v = self.operand(st, r["op"])
            ck = r["ck"]
            if ck.startswith("PointerCoercion") or ck in ("PtrToPtr", "Transmute"):
                return v
            if ck == "IntToInt" and v[0] == 't':
                tty = r["ty"]
                if tty == "u8":
                    return ('t', mk_lo8(v[1]))
                if tty in ("u16", "u32", "u64", "usize", "u128"):
                    return ('t', mk_zext(v[1]) if not is_c(v[1]) else v[1])
            return ('opaque', 'cast')
        if k == "bin":
            a, b = self.operand(st, r["a"]), self.operand(st, r["b"])
            op = r["op"]
            if a[0] != 't' or b[0] != 't':
                return ('opaque', 'bin')
            a, b = a[1], b[1]
            if op == "BitAnd":
                return ('t', mk_and(a, b))
            if op == "BitOr":
                return ('t', mk_or(a, b))
            if op in ("Shl", "ShlUnchecked"):
                return ('t', mk_sh('shl', a, b))
            if op in ("Shr", "ShrUnchecked"):
                return ('t', mk_sh('shr', a, b))
            if op in ("Eq", "Ne", "Lt", "Le", "Gt", "Ge"):
                if is_c(a) and is_c(b):
                    x, y = a[1], b[1]
                    return ('t', C(int({'Eq': x == y, 'Ne': x != y, 'Lt': x < y, 'Le': x <= y, 'Gt': x > y, 'Ge': x >= y}[op])))
                return ('t', ('cmp', op.lower(), a, b))
            if op in ("Add", "Sub", "AddUnchecked", "SubUnchecked") and is_c(a) and is_c(b):
                return ('t', C(a[1] + b[1] if op.startswith("Add") else a[1] - b[1]))
            return ('opaque', 'bin ' + op)
        if k == "un":
            a = self.operand(st, r["a"])
            if a[0] != 't':
                return ('opaque', 'un')
            if r["op"] == "Not":
                if a[1][0] == 'cmp':
                    return ('t', ('not1', a[1]))
                bits = {"u8": 8, "u16": 16, "u32": 32, "bool": 1}.get(ty if isinstance(ty, str) else (ty or {}).get("s"), None)
                if bits is None:
                    return ('opaque', 'not')
                if bits == 1 and not is_c(a[1]):
                    return ('t', ('not1', a[1]))
                return ('t', mk_not(a[1], bits))
            if r["op"] == "PtrMetadata":
                return self.len_of(st, a)
            return ('opaque', 'un')
        if k == "discr":
            v = self.place(st, r["place"])
            if v[0] == 'adt':
                d = _discr(self.facts, v[1], v[2])
                if d is not None:
                    return ('t', C(d))
            return ('opaque', 'discr')
        if k == "len":
            return self.len_of(st, self.place(st, r["place"]))
        return ('opaque', k)

    def len_of(self, st, v):
        if v[0] == 'ref':
            v = self.deref(st, v)
        if v[0] == 'arr':
            return ('t', C(len(v[1])))
        return ('opaque', 'len')

    # -- control --------------------------------------------------------------------------------------------
    def step(self, st, body, bb):
        while True:
            blk = body.blocks[bb]
            for s in blk["st"]:
                if s["k"] != "assign":
                    continue
                ty = body.locals[s["place"]["l"]].get("ty") if "p" not in s["place"] else None
                if isinstance(ty, dict):
                    ty = ty.get("s")
                if ty is None and s["rv"]["k"] == "un":
                    ty = "u8"      # `!LONG_BIT` stored into an array element
                v = self.rvalue(st, s["rv"], ty)
                self.store(st, s["place"], v)
            t = blk["t"]
            k = t["k"]
            if k in ("goto", "drop", "assert"):
                bb = t["target"]
                continue
            if k == "unreachable" or k == "resume":
                return
            if k == "return":
                ret = self.read_key(st, self.key(st, 0))
                if st["stack"]:
                    fr = st["stack"].pop()
                    st["fid"] = fr["fid"]
                    body = fr["body"]
                    self.store(st, fr["dest"], ret)
                    bb = fr["target"]
                    continue
                self.ends.append(PathOut(st, ret))
                return
            if k == "switch":
                d = self.operand(st, t["discr"])
                if d[0] != 't':
                    raise Unsupported("branch on %s at %s:%s" % (d, t.get("sp", {}).get("f"), t.get("sp", {}).get("l")))
                targets = [(int(v), tgt) for v, tgt in t["targets"]]
                if is_c(d[1]):
                    bb = dict(targets).get(d[1][1], t["otherwise"])
                    continue
                if t.get("dty") != "bool":
                    raise Unsupported("multi-way branch on a term")
                # bool: targets [[0, F]], otherwise T
                f_t = dict(targets).get(0, t["otherwise"])
                t_t = t["otherwise"] if 0 in dict(targets) else dict(targets).get(1)
                s2 = self.fork(st)
                s2["conds"].append((d[1], False))
                self.work.append((s2, body, f_t))
                st["conds"].append((d[1], True))
                bb = t_t
                continue
            if k == "call":
                nxt = self.call(st, body, t)
                if nxt is None:
                    return
                body, bb = nxt
                continue
            raise Unsupported("terminator %s" % k)

    def call(self, st, body, t):
        f = t["func"]
        if "path" not in f:
            raise Unsupported("indirect call")
        name = norm(f["res"]["path"]) if f.get("res") else norm(f["path"])
        raw = norm(f["path"])
        short = name.split("::")[-1]
        args = [self.operand(st, a) for a in t["args"]]
        dest, tgt = t["dest"], t.get("target")
        if tgt is None:
            return None

        def done(v):
            self.store(st, dest, v)
            return (body, tgt)
        io_arg = [a for a in args if self._is_io(st, a)]
        if raw == "std::io::Read::read_exact" and len(args) == 2 and args[1][0] == 'ref':
            r = args[1]
            base = self.deref(st, ('ref', r[1], None, None, r[4]))
            if base[0] != 'arr':
                raise Unsupported("read_exact into a non-array")
            s_, e_ = (0, len(base[1])) if r[2] is None else (r[2], r[3])
            # Err: nothing is known about the buffer; the function must report the error
            s_err = self.fork(st)
            s_err["trace"].append("read_exact fails")
            self.store(s_err, dest, ('adt', "std::result::Result", "Err", {0: ('opaque', 'io-error'), "0": ('opaque', 'io-error')}))
            self.work.append((s_err, body, tgt))
            cells = list(base[1])
            for i in range(s_, e_):
                cells[i] = ('in', st["nin"])
                st["nin"] += 1
            self.store_ref(st, ('ref', r[1], None, None, r[4]), [], ('arr', cells))
            st["io"].append(("read_exact", e_ - s_))
            return done(('adt', "std::result::Result", "Ok", {0: ('unit',), "0": ('unit',)}))
        if raw == "std::io::Write::write_all" and len(args) == 2:
            data = self.deref(st, args[1]) if args[1][0] == 'ref' else args[1]
            if data[0] != 'arr':
                raise Unsupported("write_all of a non-array")
            s_err = self.fork(st)
            s_err["trace"].append("write_all fails")
            s_err["io"].append(("write_all-failed", len(data[1])))
            self.store(s_err, dest, ('adt', "std::result::Result", "Err", {0: ('opaque', 'io-error'), "0": ('opaque', 'io-error')}))
            self.work.append((s_err, body, tgt))
            st["out"].extend(data[1])
            st["io"].append(("write_all", len(data[1])))
            return done(('adt', "std::result::Result", "Ok", {0: ('unit',), "0": ('unit',)}))
        if io_arg:
            st["io"].append(("foreign", name))
            dty = body.locals[dest["l"]].get("ty") if "p" not in dest else None
            dty = dty.get("s") if isinstance(dty, dict) else dty
            if dty and norm(dty).startswith("std::result::Result"):
                # some other reader / writer method: succeeds with an unknown value or fails
                s_err = self.fork(st)
                s_err["trace"].append("read_exact fails" if "Read" in raw else "write_all fails")
                self.store(s_err, dest, ('adt', "std::result::Result", "Err", {0: ('opaque', 'io-error'), "0": ('opaque', 'io-error')}))
                self.work.append((s_err, body, tgt))
                return done(('adt', "std::result::Result", "Ok", {0: ('opaque', 'io-value'), "0": ('opaque', 'io-value')}))
            return done(('opaque', 'io-call'))
        if short in ("index", "index_mut") and len(args) == 2 and args[0][0] == 'ref':
            r, rg = args[0], args[1]
            base = self.deref(st, r)
            if base[0] == 'arr' and rg[0] == 'adt':
                lo0 = r[2] or 0
                n = len(base[1])
                fl = rg[3]
                kind = rg[1].split("::")[-1]

                def cv(x):
                    return x[1][1] if x is not None and x[0] == 't' and is_c(x[1]) else None
                lo, hi = 0, n
                if kind == "RangeTo":
                    hi = cv(fl.get("end"))
                elif kind == "RangeFrom":
                    lo = cv(fl.get("start"))
                elif kind == "Range":
                    lo, hi = cv(fl.get("start")), cv(fl.get("end"))
                elif kind == "RangeFull":
                    pass
                elif kind == "RangeToInclusive":
                    hi = cv(fl.get("end"))
                    hi = hi + 1 if hi is not None else None
                else:
                    lo = None
                if lo is None or hi is None or not (0 <= lo <= hi <= n):
                    raise Unsupported("window bounds")
                return done(('ref', r[1], lo0 + lo, lo0 + hi, r[4]))
            raise Unsupported("index of %s" % (base[0],))
        if short in ("split_at", "split_at_mut") and len(args) == 2 and args[0][0] == 'ref' and args[1][0] == 't' and is_c(args[1][1]):
            r = args[0]
            base = self.deref(st, r)
            if base[0] == 'arr' and args[1][1][1] <= len(base[1]):
                lo0 = r[2] or 0
                m = args[1][1][1]
                return done(('tuple', [('ref', r[1], lo0, lo0 + m, r[4]), ('ref', r[1], lo0 + m, lo0 + len(base[1]), r[4])]))
            raise Unsupported("split_at")
        if short == "len" and len(args) == 1:
            return done(self.len_of(st, args[0]))
        if short == "to_be_bytes" and args and args[0][0] == 't':
            return done(('arr', [mk_be(args[0][1], i) for i in range(4)]))
        if short == "from_be_bytes" and args and args[0][0] == 'arr' and len(args[0][1]) == 4:
            cells = args[0][1]
            if all(is_c(c) for c in cells):
                return done(('t', C(int.from_bytes(bytes(c[1] for c in cells), "big"))))
            return done(('t', ('frombe', tuple(cells))))
        if name.endswith("Try>::branch") and args and args[0][0] == 'adt':
            a = args[0]
            if a[2] == "Ok":
                return done(('adt', "std::ops::ControlFlow", "Continue", {0: a[3][0], "0": a[3][0]}))
            res = ('adt', a[1], "Err", a[3])
            return done(('adt', "std::ops::ControlFlow", "Break", {0: res, "0": res}))
        if short == "from_residual" and args and args[0][0] == 'adt':
            return done(('adt', "std::result::Result", "Err", args[0][3]))
        if name.endswith("Result::and") and len(args) == 2 and args[0][0] == 'adt':
            return done(args[1] if args[0][2] == "Ok" else ('adt', "std::result::Result", "Err", args[0][3]))
        if name.endswith("Result::map") and len(args) == 2 and args[0][0] == 'adt' and args[0][2] == "Err":
            return done(args[0])
        if raw.startswith("std::cmp::PartialOrd::") or raw.startswith("std::cmp::PartialEq::"):
            op = raw.split("::")[-1]
            if op in ('lt', 'le', 'gt', 'ge', 'eq', 'ne') and len(args) == 2:
                xs = []
                for a in args:
                    v = self.deref(st, a) if a[0] == 'ref' else a
                    # a single-field newtype compares as its field (derived PartialOrd / PartialEq)
                    if v[0] == 'adt' and v[1] == self.self_adt:
                        v = v[3].get(0, ('opaque', 'x'))
                    xs.append(v)
                if all(x[0] == 't' for x in xs):
                    a_, b_ = xs[0][1], xs[1][1]
                    if is_c(a_) and is_c(b_):
                        x, y = a_[1], b_[1]
                        return done(('t', C(int({'eq': x == y, 'ne': x != y, 'lt': x < y, 'le': x <= y, 'gt': x > y, 'ge': x >= y}[op]))))
                    return done(('t', ('cmp', op, a_, b_)))
            return done(('opaque', 'cmp'))
        if raw in ("std::convert::Into::into", "std::convert::From::from") and len(args) == 1:
            tys = [a.get("s") for a in f.get("args", [])]
            src, dst = (tys + [None, None])[:2]
            if raw.endswith("From::from"):
                src, dst = dst, src
            if args[0][0] == 't' and dst in ("u16", "u32", "u64", "usize"):
                return done(('t', mk_zext(args[0][1])))
            if dst is not None and norm(dst) == self.self_adt:
                cands = [b for b in self.facts.bodies if b.path == "<%s as std::convert::From<%s>>::from" % (dst, src)
                         or norm(b.path) == "<%s as std::convert::From<%s>>::from" % (norm(dst), src)]
                if len(cands) == 1:
                    return self.enter(st, body, cands[0], args, dest, tgt)
            if src is not None and norm(src) == self.self_adt and dst == "u32":
                cands = [b for b in self.facts.bodies if norm(b.path).endswith("std::convert::From<%s>>::from" % norm(src)) and "u32" in b.path.split(" as ")[0]]
                if len(cands) == 1:
                    return self.enter(st, body, cands[0], args, dest, tgt)
            return done(('opaque', 'conversion %s -> %s' % (src, dst)))
        # crate-local helper: interpreted in place
        res = f.get("res") or {}
        if res.get("local") and res.get("ik") == "Item":
            cb = self.facts.by_path.get(res["path"])
            if cb is None:
                bs = self.facts.by_npath.get(norm(res["path"]), [])
                cb = bs[0] if len(bs) == 1 else None
            if cb is not None and len(st["stack"]) < 6:
                return self.enter(st, body, cb, args, dest, tgt)
        return done(('opaque', 'call ' + name))

    def enter(self, st, body, cb, args, dest, tgt):
        st["stack"].append({"fid": st["fid"], "body": body, "dest": dest, "target": tgt})
        self.fid += 1
        st["fid"] = self.fid
        for i, a in enumerate(args):
            st["env"][(st["fid"], i + 1)] = a
        return (cb, 0)

    def _is_io(self, st, a):
        if a[0] == 'io':
            return True
        if a[0] == 'ref':
            v = self.read_key(st, a[1])
            return v[0] == 'io'
        return False


def _freeze(el):
    return tuple(sorted(el.items())) if isinstance(el, dict) else el


def _discr(facts, adt, vn):
    std = {"std::result::Result": {"Ok": 0, "Err": 1}, "std::ops::ControlFlow": {"Continue": 0, "Break": 1},
           "std::option::Option": {"None": 0, "Some": 1}}
    if adt in std:
        return std[adt].get(vn)
    a = facts.adts.get(adt)
    if a:
        for i, v in enumerate(a["variants"]):
            if v["name"] == vn:
                return int(v.get("discr", i))
    return None
