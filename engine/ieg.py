"""E2 — interprocedural event graph: a supergraph of MIR blocks obtained by inlining every crate-local
callee (per call site), closures handed to external higher-order functions, and awaited local
coroutines; plus forward dataflow over it.

Node key: (frame id, block, tag). A *tag* is a tuple of assumptions about the result of the call that
created the edge into the node (`('poll', site, v)`: discriminant of the Poll returned at `site` is v;
`('payload', site, v)`: discriminant of its Ready payload is v). A `switch` on exactly that
discriminant follows only the matching target and consumes the assumption.
"""
import ir
from facts import norm, MissingAnchor

MAX_DEPTH = 12
MAX_NODES = 60000


class Undecidable(Exception):
    """The graph builder met a construct it cannot model soundly: fail closed."""
    pass


class Frame:
    def __init__(self, fid, body, parent, site, kind, subst=None, future_expr=None, call_term=None):
        self.id = fid
        self.body = body
        self.parent = parent
        self.site = site            # block index in parent
        self.kind = kind            # root | call | closure | await | pollfn | select
        self.subst = subst or {}
        self.future_expr = future_expr
        self.call_term = call_term
        self.depth = 0 if parent is None else parent.depth + 1
        self.res = ir.Resolver(body)

    def stack(self):
        f = self
        out = []
        while f is not None:
            out.append(f)
            f = f.parent
        return out

    def in_select(self):
        """Nearest enclosing select frame (self included), or None."""
        f = self
        while f is not None:
            if f.kind == 'select':
                return f
            f = f.parent
        return None

    def describe(self):
        return " <- ".join("%s@bb%s" % (f.body.npath, f.site) for f in self.stack())


class Node:
    __slots__ = ("frame", "bb", "tag", "key")

    def __init__(self, frame, bb, tag):
        self.frame = frame
        self.bb = bb
        self.tag = tag
        self.key = (frame.id, bb, tag)

    @property
    def body(self):
        return self.frame.body

    @property
    def term(self):
        return self.frame.body.blocks[self.bb]["t"]

    @property
    def stmts(self):
        return self.frame.body.blocks[self.bb]["st"]

    def loc(self):
        sp = self.term.get("sp") or self.frame.body.span
        return "%s:%d" % (sp["f"], sp["l"])

    def noise(self):
        return self.term.get("sp", {}).get("n", 0) == 1

    def __repr__(self):
        return "<%s bb%d %s>" % (self.frame.body.npath, self.bb, self.tag or "")


def is_await_poll(t):
    if t["k"] != "call":
        return False
    f = t["func"]
    if f.get("name") != "poll" or not f.get("trait", "").endswith("Future"):
        return False
    return any(m == "desugar:Await" for m in t.get("sp", {}).get("m", []))


class IEG:
    def __init__(self, facts, entry_body, max_depth=MAX_DEPTH, inline_filter=None):
        self.facts = facts
        self.frames = []
        self.frame_memo = {}
        self.nodes = {}
        self.succ = {}
        self.pred = {}
        self.max_depth = max_depth
        self.inline_filter = inline_filter
        self.inlined_sites = 0
        self.root = self._new_frame(entry_body, None, None, 'root')
        self.entry = self._node(self.root, 0, None)
        self._build()

    # -- frames -----------------------------------------------------------------------------------
    def _new_frame(self, body, parent, site, kind, subst=None, future_expr=None, call_term=None):
        key = (parent.id if parent else None, site, body.path, kind)
        if key in self.frame_memo:
            return self.frame_memo[key]
        if parent is not None:
            if parent.depth + 1 > self.max_depth:
                raise Undecidable("inlining depth bound exceeded at %s" % parent.describe())
            if kind in ('call', 'closurecall', 'await', 'select') and any(f.body is body for f in parent.stack()):
                raise Undecidable("recursion through %s" % body.npath)
        fr = Frame(len(self.frames), body, parent, site, kind, subst, future_expr, call_term)
        self.frames.append(fr)
        self.frame_memo[key] = fr
        if parent is not None:
            self.__dict__.setdefault("child_at", {}).setdefault((parent.id, site), []).append(fr)
        if parent is not None:
            self.inlined_sites += 1
        return fr

    def _node(self, frame, bb, tag):
        key = (frame.id, bb, tag)
        n = self.nodes.get(key)
        if n is None:
            if len(self.nodes) > MAX_NODES:
                raise Undecidable("event graph too large")
            n = Node(frame, bb, tag)
            self.nodes[key] = n
        return n

    # -- callee resolution ------------------------------------------------------------------------
    def subst_ty(self, frame, tyd):
        """Apply the frame's generic substitution to a type dict (only whole-parameter types)."""
        if tyd.get("param") and tyd["param"] in frame.subst:
            return frame.subst[tyd["param"]]
        return tyd

    def local_callee(self, frame, func):
        """Body of the crate-local function a call resolves to, or None."""
        if "path" not in func:
            return None
        res = func.get("res")
        if res is not None:
            if not res.get("local"):
                return None
            if res.get("ik") not in ("Item",):
                return None
            return self._body_for(res["path"])
        # unresolved trait method on a type parameter: try the frame substitution
        if func.get("trait") and func.get("local") and func.get("args"):
            self_ty = self.subst_ty(frame, func["args"][0])
            if "param" in self_ty:
                return None
            tr = norm(func["trait"])
            for imp in self.facts.impls:
                if norm(imp.get("trait", "")) == tr and norm(imp["self"]["s"]) == norm(self_ty["s"]):
                    for it in imp["items"]:
                        if norm(it).endswith("::" + func["name"]):
                            return self._body_for(it)
            # provided (default) method of a local trait
            b = self.facts.by_path.get(func["path"])
            return b
        if func.get("local") and not func.get("trait"):
            return self._body_for(func["path"])
        if func.get("local") and func.get("trait"):
            # default method body of a local trait called on a param type
            return self.facts.by_path.get(func["path"])
        return None

    def _body_for(self, path):
        b = self.facts.by_path.get(path)
        if b is None:
            bs = self.facts.by_npath.get(norm(path), [])
            if len(bs) == 1:
                b = bs[0]
        return b

    def call_subst(self, frame, func, callee_body):
        f = self.facts.fns.get(callee_body.npath)
        if not f:
            return {}
        names = f.get("generics", [])
        args = [a for a in func.get("args", []) if not a.get("constarg")]
        if func.get("res") and func["res"]["path"] != func["path"]:
            # resolved to an impl method: the trait's generic args do not line up with the impl's
            return {}
        if len(names) != len(args):
            return {}
        return {n: self.subst_ty(frame, a) for n, a in zip(names, args)}

    def generic_const(self, frame, e):
        """An associated constant named through a trait (`Self::RTYPE` in a provided method): looked up in the impl for
        the frame's `Self`.  A fieldless-enum value is given as the variant it denotes."""
        if e[0] != 'constdef' or e[3] is not None or "::" not in e[1]:
            return e
        fr = frame
        selfty = None
        while fr is not None and selfty is None:
            st = (fr.subst or {}).get("Self")
            if st and "param" not in st:
                selfty = norm(st["s"])
            fr = fr.parent
        if selfty is None:
            return e
        trait, cname = e[1].rsplit("::", 1)
        c = self.facts.consts.get("<%s as %s>::%s" % (selfty, trait, cname))
        if c is None or c.get("k") != "int":
            return e
        v = int(c["v"])
        vn = self.facts.variant_name(norm(c["ty"]), v)
        if vn is not None:
            return ('agg', 'adt', norm(c["ty"]) + "::" + vn, ())
        return ('constdef', "<%s as %s>::%s" % (selfty, trait, cname), c["ty"], v)

    def coroutine_of(self, tyd):
        """Local coroutine / closure bodies mentioned by an awaited type."""
        out = []
        for p in tyd.get("co", []):
            b = self.facts.by_path.get(p)
            if b is not None:
                out.append(b)
        return out

    # -- successor construction ---------------------------------------------------------------------
    def _build(self):
        work = [self.entry]
        seen = {self.entry.key}
        while work:
            n = work.pop()
            ss = self._succs(n)
            self.succ[n.key] = ss
            for (m, lab) in ss:
                self.pred.setdefault(m.key, []).append((n, lab))
                if m.key not in seen:
                    seen.add(m.key)
                    work.append(m)

    def _select_left_tag(self, frame, site):
        pt = frame.body.blocks[site]["t"]
        if "p" in pt["dest"]:
            return None
        # Poll::Ready(Either::Left(..))
        return (('var', pt["dest"]["l"], (0, ((0, (0, ())),))),)

    def _var_switch(self, n):
        """If the switch tests `discriminant(place)` of a place with a known shape (computed in this block), its value."""
        t = n.term
        op = t["discr"].get("move") or t["discr"].get("copy")
        if op is None or "p" in op:
            return None
        # knowledge at the end of the block: the scrutinee may have been moved into place by this block's own statements
        known = self._var_updates(n)[0] if n.stmts else self._known(n.tag)
        src = None
        for st in n.stmts:
            if st["k"] == "assign" and "p" not in st["place"]:
                if st["place"]["l"] == op["l"]:
                    rv = st["rv"]
                    src = rv["place"] if rv["k"] == "discr" else None
                elif src is not None and st["place"]["l"] == src["l"]:
                    src = None
        if src is None:
            return None
        sh = self._shape_at(known, src)
        if sh is None:
            return None
        return sh[0]

    def _continuation(self, frame, extra_tag=None):
        """Where control goes when `frame` returns."""
        p = frame.parent
        t = p.body.blocks[frame.site]["t"]
        return p, t["target"]

    # -- path-sensitive variant knowledge -------------------------------------------------------------
    # A tag entry ('var', local, shape) records what is known, along this path, about the value held by
    # a plain local. shape = (variant index or None, ((field index, shape), ...)). Knowledge is created
    # by aggregate assignments, propagated by moves / field and payload extraction / `?` (Try::branch,
    # from_residual), forgotten on any other write, `&mut` borrow or StorageDead, and consumed by
    # `switch discriminant(place)`.
    @staticmethod
    def _known(tag):
        return {x[1]: x[2] for x in (tag or ()) if x[0] == 'var'}

    @staticmethod
    def _plain(op):
        p = op.get("move") or op.get("copy")
        if p is not None and "p" not in p:
            return p["l"]
        return None

    @staticmethod
    def _shape_at(known, place):
        """Shape of a place (local + projection chain of downcasts / fields), or None."""
        sh = known.get(place["l"])
        if sh is None:
            return None
        for el in place.get("p", []):
            if "variant" in el:
                if sh[0] != el["variant"]:
                    return None
            elif "f" in el:
                nxt = None
                for (i, sub) in sh[1]:
                    if i == el["f"]:
                        nxt = sub
                if nxt is None:
                    return None
                sh = nxt
            elif "deref" in el:
                return None
            else:
                return None
        return sh

    def _var_updates(self, n):
        known = self._known(n.tag)
        before = dict(known)
        for st in n.stmts:
            if st["k"] == "dead":
                known.pop(st["l"], None)
                continue
            if st["k"] != "assign":
                continue
            pl = st["place"]
            rv = st["rv"]
            if rv["k"] == "ref" and rv.get("bk") == "mut":
                known.pop(rv["place"]["l"], None)
            if "p" in pl:
                if not any("deref" in e for e in pl["p"]):
                    known.pop(pl["l"], None)
                continue
            l = pl["l"]
            newv = None
            if rv["k"] == "agg" and rv.get("ak") in ("adt", "tuple"):
                subs = []
                for i, o in enumerate(rv["ops"]):
                    src = o.get("move") or o.get("copy")
                    if src is not None:
                        sh = self._shape_at(known, src)
                        if sh is not None:
                            subs.append((i, sh))
                if rv["ak"] == "adt":
                    if self._is_enum(rv["adt"]):
                        newv = (rv["vi"], tuple(subs))
                elif subs:
                    newv = (None, tuple(subs))
            elif rv["k"] == "use":
                src = rv["op"].get("move") or rv["op"].get("copy")
                if src is not None:
                    newv = self._shape_at(known, src)
                elif "const" in rv["op"] and rv["op"]["const"].get("k") == "int" and "def" not in rv["op"]["const"] \
                        and rv["op"]["const"].get("ty") == "bool":
                    # a boolean literal (e.g. the arms of `matches!`): remembered like a two-variant enum, value = variant
                    newv = (int(rv["op"]["const"]["v"]), ())
            elif rv["k"] == "un" and rv.get("op") == "Not":
                src = rv["a"].get("move") or rv["a"].get("copy")
                sh = self._shape_at(known, src) if src is not None else None
                lty = n.frame.body.locals[l]["ty"]
                if sh is not None and sh[0] in (0, 1) and (lty.get("s") if isinstance(lty, dict) else lty) == "bool":
                    newv = (1 - sh[0], ())
            if newv is not None:
                known[l] = newv
            else:
                known.pop(l, None)
        t = n.term
        if t["k"] == "call" and "p" not in t["dest"]:
            l = t["dest"]["l"]
            name = self.callee(n) or ""
            newv = None
            if name.endswith("std::ops::FromResidual>::from_residual"):
                if name.startswith("<std::result::Result"):
                    newv = (1, ())
                elif name.startswith("<std::option::Option"):
                    newv = (0, ())
                elif name.startswith("<std::task::Poll"):
                    newv = (0, ((0, (1, ())),))
            elif name.endswith("std::ops::Try>::branch") and len(t["args"]) == 1:
                src = t["args"][0].get("move") or t["args"][0].get("copy")
                sh = self._shape_at(known, src) if src is not None else None
                if sh is not None and sh[0] is not None:
                    v = None
                    if name.startswith("<std::result::Result"):
                        v = {0: 0, 1: 1}.get(sh[0])
                    elif name.startswith("<std::option::Option"):
                        v = {0: 1, 1: 0}.get(sh[0])
                    if v is not None:
                        # Continue(payload) keeps what is known about the payload (e.g. a nested ControlFlow / enum)
                        sub = [s_ for (i_, s_) in sh[1] if i_ == 0]
                        newv = (v, ((0, sub[0]),)) if (v == 0 and sub) else (v, ())
            if newv is not None:
                known[l] = newv
            else:
                known.pop(l, None)
        return known, known != before

    def _is_enum(self, adt_path):
        a = self.facts.adts.get(norm(adt_path))
        if a is not None:
            return a["kind"] == "Enum"
        return norm(adt_path) in ("std::option::Option", "std::result::Result", "std::task::Poll",
                                   "std::ops::ControlFlow", "futures_util::future::Either")

    def _succs(self, n):
        out = self._succs0(n)
        if n.term["k"] == "return":
            return out
        known, changed = self._var_updates(n)
        if not changed:
            return out
        res = []
        for (m, lab) in out:
            if m.frame is not n.frame:
                res.append((m, lab))
                continue
            tag = tuple(('var', l, v) for l, v in sorted(known.items()))
            res.append((self._node(m.frame, m.bb, tag or None), lab))
        return res

    def _succs0(self, n):
        f = n.frame
        body = f.body
        t = n.term
        k = t["k"]
        tag = n.tag
        if k == "goto":
            return [(self._node(f, t["target"], tag), 'goto')]
        if k == "switch":
            cval = None
            if "const" in t["discr"] and t["discr"]["const"].get("k") == "int":
                cval = int(t["discr"]["const"]["v"])
            else:
                op = t["discr"].get("move") or t["discr"].get("copy")
                if op is not None and "p" not in op and t.get("dty") == "bool":
                    # a boolean whose value is known along this path (assigned from literals on the way here)
                    sh0 = self._known(tag).get(op["l"])
                    reassigned = any(st["k"] == "assign" and "p" not in st["place"] and st["place"]["l"] == op["l"] for st in n.stmts)
                    if sh0 is not None and sh0[0] in (0, 1) and not sh0[1] and not reassigned:
                        cval = sh0[0]
                if cval is None and op is not None and "p" not in op:
                    for st in n.stmts:
                        if st["k"] == "assign" and "p" not in st["place"] and st["place"]["l"] == op["l"]:
                            rv = st["rv"]
                            if rv["k"] == "use" and "const" in rv["op"] and rv["op"]["const"].get("k") == "int" and "def" not in rv["op"]["const"]:
                                cval = int(rv["op"]["const"]["v"])
                            else:
                                cval = None
            if cval is not None:
                # constant condition (cfg!(debug_assertions), literal true): only the matching edge exists
                val = cval
                tgt = None
                for v, b in t["targets"]:
                    if int(v) == val:
                        tgt = b
                if tgt is None:
                    tgt = t["otherwise"]
                return [(self._node(f, tgt, tag), ('case', val))]
            if tag:
                hit = self._var_switch(n)
                if hit is not None:
                    val = hit
                    tgt = None
                    for v, b in t["targets"]:
                        if int(v) == val:
                            tgt = b
                    if tgt is None:
                        tgt = t["otherwise"]
                    return [(self._node(f, tgt, tag), ('case', val))]
            out = []
            for v, b in t["targets"]:
                out.append((self._node(f, b, tag), ('case', int(v))))
            out.append((self._node(f, t["otherwise"], tag), ('otherwise', tuple(int(v) for v, _ in t["targets"]))))
            return out
        if k in ("drop", "assert"):
            return [(self._node(f, t["target"], tag), k)]
        if k == "return":
            if f.parent is None:
                return []
            p, tgt = self._continuation(f)
            r0 = self._known(tag).get(0)
            pt = p.body.blocks[f.site]["t"]
            d = pt["dest"]["l"] if "p" not in pt["dest"] else None
            ntag = None
            if d is not None:
                inner = ((0, r0),) if r0 is not None else ()
                if f.kind == 'await':
                    ntag = (('var', d, (0, inner)),)
                elif f.kind == 'select':
                    # Poll::Ready(Either::Right((output, other future)))
                    ntag = (('var', d, (0, ((0, (1, ((0, (None, inner)),))),))),)
                elif f.kind in ('call', 'pollfn', 'closurecall') and r0 is not None:
                    ntag = (('var', d, r0),)
            return [(self._node(p, tgt, ntag), 'ret')]
        if k == "yield":
            out = [(self._node(f, t["target"], None), 'resume')]
            sel = f.in_select()
            if sel is not None:
                p, tgt = self._continuation(sel)
                out.append((self._node(p, tgt, self._select_left_tag(p, sel.site)), 'cancel'))
            return out
        if k == "call":
            if "target" not in t:
                return []
            nxt = self._node(f, t["target"], tag)
            func = t["func"]
            if n.noise():
                return [(nxt, 'call')]
            if is_await_poll(t):
                return self._await_succs(n, nxt)
            cb = self.local_callee(f, func)
            if cb is not None and cb.kind == "Closure" and not cb.is_coroutine and norm(func.get("trait", "")) in ("std::ops::Fn", "std::ops::FnMut", "std::ops::FnOnce") \
                    and len(t["args"]) == 2 and not cb.span.get("n"):
                # a local closure invoked by name (`let mut line = |..| ..; line(a, b)`) is part of the function's own text
                fe = self.resolve(f, t["args"][0], (n.bb, -1))
                child = self._new_frame(cb, f, n.bb, 'closurecall', dict(f.subst), fe, t)
                return [(self._node(child, 0, None), 'call')]
            if cb is None and norm(func.get("trait", "")) in ("std::ops::Fn", "std::ops::FnMut", "std::ops::FnOnce") and len(t["args"]) == 2 and f.parent is not None:
                # a closure that reached an inlined generic helper as an argument (`fn relate<R>(.., on_static: impl FnOnce(..) -> R)`)
                fe = ir.peel(self.resolve(f, t["args"][0], (n.bb, -1)))
                if fe[0] == 'agg' and fe[1] == 'closure':
                    cb2 = self.facts.by_path.get(fe[2])
                    if cb2 is not None and not cb2.is_coroutine and not cb2.span.get("n") and not any(fr.body is cb2 for fr in f.stack()):
                        child = self._new_frame(cb2, f, n.bb, 'closurecall', dict(f.subst), fe, t)
                        return [(self._node(child, 0, None), 'call')]
            if cb is not None and (self.inline_filter is None or self.inline_filter(cb) or self.facts.is_new_helper(cb.npath)):
                child = self._new_frame(cb, f, n.bb, 'call', self.call_subst(f, func, cb), call_term=t)
                return [(self._node(child, 0, None), 'call')]
            # closures handed to external higher-order functions
            out = [(nxt, 'call')]
            cname = self.callee(n) or ""
            lazy = (cname.endswith("::poll_fn") or cname.startswith("std::iter::Iterator::")
                    or cname.startswith("core::iter::") or "::iter::" in cname and not cname.endswith("::for_each"))
            for ai, a in enumerate(t["args"]):
                tyd = self._operand_ty(body, a)
                if tyd and tyd.get("closure"):
                    cbody = self.facts.by_path.get(tyd["closure"])
                    if cbody is not None and lazy:
                        # not invoked here: poll_fn closures run at the await (modelled there); iterator
                        # adaptor closures run inside external iteration and must be free of events
                        if not cname.endswith("::poll_fn") and not self._closure_is_pure(cbody):
                            raise Undecidable("closure with I/O events handed to lazy adaptor %s at %s" % (cname, n.loc()))
                        continue
                    if cbody is not None and not cbody.span.get("n"):
                        fe = self.resolve(f, a, (n.bb, -1))
                        child = self._new_frame(cbody, f, n.bb, 'closure', dict(f.subst), fe, t)
                        out.append((self._node(child, 0, None), 'closure'))
            return out
        # unreachable, resume, terminate, coroutine_drop ...
        return []

    def _closure_is_pure(self, cbody):
        for blk in cbody.blocks:
            t = blk["t"]
            if t["k"] != "call" or t.get("sp", {}).get("n"):
                continue
            f = t["func"]
            p = norm(f.get("res", {}).get("path") or f.get("path", ""))
            if p.startswith("async_io::") or p.startswith("<async_io::"):
                return False
            tr = norm(f.get("trait", ""))
            if tr.endswith("AsyncRead") or tr.endswith("AsyncWrite") or tr.endswith("Future"):
                return False
        return True

    def _operand_ty(self, body, o):
        p = o.get("copy") or o.get("move")
        if p is None or "p" in p:
            return None
        return body.locals[p["l"]]["ty"]

    def _await_succs(self, n, nxt):
        f = n.frame
        t = n.term
        func = t["func"]
        aw = func["args"][0] if func.get("args") else {}
        aw = self.subst_ty(f, aw)
        cos = self.coroutine_of(aw)
        site = (f.body.path, n.bb)
        fe = self.resolve(f, t["args"][0], (n.bb, -1))
        if not cos:
            cb = self.local_callee(f, func)
            if cb is not None and not cb.is_coroutine:
                # a hand-written `impl Future` of this crate: its poll method runs at the await like any other call
                child = self._new_frame(cb, f, n.bb, 'call', self.call_subst(f, func, cb), call_term=t)
                return [(self._node(child, 0, None), 'call')]
            return [(nxt, 'await')]
        s = aw.get("s", "")
        coroutines = [b for b in cos if b.is_coroutine]
        closures = [b for b in cos if not b.is_coroutine]
        if s.startswith("futures_util::future::Select<"):
            if len(coroutines) != 1:
                raise Undecidable("select with %d local components at %s" % (len(coroutines), n.loc()))
            child = self._new_frame(coroutines[0], f, n.bb, 'select', dict(f.subst), fe, t)
            # stop side may fire before the component runs at all
            left = self._node(f, t["target"], self._select_left_tag(f, n.bb))
            return [(self._node(child, 0, None), 'await'), (left, 'cancel')]
        if s.startswith("std::future::PollFn<") or s.startswith("core::future::PollFn<") or "poll_fn::PollFn<" in s or s.startswith("futures_util::future::PollFn<"):
            # std's and futures-util's PollFn are the same thing: `poll` calls the closure with the context
            if len(closures) != 1 or coroutines:
                raise Undecidable("poll_fn with unexpected components at %s" % n.loc())
            child = self._new_frame(closures[0], f, n.bb, 'pollfn', dict(f.subst), fe, t)
            return [(self._node(child, 0, None), 'pollfn')]
        if len(coroutines) == 1:
            # the coroutine itself, an `impl Future` alias of it, or a transparent wrapper
            # (Instrumented, Pin<&mut _>)
            child = self._new_frame(coroutines[0], f, n.bb, 'await', dict(f.subst), fe, t)
            return [(self._node(child, 0, None), 'await')]
        raise Undecidable("await on a composite of %d local components (%s) at %s" % (len(cos), s, n.loc()))

    # -- value resolution across frames -------------------------------------------------------------
    # Lifted expressions: call sites are (frame id, block); parameters / captured variables of inlined
    # frames are replaced by the caller's expressions; the result of an inlined crate-local call is
    # replaced by the callee's returned expression.
    def resolve(self, frame, operand, at):
        e = frame.res.operand(operand, at)
        return self.lift(frame, e)

    def resolve_place(self, frame, place, at):
        e = frame.res.place(place, at)
        return self.lift(frame, e)

    def lift(self, frame, e, depth=0):
        memo = self.__dict__.setdefault("_lift_memo", {})
        k = (frame.id, e)
        if k in memo:
            return memo[k]
        memo[k] = e  # cycle guard
        r = ir.simplify(self._lift(frame, e, depth))
        memo[k] = r
        return r

    def _lift(self, frame, e, depth):
        if depth > 40:
            return e
        k = e[0]
        rec = lambda x: self._lift(frame, x, depth + 1)
        if k == 'param':
            if frame.kind == 'call':
                t = frame.call_term
                i = e[1] - 1
                if 0 <= i < len(t["args"]):
                    pe = frame.parent.res.operand(t["args"][i], (frame.site, -1))
                    return self.lift(frame.parent, pe, depth + 1)
            if frame.kind == 'closurecall' and e[1] >= 2:
                # "rust-call" ABI: the arguments arrive as one tuple
                pe = frame.parent.res.operand(frame.call_term["args"][1], (frame.site, -1))
                tup = ir.peel(self.lift(frame.parent, pe, depth + 1))
                if tup[0] == 'agg' and tup[1] == 'tuple':
                    for (n_, x) in tup[3]:
                        if n_ == e[1] - 2:
                            return x
                return ('field', tup, e[1] - 2)
            return e
        if k == 'upvar':
            if frame.kind in ('closure', 'closurecall', 'await', 'pollfn', 'select'):
                r = self._upvar(frame, e[1])
                if r is not None:
                    return r
            return e
        if k in ('field', 'variant'):
            return (k, rec(e[1]), e[2])
        if k in ('ref', 'deref', 'discr'):
            return (k, rec(e[1])) + tuple(e[2:])
        if k == 'index':
            return (k, rec(e[1]), rec(e[2]) if isinstance(e[2], tuple) else e[2])
        if k == 'slice':
            return (k, rec(e[1])) + tuple(e[2:])
        if k == 'call':
            site = e[3]
            if isinstance(site[0], str):
                # produced by this frame's resolver
                bb = site[1]
                kids = self.__dict__.get("child_at", {}).get((frame.id, bb), [])
                if depth < 30:
                    for child in kids:
                        if child.kind in ('call', 'pollfn', 'closurecall'):
                            r = self._return_expr(child, depth + 1)
                            if r is not None:
                                return r
                        elif child.kind == 'await':
                            r = self._return_expr(child, depth + 1)
                            if r is not None:
                                return ('agg', 'adt', 'std::task::Poll::Ready', ((0, r),))
                return (k, e[1], tuple(rec(a) for a in e[2]), (frame.id, bb))
            return e
        if k == 'constdef' and e[3] is None:
            return self.generic_const(frame, e)
        if k == 'bin':
            return (k, e[1], rec(e[2]), rec(e[3]))
        if k == 'un':
            return (k, e[1], rec(e[2]))
        if k == 'cast':
            return (k, e[1], rec(e[2]), e[3])
        if k == 'agg':
            return (k, e[1], e[2], tuple((n, rec(x)) for n, x in e[3]))
        if k == 'phi':
            outs = []
            for x in e[1]:
                y = rec(x)
                if y not in outs:
                    outs.append(y)
            return outs[0] if len(outs) == 1 else (k, tuple(outs))
        return e

    def _callee_path_at(self, frame, bb):
        t = frame.body.blocks[bb]["t"]
        if t["k"] != "call":
            return None
        cb = self.local_callee(frame, t["func"])
        return cb.path if cb is not None else None

    def _return_expr(self, child, depth):
        memo = self.__dict__.setdefault("_ret_memo", {})
        if child.id in memo:
            return memo[child.id]
        memo[child.id] = None
        body = child.body
        r = None
        for bi, blk in enumerate(body.blocks):
            if blk["t"]["k"] == "return" and not blk.get("cleanup"):
                e = child.res.local(0, (bi, -1))
                r = self.lift(child, e, depth)
                break
        memo[child.id] = r
        return r

    def _upvar(self, frame, i):
        fe = frame.future_expr
        if fe is None:
            return None
        target = frame.body.path
        for sub in ir.walk(fe):
            if sub[0] == 'agg' and sub[1] in ('closure', 'coroutine') and sub[2] == target:
                for (n, x) in sub[3]:
                    if n == i:
                        return x
            if sub[0] == 'call':
                # async fn: outer body builds the coroutine from its parameters
                cb = self.facts.by_npath.get(sub[1], [])
                if len(cb) == 1 and cb[0].raw.get("root") is None:
                    agg = self._returned_agg(cb[0])
                    if agg is not None and agg[2] == target:
                        for (n, x) in agg[3]:
                            if n == i:
                                px = ir.peel(x)
                                if px[0] == 'param' and 0 <= px[1] - 1 < len(sub[2]):
                                    return sub[2][px[1] - 1]
        return None

    def _returned_agg(self, body):
        r = ir.Resolver(body)
        for bi, blk in enumerate(body.blocks):
            for si, st in enumerate(blk["st"]):
                if st["k"] == "assign" and st["place"]["l"] == 0 and "p" not in st["place"]:
                    e = r.rvalue(st["rv"], (bi, si))
                    if e[0] == 'agg' and e[1] in ('coroutine', 'closure'):
                        return e
        return None

    # -- helpers for rules --------------------------------------------------------------------------
    def callee(self, n):
        """Normalised name of the function called at node n (resolved impl if known), or None."""
        t = n.term
        if t["k"] != "call" or "path" not in t["func"]:
            return None
        f = t["func"]
        if f.get("res"):
            return norm(f["res"]["path"])
        return norm(f["path"])

    def trait_call(self, n):
        """(trait, method, self type dict) for trait-method calls."""
        t = n.term
        if t["k"] != "call":
            return None
        f = t["func"]
        if f.get("trait"):
            st = self.subst_ty(n.frame, f["args"][0]) if f.get("args") else {}
            return (norm(f["trait"]), f["name"], st)
        return None

    def arg(self, n, i):
        t = n.term
        return self.resolve(n.frame, t["args"][i], (n.bb, -1))

    def awaited(self, n):
        t = n.term
        if not is_await_poll(t):
            return None
        f = t["func"]
        return self.subst_ty(n.frame, f["args"][0]) if f.get("args") else {}

    def all_nodes(self):
        # only nodes actually reached by the builder (re-tagging leaves unreferenced Node objects behind)
        return [self.nodes[k] for k in self.succ]

    def stats(self):
        return {"nodes": len(self.succ), "edges": sum(len(v) for v in self.succ.values()),
                "frames": len(self.frames), "inlined_call_sites": self.inlined_sites}


# -------------------------------------------------------------------------------------------------
# forward dataflow

def forward(g, init, transfer, join, entry=None, bottom=None):
    """Generic forward worklist dataflow.

    transfer(node, state) -> state after the node, or a dict {succ_key: state} / callable for
    edge-sensitive results: if it returns a function, it is called as fn(succ_node, label) per edge.
    Returns (in_states, out_edge_states)."""
    entry = entry or g.entry
    ins = {entry.key: init}
    work = [entry]
    inq = {entry.key}
    iters = 0
    while work:
        n = work.pop()
        inq.discard(n.key)
        iters += 1
        if iters > 2000000:
            raise Undecidable("dataflow did not converge")
        st = ins[n.key]
        res = transfer(n, st)
        for (m, lab) in g.succ.get(n.key, []):
            out = res(m, lab) if callable(res) else res
            if out is bottom and bottom is not None:
                continue
            if out is None:
                continue
            old = ins.get(m.key)
            new = out if old is None else join(old, out)
            if old is None or new != old:
                ins[m.key] = new
                if m.key not in inq:
                    inq.add(m.key)
                    work.append(m)
    return ins


def reachable_from(g, start_nodes, stop=None):
    seen = set()
    work = list(start_nodes)
    while work:
        n = work.pop()
        if n.key in seen:
            continue
        seen.add(n.key)
        if stop is not None and stop(n):
            continue
        for (m, _) in g.succ.get(n.key, []):
            work.append(m)
    return seen
