"""Abstraction of the three header-dispatch sites (request parser: initial state, Params state; stream
parser) into canonical decision-table rows. Sites are found by effect — every body that calls
RecordHeader::from_bytes — and classified by effect, never by name."""
import facts as F
import ir
import ieg
import paths

FROM_BYTES = "protocol::RecordHeader::from_bytes"
BEGIN_FROM_BYTES = "protocol::body::BeginRequest::from_bytes"


def _is_head_payload(e):
    """e == (from_bytes(..) as Ok).0 ?"""
    e = ir.peel(e)
    return e[0] == 'field' and str(e[2]) == '0' and e[1][0] == 'variant' and e[1][2] == 'Ok' and \
        ir.peel(e[1][1])[0] == 'call' and ir.peel(e[1][1])[1] == FROM_BYTES


def _head_array_index(e):
    """constant index into the 8-byte header array (the array given to from_bytes), else None"""
    e = ir.peel(e)
    if e[0] == 'index' and isinstance(e[2], tuple):
        k = ir.const_value(e[2])
        if isinstance(k, int):
            return k
    return None


def wire_field(e):
    """Which wire field of the current header an expression denotes."""
    e = ir.peel(e)
    # through widening conversions
    while e[0] == 'call' and ir.is_transparent(e[1]) and e[2]:
        e = ir.peel(e[2][0])
    if e[0] == 'field' and _is_head_payload(e[1]):
        return str(e[2])
    if e[0] == 'call' and e[1] == "core::num::from_be_bytes" and e[2]:
        arr = ir.peel(e[2][0])
        if arr[0] == 'agg' and arr[1] == 'array':
            idx = [_head_array_index(x) for (_, x) in arr[3]]
            if idx == [2, 3]:
                return 'request_id'
            if idx == [4, 5]:
                return 'content_length'
    k = _head_array_index(e)
    if k == 6:
        return 'padding_length'
    if k == 1:
        return 'rtype'
    # payload of Err(UnknownRecordType(t))
    if e[0] == 'field' and e[1][0] == 'variant' and e[1][2] == 'UnknownRecordType':
        return 'rtype'
    return None


def is_req_id(e):
    """the stored request id: NonZero::get(<..>.request_id)"""
    e = ir.peel(e)
    if e[0] == 'call' and e[1].endswith("::get") and e[2]:
        x = ir.peel(e[2][0])
        return x[0] == 'field' and x[2] == 'request_id' and not _is_head_payload(x[1])
    return False


class DRow:
    def __init__(self):
        self.atoms = {}
        self.replies = []
        self.result = None
        self.detail = {}
        self.row = None
        self.extra_conds = []

    def key(self):
        return (tuple(sorted((k, str(v)) for k, v in self.atoms.items())), tuple(map(str, self.replies)), str(self.result),
                tuple(sorted((k, str(v)) for k, v in self.detail.items())))

    def show(self):
        a = ", ".join("%s=%s" % (k, v) for k, v in sorted(self.atoms.items()))
        r = "; ".join("%s" % (x,) for x in self.replies) or "-"
        return "[%s] => replies: %s; result: %s %s" % (a, r, self.result, self.detail or "")


def label_truth(lab):
    if isinstance(lab, tuple):
        if lab[0] == 'otherwise':
            return True
        if lab[0] == 'case':
            return lab[1] != 0
    return None


def abstract_rows(facts, body, g, raw_rows):
    """Turn raw path rows of a dispatch site into DRow objects."""
    out = []
    perr = facts.enum_discr("protocol::Error")
    rt = facts.enum_discr("protocol::fields::RecordType")
    for r in raw_rows:
        if r.end != 'return':
            continue
        d = DRow()
        d.row = r
        decoded = None
        for (e, lab, n) in r.conds:
            pe = ir.peel(e, casts=False)
            if ir.const_value(pe) is not None:
                continue
            hit = False
            if pe[0] == 'discr':
                x = ir.peel(pe[1])
                # `opt?`: the discriminant of Try::branch(opt) -- Continue (0) means Some, Break (1) means None
                if x[0] == 'call' and x[1] == "<std::option::Option as std::ops::Try>::branch" and x[2] and isinstance(lab, tuple) and lab[0] == 'case':
                    x = ir.peel(x[2][0])
                    lab = ('case', 1) if lab[1] == 0 else ('case', 0)
                if x[0] == 'call' and x[1] == FROM_BYTES:
                    d.atoms['decode'] = 'ok' if lab == ('case', 0) else 'err'
                    hit = True
                elif x[0] == 'field' and x[1][0] == 'variant' and x[1][2] == 'Err' and ir.peel(x[1][1])[0] == 'call' and ir.peel(x[1][1])[1] == FROM_BYTES:
                    if isinstance(lab, tuple) and lab[0] == 'case':
                        d.atoms['decode'] = [k for k, v in perr.items() if v == lab[1]][0]
                    else:
                        d.atoms['decode'] = 'other_err'
                    hit = True
                elif wire_field(x) == 'rtype':
                    if isinstance(lab, tuple) and lab[0] == 'case':
                        d.atoms['rtype'] = [k for k, v in rt.items() if v == lab[1]][0]
                    else:
                        # exclusions accumulate over successive switches on the record type
                        old = d.atoms.get('rtype')
                        excl = set(k for k, v in rt.items() if v in lab[1])
                        if isinstance(old, str) and old.startswith('other(not '):
                            excl |= set(old[len('other(not '):-1].split(','))
                        if not (isinstance(old, str) and not old.startswith('other(not ')):
                            d.atoms['rtype'] = 'other(not %s)' % ",".join(sorted(excl))
                    hit = True
                elif x[0] == 'call' and x[1].endswith("cmp_input_streams"):
                    if isinstance(lab, tuple) and lab[0] == 'case':
                        d.atoms['cmp'] = {255: 'Less', 0: 'Equal', 1: 'Greater'}.get(lab[1], str(lab[1]))
                    else:
                        d.atoms['cmp'] = 'not(%s)' % ",".join({255: 'Less', 0: 'Equal', 1: 'Greater'}.get(v, str(v)) for v in lab[1])
                    hit = True
                elif x[0] == 'call' and x[1].endswith("::get") and any(y[0] == 'agg' and y[2].startswith("std::ops::Range") for y in ir.walk(x)):
                    # `data.get(a..b)`: enough bytes buffered?
                    own = [y for y in ir.walk(x[2][1]) if y[0] == 'agg' and y[2].startswith("std::ops::Range")] if len(x[2]) > 1 else []
                    rng = (own or [y for y in ir.walk(x) if y[0] == 'agg' and y[2].startswith("std::ops::Range")])[0]     # the range handed to this get()
                    start = ir.const_value(ir.peel(dict(rng[3]).get('start', ('const', 0, ''))))
                    which = 'have_header' if start == 0 else 'have_body'
                    d.atoms[which] = (lab == ('case', 1))
                    hit = True
                elif x[0] == 'call' and x[1] == BEGIN_FROM_BYTES:
                    d.atoms['body'] = 'ok' if lab == ('case', 0) else 'err'
                    hit = True
                elif x[0] == 'field' and x[1][0] == 'variant' and x[1][2] == 'Err' and ir.peel(x[1][1])[0] == 'call' and ir.peel(x[1][1])[1] == BEGIN_FROM_BYTES:
                    if isinstance(lab, tuple) and lab[0] == 'case':
                        d.atoms['body'] = [k for k, v in perr.items() if v == lab[1]][0]
                    else:
                        d.atoms['body'] = 'other_err'
                    hit = True
                elif x[0] == 'call' and x[1].endswith("NonZero::new") or (x[0] == 'call' and x[1].endswith("::new") and x[2] and wire_field(x[2][0]) == 'request_id'):
                    d.atoms['id_nonzero'] = (lab == ('case', 1))
                    hit = True
            elif pe[0] == 'bin' and pe[1] in ('Eq', 'Ne'):
                a, b = pe[2], pe[3]
                wa, wb = wire_field(a), wire_field(b)
                if (wa == 'request_id' and is_req_id(b)) or (wb == 'request_id' and is_req_id(a)):
                    t = label_truth(lab)
                    d.atoms['id'] = 'match' if (t == (pe[1] == 'Eq')) else 'other'
                    hit = True
                elif (wa == 'content_length' and ir.const_value(ir.peel(b)) == 0) or (wb == 'content_length' and ir.const_value(ir.peel(a)) == 0):
                    t = label_truth(lab)
                    d.atoms['len_nonzero'] = (t == (pe[1] == 'Ne'))
                    hit = True
                elif (wa == 'content_length' or wb == 'content_length') and any(y[0] == 'constdef' and y[1].endswith("BeginRequest::LEN") for y in ir.walk(pe)):
                    t = label_truth(lab)
                    d.atoms['begin_len_ok'] = (t == (pe[1] == 'Eq'))
                    hit = True
            elif pe[0] == 'call' and pe[1].endswith("is_management") and pe[2] and _is_head_payload(pe[2][0]):
                d.atoms['mgmt'] = label_truth(lab)
                hit = True
            elif pe[0] == 'call' and pe[1].endswith("is_input_stream") and pe[2] and wire_field(pe[2][0]) == 'rtype':
                d.atoms['input_stream'] = label_truth(lab)
                hit = True
            if not hit:
                d.extra_conds.append((ir.show(pe)[:100], lab))
        # replies: extend(<out>, to_record(<body>, <id>))
        for (nm, args, n) in r.calls:
            short = nm.split("::")[-1]
            if short in ('extend', 'extend_from_slice') and len(args) == 2:
                data = ir.peel(args[1])
                if data[0] == 'call' and data[1].endswith("::to_record"):
                    bodyagg = ir.peel(data[2][0])
                    idexpr = data[2][1]
                    rep = {'ctor': data[1].split("::")[-2]}
                    if bodyagg[0] == 'agg':
                        for (fn, fe) in bodyagg[3]:
                            fe = ir.peel(fe)
                            if fn == 'protocol_status':
                                rep['status'] = fe[2].split("::")[-1] if fe[0] == 'agg' else ir.show(fe)
                            elif fn == 'app_status':
                                rep['app_status'] = ir.const_value(fe)
                            elif fn == 'rtype':
                                rep['rtype'] = 'wire type' if wire_field(fe) == 'rtype' else ir.show(fe)[:40]
                    if wire_field(idexpr) == 'request_id':
                        rep['id'] = 'wire id'
                    elif is_req_id(idexpr):
                        rep['id'] = 'request id'
                    else:
                        rep['id'] = ir.show(idexpr)[:40]
                    rep['target'] = ir.show(args[0])[:30]
                    d.replies.append(tuple(sorted(rep.items())))
                else:
                    d.replies.append((('ctor', 'raw:' + ir.show(data)[:60]),))
            if short == 'write_response':
                d.replies.append((('ctor', 'GetValuesResult'),))
        d.raw_ret = r.ret
        out.append(d)
    return out


def effective_calls(facts, b, depth=0, seen=None):
    """callee names of a body, looking through helpers that are new relative to the pinned tree"""
    seen = seen if seen is not None else set()
    out = set()
    for blk in b.blocks:
        t = blk["t"]
        if t["k"] != "call" or "path" not in t["func"]:
            continue
        f = t["func"]
        for nm in {F.norm(f.get("path", "")), F.norm(f["res"]["path"]) if f.get("res") else None}:
            if not nm:
                continue
            out.add(nm)
            if depth < 4 and nm not in seen and facts.is_new_helper(nm):
                seen.add(nm)
                for cb in facts.by_npath.get(nm, []):
                    out |= effective_calls(facts, cb, depth + 1, seen)
    return out


def find_sites(facts):
    """Bodies that decode a record header, classified by effect."""
    sites = {}
    def add_owner(b, depth=0):
        # a decoding helper introduced later stands for the functions that call it
        if facts.is_new_helper(b.npath) and depth < 4:
            for (cb, cbi, t2, nm2) in F.calls_to(facts, lambda n, _p=b.npath: n == _p):
                add_owner(cb, depth + 1)
            return
        sites.setdefault(b.path, b)
    def in_protocol(b):
        return b.npath.startswith("protocol::") or b.npath.startswith("<protocol::") or b.loc().startswith("src/protocol/")

    def add_callers_outside(b, depth=0):
        # a conversion inside the protocol module that wraps the decoder (e.g. `impl TryFrom<[u8; 8]> for RecordHeader`) is not a
        # dispatch site itself; parser functions that decode through it are
        if depth > 3:
            return
        for (cb, cbi, t2, nm2) in F.calls_to(facts, lambda n, _p=b.npath: n == _p):
            if cb.promoted:
                continue
            if in_protocol(cb):
                add_callers_outside(cb, depth + 1)
            else:
                add_owner(cb)
    for (b, bi, t, name) in F.calls_to(facts, lambda n: n == FROM_BYTES):
        if b.promoted:
            continue
        if in_protocol(b):
            if b.npath.startswith("<protocol::"):
                add_callers_outside(b)
            continue
        add_owner(b)
    out = {}
    for b in sites.values():
        calls = effective_calls(facts, b)
        if BEGIN_FROM_BYTES in calls:
            kind = 'header'      # can start a request
        elif any("cmp_input_streams" in c for c in calls):
            kind = 'stream'
        else:
            kind = 'params'
        if kind in out:
            raise F.MissingAnchor("two header-dispatch sites classified as %s: %s and %s" % (kind, out[kind].npath, b.npath))
        out[kind] = b
    return out


def site_rows(facts, body):
    g = ieg.IEG(facts, body, inline_filter=lambda x: False)
    raw = paths.rows(g, max_paths=30000)
    rows = abstract_rows(facts, body, g, raw)
    # dedupe
    seen = {}
    for d in rows:
        # two paths are the same row only if they also store the same values (paths that differ in a field write must both be compared)
        ws = tuple(sorted((str(pl), str(val)) for (pl, val, n, s_) in d.row.writes)) if d.row is not None else ()
        seen.setdefault(d.key() + (str(d.raw_ret), ws), d)
    return g, list(seen.values())
